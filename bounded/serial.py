"""C11 JSON round trip.

Exact part (finite sets read off the real AST on every run -- holds for every object and every history):
  C11.keys.<K>       every attribute a K object can carry (assigned as self.<name> in ANY method of K or its bases)
                     and that the serialiser does not drop is accepted by K's constructor, so load(save(o)) cannot fail
                     on an unexpected keyword and nothing is silently swallowed;
  C11.grid.tz        the time grid's zone is written by the serialiser under a name its constructor accepts.
Bounded part (enumerated instances, labelled bounded):
  C11.roundtrip.<K>  load(to_json(o)) re-serialises to the same JSON and builds the identical problem, for fresh objects
                     and for objects that have been set up once; codecs for naive / zone-aware stamps incl. UTC offset 0.
"""
import ast
import json
import os

import numpy as np
import pandas as pd

from pyvc.extras import provider, lemma_record
from . import scenarios as sc

REPO = os.environ.get('PYVC_REPO', '/repo')


def class_table():
    tabs = {}
    for mod in ('basic_classes', 'assets', 'portfolio'):
        tree = ast.parse(open(os.path.join(REPO, 'eaopack', mod + '.py')).read())
        for node in tree.body:
            if isinstance(node, ast.ClassDef):
                bases = [b.id if isinstance(b, ast.Name) else getattr(b, 'attr', None) for b in node.bases]
                tabs[node.name] = dict(node=node, bases=[b for b in bases if b], mod=mod)
    return tabs


def mro(tabs, k):
    out = [k]
    for b in tabs[k]['bases']:
        if b in tabs:
            for c in mro(tabs, b):
                if c not in out:
                    out.append(c)
    return out


def init_of(tabs, k):
    for c in mro(tabs, k):
        for it in tabs[c]['node'].body:
            if isinstance(it, ast.FunctionDef) and it.name == '__init__':
                return c, it
    return None, None


def params(tabs, k):
    """names accepted by K(**dict); **kwargs is followed along super().__init__(**kwargs)"""
    c, fn = init_of(tabs, k)
    if fn is None:
        return set(), False
    a = fn.args
    names = {x.arg for x in a.args[1:]} | {x.arg for x in a.kwonlyargs}
    open_kw = False
    if a.kwarg is not None:
        # forwarded to the next __init__ in the MRO?
        forwarded = any(isinstance(n, ast.Call) and any(kw.arg is None for kw in n.keywords) and 'super' in ast.unparse(n.func) for n in ast.walk(fn))
        nxt = mro(tabs, c)[1:]
        if forwarded and nxt:
            p2, o2 = params(tabs, nxt[0])
            names |= p2
            open_kw = o2
        else:
            open_kw = True
    return names, open_kw


def attrs(tabs, k):
    out = set()
    for c in mro(tabs, k):
        for fn in tabs[c]['node'].body:
            if isinstance(fn, ast.FunctionDef):
                for n in ast.walk(fn):
                    if isinstance(n, ast.Attribute) and isinstance(n.ctx, ast.Store) and isinstance(n.value, ast.Name) and n.value.id == 'self':
                        out.add(n.attr)
    return out


def popped():
    """names the serialiser drops for assets (general) and per asset_type"""
    tree = ast.parse(open(os.path.join(REPO, 'eaopack', 'serialization.py')).read())
    fn = next(n for n in tree.body if isinstance(n, ast.FunctionDef) and n.name == 'json_serialize_objects')
    general, per_type = set(), {}

    def pops(body):
        out = set()
        for n in body:
            for c in ast.walk(n):
                if isinstance(c, ast.Call) and isinstance(c.func, ast.Attribute) and c.func.attr == 'pop' and c.args and isinstance(c.args[0], ast.Constant):
                    out.add(c.args[0].value)
                # for name in ['a', 'b']: res.pop(name, None)
                if isinstance(c, ast.For) and isinstance(c.target, ast.Name) and isinstance(c.iter, (ast.List, ast.Tuple)) and \
                        all(isinstance(e, ast.Constant) for e in c.iter.elts):
                    for d in ast.walk(c):
                        if isinstance(d, ast.Call) and isinstance(d.func, ast.Attribute) and d.func.attr == 'pop' and d.args and \
                                isinstance(d.args[0], ast.Name) and d.args[0].id == c.target.id:
                            out |= {e.value for e in c.iter.elts}
        return out
    for n in ast.walk(fn):
        if isinstance(n, ast.If) and 'Asset' in ast.unparse(n.test) and 'isinstance' in ast.unparse(n.test):
            for st in n.body:
                if isinstance(st, ast.If) and 'asset_type' in ast.unparse(st.test):
                    import re
                    for nm in re.findall(r"'(\w+)'", ast.unparse(st.test)):
                        if nm != 'asset_type':
                            per_type.setdefault(nm, set()).update(pops(st.body))
                else:
                    general |= pops([st])
    tg_keys = set()
    for n in ast.walk(fn):
        if isinstance(n, ast.If) and ast.unparse(n.test).replace(' ', '') == 'isinstance(obj,Timegrid)':
            for st in n.body:
                for d in ast.walk(st):
                    if isinstance(d, ast.Dict):
                        tg_keys |= {k.value for k in d.keys if isinstance(k, ast.Constant)}
            break
    tg_keys.discard('__class__')
    return general, per_type, tg_keys


def static_obligations():
    tabs = class_table()
    general, per_type, tg_keys = popped()
    obs = []
    asset_classes = [k for k in tabs if 'Asset' in mro(tabs, k) and k != 'Asset']
    for k in sorted(asset_classes):
        p, open_kw = params(tabs, k)
        saved = attrs(tabs, k) - general - per_type.get(k, set())
        extra = sorted(saved - p)
        name = f'C11.keys.{k}'
        if not extra or open_kw:
            # an open **kwargs accepts (and drops) further keys: loading cannot fail; that dropping them is harmless is
            # decided by the bounded round trip (same JSON, identical problem)
            obs.append(lemma_record(name, 'DISCHARGED', 'ast', 0.0, function='serialization:json_serialize_objects', case=k,
                                    note=None if not extra else f'swallowed by **kwargs: {extra}'))
        else:
            note = f'attributes saved but not accepted by {k}.__init__: {extra}' + (' (constructor has an open **kwargs: they are swallowed silently and the re-saved JSON differs)' if open_kw else ' (TypeError on load)')
            r = lemma_record(name, 'REFUTED', 'ast', 0.0, note=note, function='serialization:json_serialize_objects', case=k)
            r['reproduced'] = False
            r['static'] = dict(klass=k, extra=extra, open_kwargs=open_kw)
            obs.append(r)
    for k in sorted(asset_classes):
        p, _ = params(tabs, k)
        lost = sorted(p & (general | per_type.get(k, set())))
        name = f'C11.keys.{k}.no_constructor_parameter_dropped'
        if not lost:
            obs.append(lemma_record(name, 'DISCHARGED', 'ast', 0.0, function='serialization:json_serialize_objects', case=k))
        else:
            r = lemma_record(name, 'REFUTED', 'ast', 0.0, function='serialization:json_serialize_objects', case=k,
                             note=f'{k}.__init__ takes {lost}, the serialiser drops them: a {k} built with non-default values comes back with the defaults')
            r['reproduced'] = False
            r['static'] = dict(klass=k, lost=lost)
            obs.append(r)
    tp, _ = params(tabs, 'Timegrid')
    ok = bool(({'timezone', 'tz'} & tg_keys) and (tg_keys <= tp))
    r = lemma_record('C11.grid.tz', 'DISCHARGED' if ok else 'REFUTED', 'ast', 0.0,
                     note=None if ok else f'Timegrid is saved as {sorted(tg_keys)}; its zone (attribute tz, constructor parameter timezone) is not among them',
                     function='serialization:json_serialize_objects', case='Timegrid')
    if not ok:
        r['reproduced'] = False
    obs.append(r)
    return obs


# ------------------------------------------------------------------------------------------------ bounded round trips
def instances(eao, tz):
    t0 = pd.Timestamp('2021-03-27', tz=tz)
    mk = lambda h: t0 + pd.Timedelta(h, 'h')
    n1, n2, n3 = eao.assets.Node('n1'), eao.assets.Node('n2'), eao.assets.Node('n3')
    take = {'start': [mk(0)], 'end': [mk(24)], 'values': [-5.]}
    caps = {'start': [mk(0), mk(10)], 'end': [mk(10), mk(48)], 'values': [1., 2.]}
    out = {
        'SimpleContract': lambda: eao.assets.SimpleContract(name='sc', nodes=n1, price='p', min_cap=-1., max_cap=caps, extra_costs=0.5, start=mk(2), end=mk(40)),
        'Contract': lambda: eao.assets.Contract(name='c', nodes=n1, price='p', min_cap=-2., max_cap=0., min_take=take),
        'Storage': lambda: eao.assets.Storage(name='s', nodes=[n1, n2], size=3., cap_in=1., cap_out=1., eff_in=0.9, inflow=0.1, cost_store=0.01),
        'Transport': lambda: eao.assets.Transport(name='t', nodes=[n1, n2], min_cap=0., max_cap=2., efficiency=0.95, costs_const=0.1),
        'ExtendedTransport': lambda: eao.assets.ExtendedTransport(name='et', nodes=[n1, n2], min_cap=0., max_cap=2., max_take={'start': [mk(0)], 'end': [mk(24)], 'values': [10.]}),
        'MultiCommodityContract': lambda: eao.assets.MultiCommodityContract(name='mc', nodes=[n1, n2], price='p', min_cap=0., max_cap=1., factors_commodities=[1., 0.5]),
        'OrderBook': lambda: eao.assets.OrderBook(name='ob', nodes=n1, orders={'start': [mk(1), mk(5)], 'end': [mk(4), mk(9)], 'capa': [1., -1.], 'price': [3., 8.]}),
        'Plant': lambda: eao.assets.Plant(name='pl', nodes=[n1, n3], price='p', min_cap=1., max_cap=3., min_runtime=2, start_costs=1., fuel_efficiency=0.5),
        'CHPAsset': lambda: eao.assets.CHPAsset(name='chp', nodes=[n1, n2, n3], price='p', min_cap=1., max_cap=3., min_runtime=2, start_costs=1., max_share_heat=0.5, fuel_efficiency=0.5),
        'ScaledAsset': lambda: eao.assets.ScaledAsset(name='sa', base_asset=eao.assets.Storage(name='b', nodes=n1, size=3., cap_in=1., cap_out=1.), max_scale=2., fix_costs=0.1),
        'LinkedAsset': lambda: eao.portfolio.LinkedAsset(
            eao.portfolio.Portfolio([eao.assets.CHPAsset(name='AUX', nodes=(n1, n2), price='p', min_cap=1., max_cap=1.),
                                     eao.assets.CHPAsset(name='MAIN', nodes=(n1, n2), price='p', min_cap=0., max_cap=4.),
                                     eao.assets.SimpleContract(name='feed', nodes=n3, price='p', min_cap=0., max_cap=1.),
                                     eao.assets.Transport(name='pipe', nodes=[n3, n1], min_cap=0., max_cap=1.)]),
            nodes=[n1, n2], asset1_variable=['MAIN', 'disp', n1], asset2_variable=['AUX', 'bool_on', None], time_back=1, time_forward=2, name='linked'),
        'ScaledAsset_window': lambda: eao.assets.ScaledAsset(name='sw', base_asset=eao.assets.SimpleContract(name='b', nodes=n1, price='p', min_cap=-1., max_cap=1.),
                                                              max_scale=2., fix_costs=0.3, start=mk(6), end=mk(30)),
    }
    return out, mk


def problem_signature(op):
    A = op.A.toarray().round(9).tolist() if op.A is not None else None
    m = op.mapping.reset_index()
    cols = [c for c in ('index', 'time_step', 'node', 'asset', 'type', 'var_name', 'disp_factor', 'bool') if c in m.columns]
    return json.dumps(dict(c=np.round(op.c, 9).tolist(), l=np.round(op.l, 9).tolist(), u=np.round(op.u, 9).tolist(), A=A,
                           b=None if op.b is None else np.round(op.b, 9).tolist(), cType=op.cType, map=m[cols].astype(str).values.tolist()), sort_keys=True)


def check_roundtrip(case):
    eao = sc.eao_mod()
    out = []
    tz = case['tz']
    inst, mk = instances(eao, tz)
    k = case['klass']
    tg = eao.assets.Timegrid(mk(0).tz_localize(None) if tz else mk(0), (mk(48).tz_localize(None) if tz else mk(48)), freq='h', timezone=tz)
    prices = {'p': np.arange(tg.T) % 7 + 1.}
    try:
        a = inst[k]()
        if case['after_setup']:
            a.setup_optim_problem(prices, tg)
        s1 = eao.serialization.to_json(a)
        b = eao.serialization.load_from_json(s1)
        s2 = eao.serialization.to_json(b)
        if s1 != s2:
            out.append(sc.fail(f'C11.roundtrip.{k}.same_json', 'serialization:to_json', case, case, 're-saved JSON differs from the saved one'))
        tg2 = eao.assets.Timegrid(mk(0).tz_localize(None) if tz else mk(0), (mk(48).tz_localize(None) if tz else mk(48)), freq='h', timezone=tz)
        tg3 = eao.assets.Timegrid(mk(0).tz_localize(None) if tz else mk(0), (mk(48).tz_localize(None) if tz else mk(48)), freq='h', timezone=tz)
        if problem_signature(inst[k]().setup_optim_problem(prices, tg2)) != problem_signature(b.setup_optim_problem(prices, tg3)):
            out.append(sc.fail(f'C11.roundtrip.{k}.identical_problem', 'serialization:load_from_json', case, case, 'loaded object builds a different problem'))
    except Exception as e:
        out.append(sc.fail(f'C11.roundtrip.{k}.loadable', 'serialization:load_from_json', case, case, f'{type(e).__name__}: {str(e)[:200]}'))
    return out


def check_codec(case):
    eao = sc.eao_mod()
    out = []
    tz = case['tz']
    stamps = [pd.Timestamp('2021-01-15 00:00', tz=tz), pd.Timestamp('2021-03-28 03:00', tz=tz), pd.Timestamp('2021-07-01 12:30:15', tz=tz),
              pd.Timestamp('2021-10-31 00:30', tz=tz)]
    for t in stamps:
        try:
            back = eao.serialization.load_from_json(eao.serialization.to_json({'t': t}))['t']
            same = (back == t) if (t.tzinfo is not None) == (back.tzinfo is not None) else False
            if not same or (t.tzinfo is None) != (back.tzinfo is None) or (t.tzinfo is not None and str(back.tzinfo) != str(t.tzinfo)):
                out.append(sc.fail('C11.codec.timestamp', 'serialization:json_serialize_objects', case, dict(case, stamp=str(t)), f'{t!r} came back as {back!r}'))
        except Exception as e:
            out.append(sc.fail('C11.codec.timestamp', 'serialization:json_serialize_objects', case, dict(case, stamp=str(t)), f'{type(e).__name__}: {e}'))
    for arr in (np.array([1., 2.5]), np.array([], dtype=float), np.array([1, 2, 3])):
        back = eao.serialization.load_from_json(eao.serialization.to_json({'a': arr}))['a']
        if not (isinstance(back, np.ndarray) and back.shape == arr.shape and np.array_equal(back, arr)):
            out.append(sc.fail('C11.codec.ndarray', 'serialization:json_serialize_objects', case, dict(case, arr=arr.tolist()), f'{arr!r} came back as {back!r}'))
    # a portfolio's own grid keeps points and zone
    tg = eao.assets.Timegrid(pd.Timestamp('2021-03-27'), pd.Timestamp('2021-03-29'), freq='h', timezone=tz)
    pf = eao.portfolio.Portfolio([eao.assets.SimpleContract(name='a', nodes=eao.assets.Node('n'), min_cap=-1., max_cap=1.)])
    pf.set_timegrid(tg)
    try:
        pf2 = eao.serialization.load_from_json(eao.serialization.to_json(pf))
        g2 = pf2.timegrid
        if g2.T != tg.T or str(g2.tz) != str(tg.tz) or not all(a == b for a, b in zip(g2.timepoints, tg.timepoints)):
            out.append(sc.fail('C11.grid.survives', 'serialization:load_from_json', case, case, f'grid T {g2.T} vs {tg.T}, tz {g2.tz} vs {tg.tz}'))
    except Exception as e:
        out.append(sc.fail('C11.grid.survives', 'serialization:load_from_json', case, case, f'{type(e).__name__}: {str(e)[:200]}'))
    return out


@provider('C11')
def c11(prop, tier, seed):
    from .registry import run_cases, _merge
    obs = static_obligations()
    import random
    rng = random.Random(seed)
    zones = [None, 'CET', 'UTC', 'Europe/London']
    klasses = ['SimpleContract', 'Contract', 'Storage', 'Transport', 'ExtendedTransport', 'MultiCommodityContract', 'OrderBook', 'Plant', 'CHPAsset', 'ScaledAsset', 'ScaledAsset_window', 'LinkedAsset']
    cases = [dict(klass=k, tz=tz, after_setup=af) for k in klasses for tz in zones for af in (False, True)]
    rng.shuffle(cases)
    n = 80 if tier == 'thorough' else 28
    # every class at least once in the quick tier
    first = []
    seen = set()
    for c in cases:
        if c['klass'] not in seen:
            seen.add(c['klass'])
            first.append(c)
    rest = [c for c in cases if c not in first]
    b1 = run_cases(check_roundtrip, (first + rest)[:n], 'one instance per asset class x zone (naive, CET, UTC, Europe/London) x fresh / after one set-up: save, load, save again, identical problem',
                   '11 asset classes (ScaledAsset also with its own window; LinkedAsset with an internal node), 4 zones, 48 h grids', 60 if tier == 'quick' else 400)
    b2 = run_cases(check_codec, [dict(tz=z) for z in zones], 'timestamp / ndarray codecs and the portfolio grid for four zones incl. UTC offset 0 and DST edges', '4 zones', 20)
    return dict(obligations=obs, bounded=_merge(b1, b2))
