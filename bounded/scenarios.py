"""Bounded stand-ins (never counted as proved): the property statements evaluated natively on enumerated small
real scenarios, for the parts that are outside the reach of the VC generator (pandas calendar arithmetic,
__make_periodic__, the CHP driver, split optimisation, solver-level statements).  Each check returns records
dict(name, function, case, params, detail) for failing scenarios; the runner turns them into violations with a
replay file (`./check --replay` re-runs the scenario by name and parameters).
"""
import itertools
import math
import random

import json
import numpy as np
import pandas as pd

TOL = 1e-5


def eao_mod():
    import eaopack as eao
    return eao


def optimize(pf, prices, tg, **kw):
    op = pf.setup_optim_problem(prices, tg, **kw)
    res = op.optimize()
    return op, res


def fail(name, function, case, params, detail):
    return dict(name=name, function=function, case=str(case), params=params, detail=str(detail)[:600], twin=dict(scenario=name, params=params))


# ------------------------------------------------------------------------------------------------ C19 / C12 coarse grids
def coarse_grid_cases(seed, n):
    rng = random.Random(seed)
    cases = []
    zones = [None, 'CET', 'CET', 'US/Eastern']
    for tz in zones:
        for (fine, coarse) in (('h', 'd'), ('h', '4h'), ('15min', 'h'), ('h', 'W'), ('d', 'W')):
            for start in ('2021-03-26', '2021-10-29', '2021-01-04', '2021-03-28'):
                days = rng.choice([3, 4, 7, 14])
                cases.append(dict(tz=tz, fine=fine, coarse=coarse, start=start, days=days))
    rng.shuffle(cases)
    return cases[:n]


def check_coarse_grid(case):
    """C19: a coarser restricted grid partitions the fine steps it covers without loss; its step length is the
    elapsed time (sum of the fine steps); C12: same in another main time unit."""
    eao = eao_mod()
    out = []
    start = pd.Timestamp(case['start'])
    if case['coarse'] == 'W' and not case.get('unaligned'):
        # align the window with the anchor of 'W' (Sunday) so that no edge steps are outside every coarse interval
        start = start - pd.Timedelta((start.dayofweek + 1) % 7, 'd')
        days = 14
    else:
        days = case['days']
    end = start + pd.Timedelta(days, 'd')
    for unit in ('h', 'd'):
        tg = eao.assets.Timegrid(start, end, freq=case['fine'], main_time_unit=unit, timezone=case['tz'])
        # window of the restricted grid: the grid's own, or sticking out of it by a fraction of a coarse step
        ws = start + pd.Timedelta(case.get('woff', (0, 0))[0], 'h')
        we = end + pd.Timedelta(case.get('woff', (0, 0))[1], 'h')
        tg.set_restricted_grid(ws, we, case['coarse'])
        r = tg.restricted
        members = [list(map(int, m)) for m in r.I_minor_in_major]
        flat = [i for m in members for i in m]
        params = dict(case, unit=unit)
        if sorted(flat) != flat or len(set(flat)) != len(flat):
            out.append(fail('C19.coarse.disjoint_and_ordered', 'basic_classes:Timegrid.__init__', case, params, f'fine steps assigned twice / out of order: {flat[:40]}'))
        covered = set(flat)
        if case.get('whole') and covered != set(range(tg.T)):
            out.append(fail('C19.coarse.partitions_the_whole_window', 'basic_classes:Timegrid.__init__', case, params,
                            f'fine steps of the window in no coarse interval: {sorted(set(range(tg.T)) - covered)[:8]} ... ({len(set(range(tg.T)) - covered)} of {tg.T})'))
        pts = pd.date_range(start=r.start, end=r.end, freq=case['coarse'])
        inside = [i for i, t in enumerate(tg.timepoints) if len(pts) > 1 and pts[0] <= t < pts[-1]]
        if set(inside) != covered:
            out.append(fail('C19.coarse.noloss', 'basic_classes:Timegrid.__init__', case, params,
                            f'fine steps inside the coarse range not covered exactly once: missing {sorted(set(inside) - covered)[:10]} extra {sorted(covered - set(inside))[:10]}'))
        for k, m in enumerate(members):
            want = float(np.sum(tg.dt[m]))
            if abs(float(r.dt[k]) - want) > 1e-9 * max(1, abs(want)):
                out.append(fail('C19.coarse.dt_is_sum_of_minor_steps', 'basic_classes:Timegrid.__init__', case, params, f'coarse step {k}: dt {r.dt[k]} != sum of fine dt {want}'))
            # elapsed time to the next coarse point
            t0 = tg.timepoints[m[0]]
            t1 = tg.timepoints[m[-1] + 1] if m[-1] + 1 < tg.T else tg.end
            el = (t1 - t0) / pd.Timedelta(1, unit)
            if abs(float(r.dt[k]) - el) > 1e-9 * max(1, abs(el)):
                out.append(fail('C12.coarse.dt_is_elapsed_time', 'basic_classes:Timegrid.__init__', case, params, f'coarse step {k}: dt {r.dt[k]} != elapsed {el} {unit}'))
                break
    return out


# ------------------------------------------------------------------------------------------------ C19 root grid incl. DST
def check_root_grid(case):
    eao = eao_mod()
    out = []
    start = pd.Timestamp(case['start'])
    end = start + pd.Timedelta(case['days'], 'd')
    tg = eao.assets.Timegrid(start, end, freq=case['fine'], main_time_unit=case.get('unit', 'h'), timezone=case['tz'])
    tp = tg.timepoints
    el = [((tp[k + 1] if k + 1 < tg.T else tg.end) - tp[k]) / pd.Timedelta(1, case.get('unit', 'h')) for k in range(tg.T)]
    # the last step runs to the next range point (== end for aligned horizons)
    if tg.T and not np.allclose(tg.dt[:-1], el[:-1], rtol=1e-12, atol=0):
        out.append(fail('C19.grid.dt_is_elapsed_time', 'basic_classes:Timegrid.__init__', case, case, 'dt differs from elapsed time'))
        out.append(fail('C12.grid.step_length_is_elapsed_time_across_dst', 'basic_classes:Timegrid.__init__', case, case,
                        f'dt {np.round(tg.dt, 4).tolist()[:6]} vs elapsed {np.round(el, 4).tolist()[:6]}'))
    if not all(tp[k] < tp[k + 1] for k in range(tg.T - 1)) or (tg.T and (tp[0] != tg.start or tp[-1] >= tg.end)):
        out.append(fail('C19.grid.points', 'basic_classes:Timegrid.__init__', case, case, 'points not increasing from start to before end'))
    if tg.T and not np.allclose(tg.Dt, np.cumsum(tg.dt)):
        out.append(fail('C19.grid.Dt', 'basic_classes:Timegrid.__init__', case, case, 'Dt not cumulative dt'))
    return out


# ------------------------------------------------------------------------------------------------ C13 periodicity / coarse freq
def ref_lp_with_equalities(c, l, u, groups):
    """min c x s.t. l<=x<=u, x_i equal inside each group"""
    from scipy.optimize import linprog
    n = len(c)
    Aeq, beq = [], []
    for g in groups:
        for a, b in zip(g[:-1], g[1:]):
            row = np.zeros(n)
            row[a], row[b] = 1, -1
            Aeq.append(row)
            beq.append(0.)
    r = linprog(c, A_eq=np.array(Aeq) if Aeq else None, b_eq=np.array(beq) if beq else None, bounds=list(zip(l, u)), method='highs')
    return -r.fun, r.x


def check_periodic(case):
    """C13: a periodic contract equals the fine problem plus equalities between the same positions of all periods
    inside one duration; value compared with an independent scipy LP"""
    eao = eao_mod()
    out = []
    start = pd.Timestamp(case['start'])
    days = case['days']
    tg = eao.assets.Timegrid(start, start + pd.Timedelta(days, 'd'), freq='h')
    rng = np.random.RandomState(case['pseed'])
    price = rng.uniform(-5, 20, tg.T).round(2)
    node = eao.assets.Node('n')
    ec = case['ec']
    a = eao.assets.SimpleContract(name='c', nodes=node, price='p', min_cap=-1., max_cap=1., extra_costs=ec,
                                  periodicity='d', periodicity_duration=case['duration'])
    op = a.setup_optim_problem({'p': price}, tg)
    res = op.optimize()
    # reference: one variable per hour (two with spread), equalities inside (duration, hour-of-day)
    if case['duration'] is None:
        dur_of = lambda t: 0
    elif case['duration'] == '7d':
        dur_of = lambda t: int((t - start) / pd.Timedelta(7, 'd'))
    else:   # 'W' : weeks ending Sunday -> boundaries at Sunday 00:00
        dur_of = lambda t: (t - pd.Timedelta((t.dayofweek + 1) % 7, 'd')).normalize().value
    groups = {}
    for k, t in enumerate(tg.timepoints):
        groups.setdefault((dur_of(t), t.hour), []).append(k)
    if ec == 0:
        val, x = ref_lp_with_equalities(price, -np.ones(tg.T), np.ones(tg.T), list(groups.values()))
    else:
        c2 = np.hstack((price - ec, price + ec))
        l2 = np.hstack((-np.ones(tg.T), np.zeros(tg.T)))
        u2 = np.hstack((np.zeros(tg.T), np.ones(tg.T)))
        g2 = list(groups.values()) + [[k + tg.T for k in g] for g in groups.values()]
        val, x = ref_lp_with_equalities(c2, l2, u2, g2)
    if isinstance(res, str) or abs(res.value - val) > 1e-4 * max(1, abs(val)):
        out.append(fail('C13.periodic.equiv', 'optimization:OptimProblem.__make_periodic__', case, case,
                        f'periodic value {getattr(res, "value", res)} != reference with equalities {val}'))
    return out


def check_coarse_asset(case):
    """C13: an asset on a coarser frequency = fine problem with constant rate inside each coarse interval
    (uniform fine steps: equal volumes); prices averaged"""
    eao = eao_mod()
    out = []
    start = pd.Timestamp(case['start'])
    tg = eao.assets.Timegrid(start, start + pd.Timedelta(case['days'], 'd'), freq='h')
    rng = np.random.RandomState(case['pseed'])
    price = rng.uniform(1, 20, tg.T).round(2)
    node = eao.assets.Node('n')
    a = eao.assets.SimpleContract(name='c', nodes=node, price='p', min_cap=-2., max_cap=1., freq=case['coarse'])
    op = a.setup_optim_problem({'p': price}, tg)      # the asset alone (a portfolio would force its node to balance)
    res = op.optimize()
    step = {'4h': 4, 'd': 24}[case['coarse']]
    groups = [list(range(k, min(k + step, tg.T))) for k in range(0, tg.T, step)]
    val, x = ref_lp_with_equalities(price, -2 * np.ones(tg.T), np.ones(tg.T), groups)
    if isinstance(res, str) or abs(res.value - val) > 1e-4 * max(1, abs(val)):
        out.append(fail('C13.coarse.equiv', 'assets:Asset.__extend_mapping_to_minor_grid__', case, case, f'coarse value {getattr(res, "value", res)} != fine + equalities {val}'))
        return out
    d = np.zeros(tg.T)
    fac = op.mapping['disp_factor'] if 'disp_factor' in op.mapping else pd.Series(1., index=op.mapping.index)
    for i, t, f in zip(op.mapping.index, op.mapping['time_step'], fac):
        d[int(t)] += res.x[int(i)] * float(f)
    for g in groups:
        if np.ptp(d[g]) > 1e-6:
            out.append(fail('C13.coarse.constant_rate', 'assets:Asset.__extend_mapping_to_minor_grid__', case, case, f'dispatch not constant inside coarse interval {g[:3]}..: {d[g][:5]}'))
            break
    return out


# ------------------------------------------------------------------------------------------------ C14 split
def check_split(case):
    eao = eao_mod()
    out = []
    start = pd.Timestamp(case.get('start', '2021-01-01'))
    end = start + pd.Timedelta(case['hours'], 'h')
    # main time unit of the grid (C12): rates are given per unit (k = hours per unit), discounting with the assets' wacc
    unit = case.get('unit', 'h')
    k = {'h': 1., 'd': 24.}[unit]
    w = case.get('wacc', 0.)
    tg = eao.assets.Timegrid(start, end, freq=case['freq'], main_time_unit=unit, timezone=case.get('tz'))
    if case.get('tz'):
        start, end = tg.start, tg.end
    rng = np.random.RandomState(case['pseed'])
    price = rng.uniform(1, 20, tg.T).round(2)
    n1, n2 = eao.assets.Node('a'), eao.assets.Node('b')
    assets = [eao.assets.SimpleContract(name='buy', nodes=n1, price='p', min_cap=-3. * k, max_cap=3. * k, wacc=w),
              eao.assets.SimpleContract(name='load', nodes=n2, min_cap=-1. * k, max_cap=-1. * k, wacc=w),
              eao.assets.Transport(name='t', nodes=[n1, n2], min_cap=0., max_cap=2. * k, efficiency=0.9, wacc=w)]
    if case['storage']:
        assets.append(eao.assets.Storage(name='s', nodes=n1, size=3., cap_in=1. * k, cap_out=1. * k, start_level=1., end_level=1., wacc=w))
    if case.get('orderbook'):
        # one order per day (so every interval leaves some orders without any step: variables without mapping row), placed last / first
        pts_ = list(tg.timepoints) + [tg.end]
        days = max(1, int(np.ceil(case['hours'] / 24.)))
        ob = pd.DataFrame({'start': [start + pd.Timedelta(24 * d, 'h') for d in range(days)],
                           'end': [min(start + pd.Timedelta(24 * d + 6, 'h'), end) for d in range(days)],
                           'capa': [1. + d for d in range(days)], 'price': [2. + 3 * d for d in range(days)]})
        book = eao.assets.OrderBook(name='orders', nodes=n1, orders=ob)
        assets = assets + [book] if case['orderbook'] == 'last' else [book] + assets
    prices = {'p': price}
    if case.get('plant'):
        # dispatch factors that differ from interval to interval with the SAME variable layout: a plant whose fuel efficiency is a time series
        gas = eao.assets.Node('g')
        prices['eff'] = np.where(np.asarray([(t - start).days for t in tg.timepoints]) % 2 == 0, .5, .4)
        prices['gp'] = 2. + (np.arange(tg.T) % 3)
        assets = assets + [eao.assets.Plant(name='plant', nodes=[n1, gas], min_cap=0., max_cap=2., fuel_efficiency='eff'),
                           eao.assets.SimpleContract(name='gas', nodes=gas, min_cap=0., max_cap=50., price='gp')]
    if case.get('infeasible_interval'):
        # a demand that cannot be served, active from the second day on: the first interval is solvable, a later one is not
        assets = assets + [eao.assets.SimpleContract(name='load2', nodes=n2, min_cap=-5., max_cap=-5., start=start + pd.Timedelta(24, 'h'))]
    pf = eao.portfolio.Portfolio(assets)
    op, res = optimize(pf, prices, tg)
    pf2 = eao.portfolio.Portfolio(assets)
    ops = pf2.setup_split_optim_problem(prices, tg, interval_size=case['interval'])
    params = dict(case)
    if case.get('infeasible_interval'):
        # C03 / C14: failure is REPORTED (a status instead of a solution), for the split problem as for the unsplit one
        try:
            rs = ops.optimize()
        except Exception as e:
            out.append(fail('C14.split.failure_of_an_interval_is_reported', 'optimization:SplitOptimProblem.optimize', case, params,
                            f'unsplit problem reports {res if isinstance(res, str) else "a solution"}; split optimize raises {type(e).__name__}: {str(e)[:100]}'))
            return out
        if not isinstance(rs, str) or not isinstance(res, str):
            out.append(fail('C14.split.failure_of_an_interval_is_reported', 'optimization:SplitOptimProblem.optimize', case, params,
                            f'unsplit: {res if isinstance(res, str) else "solution"}, split: {rs if isinstance(rs, str) else "solution"}'))
        return out
    rs = ops.optimize()
    steps = sorted(set(int(t) for t in ops.mapping['time_step']))
    if steps != list(range(tg.T)):
        out.append(fail('C14.steps_refer_to_original_grid', 'portfolio:Portfolio.setup_split_optim_problem', case, params,
                        f'time steps of the split mapping are not the grid steps: missing {sorted(set(range(tg.T)) - set(steps))[:8]}'))
        return out
    if len(rs.x) != len(ops.c) or abs(rs.value + float(ops.c @ rs.x)) > 1e-5 * max(1, abs(rs.value)):
        out.append(fail('C14.value_is_sum_of_interval_optima', 'optimization:SplitOptimProblem.optimize', case, params, 'value != -c.x of concatenation'))
    o = eao.io.extract_output(pf2, ops, rs)
    # C04 on the split problem: value = DCF total; each asset's DCF total = minus cost x value of its OWN variables (taken from the interval problems)
    tot = float(o['DCF'].sum().sum())
    if abs(tot - rs.value) > 1e-5 * max(1., abs(rs.value)):
        out.append(fail('C04.split.value_equals_sum_of_dcf', 'portfolio:Portfolio.setup_split_optim_problem', case, params, f'value {rs.value} != DCF total {tot}'))
    own = {a.name: 0. for a in assets}
    off = 0
    for sub in ops.ops:
        xs = rs.x[off:off + len(sub.c)]
        m = sub.mapping
        for a in assets:
            idx = sorted(set(int(i) for i in m.index[m['asset'] == a.name]))
            own[a.name] += -float(np.sum(sub.c[idx] * xs[idx]))
        off += len(sub.c)
    for a in assets:
        got = float(o['DCF'][a.name].sum())
        if abs(got - own[a.name]) > 1e-5 * max(1., abs(own[a.name])):
            out.append(fail('C04.split.asset_dcf_equals_cost_of_own_variables', 'portfolio:Portfolio.setup_split_optim_problem', case, params,
                            f'asset {a.name}: DCF total {got} vs -c.x of its own variables {own[a.name]}'))
            break
    d = o['dispatch']
    for node in ('a', 'b', 'g'):
        cols_ = [c for c in d.columns if c.endswith(f'({node})')]
        if not cols_:
            continue
        bal = d[cols_].sum(axis=1)
        if np.abs(bal.values).max() > 1e-5:
            for nm_ in ('C14.feasible.nodal_balance', 'C01.split.reported_dispatch_nets_to_zero'):
                out.append(fail(nm_, 'portfolio:Portfolio.setup_split_optim_problem', case, params, f'node {node} not balanced: {np.abs(bal.values).max()} at step {int(np.abs(bal.values).argmax())}'))
    if not case['storage']:
        if abs(rs.value - res.value) > 1e-4 * max(1, abs(res.value)):
            out.append(fail('C14.equal_uncoupled', 'portfolio:Portfolio.setup_split_optim_problem', case, params, f'split {rs.value} != unsplit {res.value}'))
    elif rs.value > res.value + 1e-4 * max(1, abs(res.value)):
        out.append(fail('C14.storage_le', 'portfolio:Portfolio.setup_split_optim_problem', case, params, f'split {rs.value} > unsplit {res.value}'))
    return out


# ------------------------------------------------------------------------------------------------ C15 fix time window
def check_fix_window(case):
    eao = eao_mod()
    out = []
    start = pd.Timestamp('2021-01-01')
    tg = eao.assets.Timegrid(start, start + pd.Timedelta(case['T'], 'h'), freq='h')
    rng = np.random.RandomState(case['pseed'])
    price = rng.uniform(1, 20, tg.T).round(2)
    n1, n2 = eao.assets.Node('a'), eao.assets.Node('b')
    assets = [eao.assets.SimpleContract(name='buy', nodes=n1, price='p', min_cap=-3., max_cap=3.),
              eao.assets.Storage(name='s', nodes=n1, size=3., cap_in=1., cap_out=1., start_level=0., end_level=0., eff_in=case['eff'])]
    if case['transport']:
        assets += [eao.assets.Transport(name='t', nodes=[n1, n2], min_cap=0., max_cap=2., efficiency=0.9),
                   eao.assets.SimpleContract(name='load', nodes=n2, min_cap=-1., max_cap=-1.)]
    if case.get('multistep'):
        # variables that belong to SEVERAL steps: an asset on its own coarser frequency (one variable per 6 h) and a periodic one
        assets += [eao.assets.SimpleContract(name='coarse', nodes=n1, price='p', min_cap=-1., max_cap=1., freq='6h'),
                   eao.assets.SimpleContract(name='periodic', nodes=n1, price='p', min_cap=-.5, max_cap=.5, extra_costs=.1, periodicity='6h')]
    pf = eao.portfolio.Portfolio(assets)
    op, res = optimize(pf, {'p': price}, tg)
    mask = np.zeros(tg.T, bool)
    for (a, b) in case['windows']:
        mask[a:b] = True
    x_prev = res.x.copy()
    fix = {'I': mask.copy(), 'x': x_prev.copy()}
    price2 = price[::-1].copy() if case['newprices'] else price
    op2 = pf.setup_optim_problem({'p': price2}, tg, fix_time_window=fix)
    m = op2.mapping
    in_window = np.zeros(len(op2.c), bool)
    for i, t in zip(m.index, m['time_step']):
        if mask[int(t)]:
            in_window[int(i)] = True
    ref = pf.setup_optim_problem({'p': price2}, tg)
    pinned = np.isclose(op2.l, x_prev) & np.isclose(op2.u, x_prev)
    bad_in = [j for j in range(len(op2.c)) if in_window[j] and not pinned[j]]
    bad_out = [j for j in range(len(op2.c)) if not in_window[j] and not (np.isclose(op2.l[j], ref.l[j]) and np.isclose(op2.u[j], ref.u[j]))]
    params = dict(case)
    if bad_in:
        out.append(fail('C15.pin.window_variables_fixed', 'portfolio:Portfolio.setup_optim_problem', case, params, f'variables of window steps not pinned: {bad_in[:8]}'))
    if bad_out:
        out.append(fail('C15.pin.other_variables_free', 'portfolio:Portfolio.setup_optim_problem', case, params, f'variables outside the window changed bounds: {bad_out[:8]}'))
    if not case['newprices']:
        r2 = op2.optimize()
        if isinstance(r2, str) or abs(r2.value - res.value) > 1e-4 * max(1, abs(res.value)):
            out.append(fail('C15.value_unchanged', 'portfolio:Portfolio.setup_optim_problem', case, params, f'{getattr(r2, "value", r2)} vs {res.value}'))
    return out


def check_fix_window_split(case):
    """C15 for the split set-up (documented parameter fix_time_window of setup_split_optim_problem): the window refers to the
    steps of the whole horizon and the previous solution to the variables of the whole split problem"""
    eao = eao_mod()
    out = []
    start = pd.Timestamp('2021-01-01')
    tg = eao.assets.Timegrid(start, start + pd.Timedelta(case['T'], 'h'), freq='h')
    rng = np.random.RandomState(case['pseed'])
    price = rng.uniform(1, 20, tg.T).round(2)
    n1, n2 = eao.assets.Node('a'), eao.assets.Node('b')

    def mkpf():
        assets = [eao.assets.SimpleContract(name='buy', nodes=n1, price='p', min_cap=-3., max_cap=3.),
                  eao.assets.Storage(name='s', nodes=n1, size=3., cap_in=1., cap_out=1., start_level=0., end_level=0., eff_in=case['eff'])]
        if case['transport']:
            assets += [eao.assets.Transport(name='t', nodes=[n1, n2], min_cap=0., max_cap=2., efficiency=0.9),
                       eao.assets.SimpleContract(name='load', nodes=n2, min_cap=-1., max_cap=-1.)]
        return eao.portfolio.Portfolio(assets)
    params = dict(case)
    op = mkpf().setup_split_optim_problem({'p': price}, tg, interval_size=case['interval'])
    res = op.optimize()
    if isinstance(res, str):
        return out
    x_prev = np.asarray(res.x).copy()
    a, b = case['window']
    mask = np.zeros(tg.T, bool)
    mask[a:b] = True
    if case['wkind'] == 'mask':
        I = mask.copy()
    elif case['wkind'] == 'index':
        I = np.arange(a, b)
    else:   # date: all steps up to and including that grid point
        I = tg.timepoints[b - 1].to_pydatetime()
        mask[:] = False
        mask[:b] = True
    price2 = price[::-1].copy() if case['newprices'] else price
    try:
        op2 = mkpf().setup_split_optim_problem({'p': price2}, tg, interval_size=case['interval'], fix_time_window={'I': I, 'x': x_prev.copy()})
        ref = mkpf().setup_split_optim_problem({'p': price2}, tg, interval_size=case['interval'])
    except Exception as e:
        out.append(fail('C15.split.no_raise', 'portfolio:Portfolio.setup_split_optim_problem', case, params, f'{type(e).__name__}: {str(e)[:160]}'))
        return out
    l2 = np.concatenate([o.l for o in op2.ops])
    u2 = np.concatenate([o.u for o in op2.ops])
    lr = np.concatenate([o.l for o in ref.ops])
    ur = np.concatenate([o.u for o in ref.ops])
    m = op2.mapping
    in_window = np.zeros(len(l2), bool)
    for i, t in zip(m.index, m['time_step']):
        if mask[int(t)]:
            in_window[int(i)] = True
    pinned = np.isclose(l2, x_prev) & np.isclose(u2, x_prev)
    bad_in = [j for j in range(len(l2)) if in_window[j] and not pinned[j]]
    bad_out = [j for j in range(len(l2)) if not in_window[j] and not (np.isclose(l2[j], lr[j]) and np.isclose(u2[j], ur[j]))]
    if bad_in:
        out.append(fail('C15.split.window_variables_fixed', 'portfolio:Portfolio.setup_split_optim_problem', case, params, f'variables of window steps not pinned to the previous solution: {bad_in[:8]}'))
    if bad_out:
        out.append(fail('C15.split.other_variables_free', 'portfolio:Portfolio.setup_split_optim_problem', case, params, f'variables outside the window changed bounds: {bad_out[:8]}'))
    if not case['newprices']:
        r2 = op2.optimize()
        if isinstance(r2, str) or abs(r2.value - res.value) > 1e-4 * max(1, abs(res.value)):
            out.append(fail('C15.split.value_unchanged', 'portfolio:Portfolio.setup_split_optim_problem', case, params, f'{getattr(r2, "value", r2)} vs {res.value}'))
    return out


def check_fix_window_plant(case):
    """C15 with an asset that has non-dispatch variables (on / start binaries) and its own window: a plant (capacity band when on, start
    costs, active from step s0) sells into a market without limits.  The first W+1 steps are fixed to the solution under the old prices;
    under new prices the optimum must be: cash flow of the fixed part at the new prices (previous outputs and starts) + the best on/off
    plan of the remaining steps, computed in closed form (per step the better end of the capacity band, start costs by dynamic programming
    from the state at the end of the window).  "All other variables remain free" fails if the plant cannot switch after the window."""
    eao = eao_mod()
    out = []
    rng = random.Random(case['seed'])
    T, s0, W = case['T'], case['s0'], case['W']
    start = pd.Timestamp('2021-01-01')
    tg = eao.assets.Timegrid(start, start + pd.Timedelta(T, 'h'), freq='h')
    pts = list(tg.timepoints) + [tg.end]
    node = eao.assets.Node('P')
    mn, mx, e, cs = 2., 10., 1., case.get('start_costs', 3.)

    def mkpf():
        pl = eao.assets.Plant(name='pl', nodes=node, min_cap=mn, max_cap=mx, extra_costs=e, start_costs=cs, start=pts[s0] if s0 else None, time_already_off=1)
        mk = eao.assets.SimpleContract(name='m', nodes=node, price='p', min_cap=-100., max_cap=100.)
        return eao.portfolio.Portfolio([pl, mk] if not case.get('order') else [mk, pl])
    lv = [-4., 0., 3., 6., 9.]
    p1 = np.asarray([rng.choice(lv) for _ in range(T)])
    p2 = np.asarray([rng.choice(lv) for _ in range(T)])
    pf = mkpf()
    op = pf.setup_optim_problem({'p': p1}, tg)
    res = op.optimize()
    if isinstance(res, str):
        return out
    m = op.mapping
    d = m[(m['asset'] == 'pl') & (m['type'] == 'd')]
    x_prev = np.zeros(T)
    for i, r in d.iterrows():
        x_prev[int(r['time_step'])] += res.x[i] * (r['disp_factor'] if 'disp_factor' in r and not pd.isnull(r['disp_factor']) else 1.)
    on_prev = (np.abs(x_prev) > 1e-6).astype(int)
    mask = np.zeros(T, bool)
    mask[:W + 1] = True
    if case.get('date'):
        I = pts[W].to_pydatetime()
    else:
        I = mask.copy()
    params = dict(case)
    try:
        op2 = mkpf().setup_optim_problem({'p': p2}, tg, fix_time_window={'I': I, 'x': np.asarray(res.x).copy()})
        res2 = op2.optimize()
    except Exception as ex:
        out.append(fail('C15.plant.no_raise', 'portfolio:Portfolio.setup_optim_problem', case, params, f'{type(ex).__name__}: {str(ex)[:150]}'))
        return out
    if isinstance(res2, str):
        out.append(fail('C15.plant.fixed_problem_is_solvable', 'portfolio:Portfolio.setup_optim_problem', case, params, f'{res2} (the previous solution is feasible for it)'))
        return out
    # closed form
    val = 0.
    prev_on = 0
    for t in range(W + 1):
        val += (p2[t] - e) * x_prev[t]
        if on_prev[t] and not prev_on:
            val -= cs
        prev_on = on_prev[t]
    best = {prev_on: 0.}
    for t in range(W + 1, T):
        gain = max((p2[t] - e) * mn, (p2[t] - e) * mx) if t >= s0 else None
        nxt = {}
        for st_, v in best.items():
            nxt[0] = max(nxt.get(0, -1e18), v)
            if gain is not None:
                nxt[1] = max(nxt.get(1, -1e18), v + gain - (0. if st_ == 1 else cs))
        best = nxt
    want = val + max(best.values())
    if abs(res2.value - want) > 1e-4 * max(1., abs(want)):
        out.append(fail('C15.plant.steps_after_the_window_remain_free', 'portfolio:Portfolio.setup_optim_problem', case, params,
                        f'value with the first {W + 1} steps fixed: {res2.value}; fixed part at the new prices + best plan of the remaining steps: {want} (old prices {p1.tolist()}, new prices {p2.tolist()}, previous output {x_prev.round(4).tolist()})'))
    return out


def check_window_zones(case):
    """C08: an asset is dispatched exactly in the grid steps of [start, end) -- start / end are instants: given naive they are read in the
    grid's zone, given zone-aware (in the grid's zone or any other) they denote that instant."""
    eao = eao_mod()
    out = []
    tz = case['tz']
    tg = eao.assets.Timegrid(pd.Timestamp(case['start']), pd.Timestamp(case['start']) + pd.Timedelta(case['hours'], 'h'), freq='h', timezone=tz)
    pts = list(tg.timepoints) + [tg.end]
    a, b = case['window']
    s_inst, e_inst = pts[a], pts[b]                      # instants (aware, grid zone)
    if case.get('offgrid'):
        # window edges strictly between two grid points: the steps of [start, end) are those whose POINT lies in it
        half = (pts[1] - pts[0]) / 2
        s_inst, e_inst = pts[a] + half, pts[b] - half
    how = case['given']
    if how == 'naive':
        s_arg, e_arg = s_inst.tz_localize(None), e_inst.tz_localize(None)
    elif how == 'same':
        s_arg, e_arg = s_inst, e_inst
    else:
        s_arg, e_arg = s_inst.tz_convert(how), e_inst.tz_convert(how)
    node = eao.assets.Node('n')
    asset = eao.assets.SimpleContract(name='c', nodes=node, price='p', min_cap=-1., max_cap=1., start=s_arg.to_pydatetime() if case.get('py') else s_arg,
                                      end=e_arg.to_pydatetime() if case.get('py') else e_arg)
    try:
        op = asset.setup_optim_problem({'p': np.ones(tg.T)}, tg)
    except Exception as ex:
        out.append(fail('C08.window.zone_aware_dates_denote_instants', 'basic_classes:Timegrid.__init__', case, dict(case), f'{type(ex).__name__}: {str(ex)[:150]}'))
        return out
    got = sorted(set(int(t) for t in op.mapping['time_step']))
    want = list(range(a + 1, b)) if case.get('offgrid') else list(range(a, b))
    if got != want:
        for nm in ('C08.window.zone_aware_dates_denote_instants', 'C19.restrict.subset_of_the_points_in_start_end'):
            out.append(fail(nm, 'basic_classes:Timegrid.__init__', case, dict(case),
                            f'window [{s_arg}, {e_arg}) given as {how}: dispatched in steps {got[:3]}..{got[-3:] if got else []} ({len(got)}), the window covers steps {want[:1]}..{want[-1:]}'))
    return out


def check_order_zones(case):
    """C20: "delivered over the order's window" -- the window of an order is a pair of instants: given naive it is read in the grid's zone,
    given zone-aware (in the grid's zone or another) it denotes that instant, whether the orders come as a dictionary or as a DataFrame."""
    eao = eao_mod()
    out = []
    tz = case['tz']
    tg = eao.assets.Timegrid(pd.Timestamp(case['start']), pd.Timestamp(case['start']) + pd.Timedelta(case['hours'], 'h'), freq='h', timezone=tz)
    pts = list(tg.timepoints) + [tg.end]
    wins = [(min(a, tg.T - 1), min(b, tg.T)) for a, b in case['windows']]
    conv = {'naive': lambda t: t.tz_localize(None), 'same': lambda t: t}.get(case['given'], lambda t: t.tz_convert(case['given']))
    starts, ends = [conv(pts[a]) for a, _ in wins], [conv(pts[b]) for _, b in wins]
    orders = {'start': starts, 'end': ends, 'capa': [1. + k for k in range(len(wins))], 'price': [2.] * len(wins)}
    if case['form'] == 'frame':
        orders = pd.DataFrame(orders)
    elif case['form'] == 'arrays':
        orders = {k: np.asarray(v, dtype=object if k in ('start', 'end') else float) for k, v in orders.items()}
    try:
        book = eao.assets.OrderBook(name='book', nodes=eao.assets.Node('n'), orders=orders)
        op = book.setup_optim_problem({}, tg)
    except Exception as ex:
        out.append(fail('C20.orderbook.window_dates_denote_instants', 'assets:OrderBook.setup_optim_problem', case, dict(case), f'{type(ex).__name__}: {str(ex)[:150]}'))
        return out
    for k, (a, b) in enumerate(wins):
        got = sorted(int(t) for t in op.mapping['time_step'][op.mapping.index == k])
        if got != list(range(a, b)):
            out.append(fail('C20.orderbook.window_dates_denote_instants', 'assets:OrderBook.setup_optim_problem', case, dict(case),
                            f'order {k} with window [{starts[k]}, {ends[k]}) given as {case["given"]} ({case["form"]}): delivered in steps {got}, the window covers steps {list(range(a, b))}'))
            break
    return out


def check_unit_linked(case):
    """C12 for durations that are not rates: a LinkedAsset (a main unit may only run while an auxiliary unit is on, looking time_back /
    time_forward main time units around each step) on an hourly grid, set up in two main time units with durations and rates re-expressed:
    same optimal value and volumes."""
    eao = eao_mod()
    out = []
    rng = random.Random(case['seed'])
    T = case['T']
    # the auxiliary unit is worth running in one or two blocks of the horizon (so looking back / forward matters at the block edges)
    n_on = rng.randint(2, T - 2)
    p_aux = np.asarray([50. if t < n_on else -200. for t in range(T)])
    if rng.random() < .4:
        p_aux[rng.randrange(T)] *= -1
    p_main = np.asarray([float(rng.choice([1, 2, 3])) for _ in range(T)])

    def solve(unit, k):
        start = pd.Timestamp('2021-01-01')
        tg = eao.assets.Timegrid(start, start + pd.Timedelta(T, 'h'), freq='h', main_time_unit=unit)
        P, H = eao.assets.Node('power'), eao.assets.Node('heat')
        prices = {'aux': -p_aux, 'main': -p_main, 'zero': np.zeros(T)}
        aux = eao.assets.CHPAsset(name='AUX', nodes=(P, H), price='aux', min_cap=1. / k, max_cap=1. / k)
        main = eao.assets.CHPAsset(name='MAIN', nodes=(P, H), price='main', min_cap=0., max_cap=10. / k)
        linked = eao.portfolio.LinkedAsset(eao.portfolio.Portfolio([aux, main]), nodes=[P, H], asset1_variable=[main, 'disp', P], asset2_variable=[aux, 'bool_on', None],
                                           time_back=case['back'] * k, time_forward=case['forward'] * k, name='linked')
        market = eao.assets.SimpleContract(name='market', nodes=P, price='zero', min_cap=-100. / k, max_cap=0.)
        pf = eao.portfolio.Portfolio([linked, market])
        op = pf.setup_optim_problem(prices, tg)
        res = op.optimize()
        if isinstance(res, str):
            return None, None
        o = eao.io.extract_output(pf, op, res, prices)
        d = o['dispatch']
        return res.value, -d[[c for c in d.columns if c.startswith('market')][0]].values.astype(float)
    try:
        v1, s1 = solve('h', 1.)
        v2, s2 = solve(case['unit'], {'min': 60., 'd': 1. / 24.}[case['unit']])
    except Exception as ex:
        out.append(fail('C12.unit.linked_asset_durations', 'portfolio:LinkedAsset.setup_optim_problem', case, dict(case), f'{type(ex).__name__}: {str(ex)[:150]}'))
        return out
    if v1 is None or v2 is None:
        return out
    if abs(v1 - v2) > 1e-4 * max(1., abs(v1)) or np.abs(s1 - s2).max() > 1e-4:
        out.append(fail('C12.unit.linked_asset_durations', 'portfolio:LinkedAsset.setup_optim_problem', case, dict(case),
                        f'main time unit h: value {v1}, volumes {np.round(s1, 3).tolist()}; unit {case["unit"]}: value {v2}, volumes {np.round(s2, 3).tolist()}'))
    return out


def check_unit_portfolio(case):
    """C12, first sentence: the same physical portfolio described in two main time units -- rates (capacities, inflow, holding cost, ramp)
    multiplied by the hours per unit, durations (minimum runtime / downtime, time already running, maximum holding time) divided by it --
    has the same optimal value and the same dispatched volumes.  Hourly grid; units h vs min / d; discounting on."""
    eao = eao_mod()
    out = []
    rng = random.Random(case['seed'])
    T = case['T']
    price = np.asarray([float(rng.choice([-2, 1, 3, 6, 9, 14])) for _ in range(T)])
    gasp = np.asarray([float(rng.choice([1, 2, 3])) for _ in range(T)])
    kinds = case['kinds']
    w = case.get('wacc', 0.)
    dur = case.get('dur', 2)            # hours

    def solve(unit):
        k = {'h': 1., 'min': 1. / 60., 'd': 24.}[unit]
        start = pd.Timestamp('2021-01-01')
        tg = eao.assets.Timegrid(start, start + pd.Timedelta(T, 'h'), freq='h', main_time_unit=unit)
        pts = list(tg.timepoints) + [tg.end]
        A, G = eao.assets.Node('A'), eao.assets.Node('G')
        assets = [eao.assets.SimpleContract(name='market', nodes=A, price='p', min_cap=-6. * k, max_cap=6. * k, wacc=w)]
        if 'storage' in kinds:
            assets.append(eao.assets.Storage(name='sto', nodes=A, size=5., cap_in=2. * k, cap_out=1.5 * k, eff_in=.9, inflow=.25 * k, cost_store=.05 * k, cost_in=.1,
                                             start_level=1., end_level=1., wacc=w))
        if 'take' in kinds:
            take = {'start': [pts[1]], 'end': [pts[T - 1]], 'values': [6.]}
            assets.append(eao.assets.Contract(name='con', nodes=A, price='p', extra_costs=.4, min_cap=0., max_cap=2. * k, max_take=take, wacc=w))
        if 'plant' in kinds:
            assets.append(eao.assets.Plant(name='plant', nodes=[A, G], min_cap=1. * k, max_cap=4. * k, extra_costs=.3, ramp=case.get('ramp', 2.) * k, start_costs=2., running_costs=.2 * k,
                                           min_runtime=dur / k, min_downtime=dur / k, time_already_running=0, time_already_off=dur / k, fuel_efficiency=.5,
                                           consumption_if_on=.3 * k, start_fuel=.4, wacc=w))
            assets.append(eao.assets.SimpleContract(name='gas', nodes=G, price='g', min_cap=0., max_cap=50. * k, wacc=w))
        if 'duration' in kinds:
            assets.append(eao.assets.Storage(name='buffer', nodes=A, size=3., cap_in=1. * k, cap_out=1. * k, max_store_duration=dur / k, start_level=0., end_level=0., wacc=w))
        pf = eao.portfolio.Portfolio(assets)
        prices = {'p': price, 'g': gasp}
        op = pf.setup_optim_problem(prices, tg)
        res = op.optimize()
        if isinstance(res, str):
            return None, None
        o = eao.io.extract_output(pf, op, res, prices)
        return res.value, o['dispatch']
    try:
        v1, d1 = solve('h')
        v2, d2 = solve(case['unit'])
    except Exception as ex:
        out.append(fail('C12.unit.same_value_and_volumes_in_another_main_time_unit', 'portfolio:Portfolio.setup_optim_problem', case, dict(case), f'{type(ex).__name__}: {str(ex)[:160]}'))
        return out
    if v1 is None or v2 is None:
        if (v1 is None) != (v2 is None):
            out.append(fail('C12.unit.same_value_and_volumes_in_another_main_time_unit', 'portfolio:Portfolio.setup_optim_problem', case, dict(case),
                            f'solvable in one unit only: h -> {v1}, {case["unit"]} -> {v2}'))
        return out
    if abs(v1 - v2) > 2e-4 * max(1., abs(v1)):
        out.append(fail('C12.unit.same_value_and_volumes_in_another_main_time_unit', 'portfolio:Portfolio.setup_optim_problem', case, dict(case),
                        f'optimal value in unit h: {v1}; in unit {case["unit"]}: {v2} (prices {price.tolist()})'))
    return out


# ------------------------------------------------------------------------------------------------ C18 nodal prices
def check_nodal_price(case):
    eao = eao_mod()
    out = []
    start = pd.Timestamp('2021-01-01')
    T = case['T']
    # step length / discounting: 4 h steps without discounting, or daily steps with a (large) wacc on every asset -- the value is a sum of
    # DISCOUNTED cash flows, so the marginal value of an injection is the discounted price
    hours = case.get('step_hours', 4)
    w = case.get('wacc', 0.)
    rs = 4. / hours                   # rates such that the volumes per step are those of the 4 h case
    tg = eao.assets.Timegrid(start, start + pd.Timedelta(hours * T, 'h'), freq=f'{hours}h')
    pts = list(tg.timepoints) + [tg.end]
    rng = np.random.RandomState(case['pseed'])
    price = rng.uniform(5, 30, T).round(1)
    market, site = eao.assets.Node('market'), eao.assets.Node('site')
    assets = [eao.assets.SimpleContract(name='m', nodes=market, price='p', min_cap=-10. * rs, max_cap=10. * rs, wacc=w)]
    for k, (a, b) in enumerate(case['windows']):
        assets.append(eao.assets.Transport(name=f't{k}', nodes=[market, site], min_cap=0., max_cap=5. * rs, efficiency=0.9, start=pts[a], end=pts[b], wacc=w))
        assets.append(eao.assets.SimpleContract(name=f'l{k}', nodes=site, min_cap=(-1. - k) * rs, max_cap=(-1. - k) * rs, start=pts[a], end=pts[b], wacc=w))
    pf = eao.portfolio.Portfolio(assets)
    prices = {'p': price}
    op, res = optimize(pf, prices, tg)
    o = eao.io.extract_output(pf, op, res)
    np_table = o['prices']
    active = [t for (a, b) in case['windows'] for t in range(a, b)]
    # probe the first active step and the last ones (after any gap in the node's activity)
    probes = sorted(set(active[:1] + active[-(case.get('probe', 3) - 1):]))
    for t in probes:
        col = 'nodal price: site'
        pr = np_table[col].iloc[t] if col in np_table else float('nan')
        if not np.isfinite(pr):
            out.append(fail('C18.place.price_reported_for_active_step', 'io:extract_output', case, dict(case, step=t), f'no nodal price for site at active step {t}'))
            continue
        for d in (0.5, -0.5):
            inj = eao.assets.SimpleContract(name='inj', nodes=site, min_cap=d / hours, max_cap=d / hours, start=pts[t], end=pts[t + 1], wacc=w)
            pf2 = eao.portfolio.Portfolio(assets + [inj])
            op2, res2 = optimize(pf2, prices, tg)
            if isinstance(res2, str):
                continue
            if res2.value > res.value + pr * d + 1e-4 * max(1, abs(res.value)):
                out.append(fail('C18.supergradient', 'io:extract_output', case, dict(case, step=t, d=d),
                                f'V(d)={res2.value} > V+price*d={res.value + pr * d} (price {pr})'))
    return out


# ------------------------------------------------------------------------------------------------ C01 nodal balance of the output
def check_balance(case):
    eao = eao_mod()
    out = []
    start = pd.Timestamp('2021-01-01')
    T = case['T']
    tg = eao.assets.Timegrid(start, start + pd.Timedelta(T, 'h'), freq='h')
    pts = list(tg.timepoints) + [tg.end]
    rng = np.random.RandomState(case['pseed'])
    price = rng.uniform(5, 30, T).round(1)
    A, B = eao.assets.Node('A'), eao.assets.Node('B')
    assets = [eao.assets.SimpleContract(name='m', nodes=A, price='p', min_cap=-10., max_cap=10.)]
    for k, (a, b) in enumerate(case['windows']):
        assets.append(eao.assets.Transport(name=f't{k}', nodes=[A, B], min_cap=0., max_cap=5., efficiency=0.8, start=pts[a], end=pts[b]))
        assets.append(eao.assets.SimpleContract(name=f'l{k}', nodes=B, min_cap=-1., max_cap=-1., start=pts[a], end=pts[b]))
    if case.get('storage'):
        assets.append(eao.assets.Storage(name='s', nodes=A, size=2., cap_in=1., cap_out=1., eff_in=0.9))
    pf = eao.portfolio.Portfolio(assets)
    op, res = optimize(pf, {'p': price}, tg)
    if isinstance(res, str):
        return out
    o = eao.io.extract_output(pf, op, res)
    d = o['dispatch']
    for node in ('A', 'B'):
        cols = [c for c in d.columns if c.endswith('(' + node + ')')]
        s = d[cols].sum(axis=1).values
        if np.abs(s).max() > 1e-5:
            out.append(fail('C01.balance.reported_dispatch_nets_to_zero', 'io:extract_output', case, dict(case),
                            f'node {node}: max imbalance {np.abs(s).max()} at step {int(np.abs(s).argmax())}'))
    return out


# ------------------------------------------------------------------------------------------------ C06 unit commitment patterns
def uc_reference(pattern, T, mr, md, tar, tao):
    """is the on/off pattern admissible for min runtime / downtime / initial state? (written from the statement)"""
    # extend with the declared history: running for tar steps / off for tao steps before the horizon
    for s in range(T):
        prev = (pattern[s - 1] if s > 0 else (1 if tar > 0 else 0))
        if pattern[s] == 1 and prev == 0:
            # run starting at s must last mr steps (as far as the horizon reaches)
            for k in range(mr):
                if s + k < T and pattern[s + k] == 0:
                    return False
        if pattern[s] == 0 and prev == 1:
            for k in range(md):
                if s + k < T and pattern[s + k] == 1:
                    return False
    if tar > 0:
        for k in range(max(0, mr - tar)):
            if k < T and pattern[k] == 0:
                return False
    if tao > 0:
        for k in range(max(0, md - tao)):
            if k < T and pattern[k] == 1:
                return False
    return True


def check_uc(case):
    eao = eao_mod()
    out = []
    T = case['T']
    start = pd.Timestamp('2021-01-01')
    tg = eao.assets.Timegrid(start, start + pd.Timedelta(T, 'h'), freq='h')
    node = eao.assets.Node('n')
    kw = dict(min_runtime=case['mr'], min_downtime=case['md'], time_already_running=case['tar'], time_already_off=case['tao'])
    plant = eao.assets.Plant(name='pp', nodes=node, min_cap=1., max_cap=4., price='p', start_costs=1., **kw)
    op = plant.setup_optim_problem({'p': np.ones(T)}, tg)
    m = op.mapping
    on_rows = m[m['var_name'] == 'bool_on']
    on_idx = [int(i) for i in on_rows.index]
    if len(on_idx) != T:
        return out
    import cvxpy as cp
    for pattern in itertools.product((0, 1), repeat=T):
        l, u = op.l.copy(), op.u.copy()
        if any(pattern[t] < l[on_idx[t]] - 1e-9 or pattern[t] > u[on_idx[t]] + 1e-9 for t in range(T)):
            feasible = False
        else:
            for t in range(T):
                l[on_idx[t]] = u[on_idx[t]] = pattern[t]
            bools = [int(i) for i in m.index[m['bool'] == True].unique()] if 'bool' in m else []
            x = cp.Variable(len(op.c), boolean=(bools,) if bools else False)
            A = op.A.tocsr()
            ct = np.array(list(op.cType))
            cons = [x <= u, x >= l]
            for letter, rel in (('U', '<='), ('L', '>='), ('S', '=='), ('N', '==')):
                rows = ct == letter
                if rows.any():
                    lhs = A[rows, :] @ x
                    cons.append(lhs <= op.b[rows] if rel == '<=' else (lhs >= op.b[rows] if rel == '>=' else lhs == op.b[rows]))
            # fewest start flags the formulation admits with this pattern: must be the number of off-to-on transitions
            st_idx = [int(i) for i in m[m['var_name'] == 'bool_start'].index]
            prob = cp.Problem(cp.Minimize(sum(x[j] for j in st_idx) if st_idx else 0), cons)
            try:
                prob.solve(solver='SCIP')
            except Exception:
                prob.solve()
            feasible = prob.status in ('optimal', 'optimal_inaccurate')
            if feasible and st_idx:
                prev = [1 if case['tar'] > 0 else 0] + list(pattern[:-1])
                trans = sum(1 for t in range(T) if pattern[t] == 1 and prev[t] == 0)
                if abs(float(prob.value) - trans) > 1e-6:
                    out.append(fail('C06.start.flagged_exactly_at_off_to_on_transitions', 'assets:CHPAsset.setup_optim_problem', case,
                                    dict(case, pattern=list(pattern)), f'pattern {pattern}: at least {prob.value} start flags are forced, the pattern has {trans} off-to-on transitions'))
        want = uc_reference(pattern, T, case['mr'], case['md'], case['tar'], case['tao'])
        if feasible != want:
            out.append(fail('C06.patterns.admissible_iff_runtime_downtime_initial_state', 'assets:CHPAsset.setup_optim_problem', case,
                            dict(case, pattern=list(pattern)), f'pattern {pattern}: formulation feasible={feasible}, reference admissible={want}'))
            if len(out) >= 3:
                break
    return out


# ------------------------------------------------------------------------------------------------ C16 scaled asset
def check_scaled(case):
    eao = eao_mod()
    out = []
    start = pd.Timestamp('2021-01-01')
    T = case['T']
    tg = eao.assets.Timegrid(start, start + pd.Timedelta(T, 'h'), freq='h')
    pts = list(tg.timepoints) + [tg.end]
    rng = np.random.RandomState(case['pseed'])
    price = rng.uniform(5, 30, T).round(1)
    node = eao.assets.Node('n')
    a, b = case['window']
    # the base asset's own window (inside the scaled asset's): the fix costs count for the SCALED asset's active duration
    ba, bb = case.get('base_window', case['window'])
    S, s = case['norm'], case['scale']

    def base(f):
        if case.get('base') == 'must_take':
            # a base asset whose dispatch is forced away from zero (delivery obligation), unfavourable at some prices
            return eao.assets.SimpleContract(name='bat', nodes=node, price='fix', min_cap=1.5 * f, max_cap=2. * f, start=pts[ba], end=pts[bb])
        if case.get('base') == 'load':
            return eao.assets.SimpleContract(name='bat', nodes=node, min_cap=-2. * f, max_cap=-1. * f, extra_costs=.5, start=pts[ba], end=pts[bb])
        if case.get('base') == 'structured':
            # a sub-portfolio with an internal node: cheap source behind a lossy pipe of limited capacity (internal variables, all continuous)
            inner_node = eao.assets.Node('inner')
            inner = eao.portfolio.Portfolio([eao.assets.SimpleContract(name='src', nodes=inner_node, price='fix', min_cap=0., max_cap=3. * f),
                                             eao.assets.Transport(name='pipe', nodes=[inner_node, node], min_cap=0., max_cap=1.5 * f, efficiency=.9)])
            return eao.portfolio.StructuredAsset(name='bat', nodes=node, portfolio=inner, start=pts[ba], end=pts[bb])
        if case.get('base') == 'orderbook':
            # an order book whose LAST order lies entirely after the horizon: its variable has no mapping row (C08: inert)
            late = pts[T] + pd.Timedelta(3, 'h')
            ob = pd.DataFrame({'start': [pts[0], pts[min(2, T - 1)], late], 'end': [pts[min(3, T)], pts[T], late + pd.Timedelta(2, 'h')],
                               'capa': [1. * f, -2. * f, 1.5 * f], 'price': [3., 28., 1.]})
            return eao.assets.OrderBook(name='bat', nodes=node, orders=ob)
        return eao.assets.Storage(name='bat', nodes=node, size=4. * f, cap_in=1. * f, cap_out=1. * f, start=pts[ba], end=pts[bb])
    sc = eao.assets.ScaledAsset(name='sc', base_asset=base(1.), start=pts[a], end=pts[b], min_scale=s, max_scale=s, norm_scale=S, fix_costs=case['rate'])
    mk = eao.assets.SimpleContract(name='m', nodes=node, price='p', min_cap=-10., max_cap=10.)
    prices_ = {'p': price, 'fix': np.full(T, 17.)}
    try:
        pf_sc = eao.portfolio.Portfolio([sc, mk])
        op, res = optimize(pf_sc, prices_, tg)
    except Exception as e:
        out.append(fail('C16.scaled.fixed_scale_equals_scaled_base_less_fix_costs', 'assets:ScaledAsset.setup_optim_problem', case, dict(case),
                        f'setting up the scaled asset raises {type(e).__name__}: {str(e)[:140]}'))
        return out
    op2, res2 = optimize(eao.portfolio.Portfolio([base(s / S), mk]), prices_, tg)
    if isinstance(res, str) or isinstance(res2, str):
        return out
    dur = float(np.sum(tg.dt[a:b]))
    want = res2.value - s * case['rate'] * dur
    # C07 / C04: the mapping row of the scale names the variable that carries the fix costs; value = sum of the DCF table
    mp = op.mapping
    size_rows = mp[(mp['asset'] == 'sc') & (mp['type'] == 'size')]
    n_sc = len(sc.setup_optim_problem(prices_, tg).c)
    off = 0 if pf_sc.assets[0].name == 'sc' else None
    if len(size_rows) != 1 or (off is not None and int(size_rows.index[0]) != off + n_sc - 1) or \
            abs(float(op.c[int(size_rows.index[0])]) - case['rate'] * dur) > 1e-9:
        out.append(fail('C07.scaled.scale_row_names_the_scale_variable', 'assets:ScaledAsset.setup_optim_problem', case, dict(case),
                        f'mapping row of the scale points to variable {list(size_rows.index)}, the scale is variable {n_sc - 1} (cost {case["rate"] * dur})'))
    try:
        o = eao.io.extract_output(pf_sc, op, res, prices_)
        tot = float(o['DCF'].sum().sum())
        if abs(tot - res.value) > 1e-6 * max(1., abs(res.value)):
            out.append(fail('C04.scaled.value_equals_sum_of_dcf', 'assets:ScaledAsset.setup_optim_problem', case, dict(case), f'value {res.value} vs DCF total {tot}'))
    except Exception as e:
        out.append(fail('C04.scaled.value_equals_sum_of_dcf', 'assets:ScaledAsset.setup_optim_problem', case, dict(case), f'output raises {type(e).__name__}: {str(e)[:120]}'))
    if abs(res.value - want) > 1e-4 * max(1, abs(want)):
        out.append(fail('C16.scaled.fixed_scale_equals_scaled_base_less_fix_costs', 'assets:ScaledAsset.setup_optim_problem', case, dict(case),
                        f'scaled {res.value} != base with capacities x s/S {res2.value} - s*rate*duration {s * case["rate"] * dur} = {want}'))
    return out


# ------------------------------------------------------------------------------------------------ C10 / C04 / C03 histories
def _hist_assets(eao, rng):
    A, B = eao.assets.Node('A'), eao.assets.Node('B')
    t0 = pd.Timestamp('2021-01-01')
    caps = {'start': [t0, t0 + pd.Timedelta(10, 'h')], 'end': [t0 + pd.Timedelta(10, 'h'), t0 + pd.Timedelta(200, 'h')], 'values': [1., 2.]}
    return [eao.assets.SimpleContract(name='buy', nodes=A, price='p', min_cap=-3., max_cap=3., wacc=rng.choice([0., 0.1])),
            eao.assets.SimpleContract(name='sell', nodes=A, price='q', min_cap=-1., max_cap=caps, wacc=rng.choice([0., 0.3])),
            eao.assets.Storage(name='sto', nodes=A, size=3., cap_in=1., cap_out=1., eff_in=0.9, wacc=rng.choice([0., 0.05]), no_simult_in_out=rng.random() < 0.3),
            eao.assets.Transport(name='tr', nodes=[A, B], min_cap=0., max_cap=2., efficiency=0.9, wacc=rng.choice([0., 0.2])),
            eao.assets.SimpleContract(name='load', nodes=B, min_cap=-1., max_cap=-1., start=t0 + pd.Timedelta(rng.choice([0, 5]), 'h')),
            # take limits over periods given as naive dates in lists (read anew in the zone of every grid)
            eao.assets.Contract(name='take', nodes=A, price='q', min_cap=0., max_cap=2., extra_costs=.05,
                                max_take={'start': [t0 + pd.Timedelta(2, 'h'), t0 + pd.Timedelta(20, 'h')], 'end': [t0 + pd.Timedelta(20, 'h'), t0 + pd.Timedelta(50, 'h')], 'values': [15., 12.]},
                                min_take={'start': t0 + pd.Timedelta(4, 'h'), 'end': t0 + pd.Timedelta(28, 'h'), 'values': 3.}),
            # two assets with their own coarser frequency, the same window and different waccs; an order book (reads the shared grid's restricted part)
            eao.assets.SimpleContract(name='own1', nodes=A, price='q', min_cap=0., max_cap=1., freq='4h', wacc=.4),
            eao.assets.SimpleContract(name='own2', nodes=A, price='q', min_cap=-1., max_cap=0., extra_costs=.1, freq='4h', wacc=0.),
            # a plant whose start ramp profile is given in the grid's main time unit (converted anew for every grid)
            eao.assets.Plant(name='plant', nodes=A, price='q', min_cap=1., max_cap=3., start_costs=1., start_ramp_lower_bounds=[.5, 1.], start_ramp_upper_bounds=[.5, 1.],
                             ramp_freq=rng.choice([None, None, 'h'])),
            eao.assets.OrderBook(name='book', nodes=A, wacc=rng.choice([0., .25]), orders=pd.DataFrame(
                {'start': [t0 + pd.Timedelta(2, 'h'), t0 + pd.Timedelta(8, 'h')], 'end': [t0 + pd.Timedelta(12, 'h'), t0 + pd.Timedelta(60, 'h')],
                 'capa': [1., -2.], 'price': [3., 8.]}))]


def _grids(eao):
    t0 = pd.Timestamp('2021-01-01')
    return {'G1': lambda: eao.assets.Timegrid(t0, t0 + pd.Timedelta(24, 'h'), freq='h'),
            'G2': lambda: eao.assets.Timegrid(t0, t0 + pd.Timedelta(36, 'h'), freq='h', timezone='CET'),
            'G3': lambda: eao.assets.Timegrid(t0 + pd.Timedelta(6, 'h'), t0 + pd.Timedelta(30, 'h'), freq='2h', main_time_unit='d')}


def _prices(tg, k):
    return {'p': (np.arange(tg.T) * (k + 1)) % 7 + 1., 'q': 9. - (np.arange(tg.T) * (k + 2)) % 5}


def check_history(case):
    """C10: after any history of set-up / optimise / serialise calls the problem built for (grid, prices) equals the
    problem fresh objects build; user dictionaries still work"""
    import copy
    from .serial import problem_signature
    eao = eao_mod()
    out = []
    rng = random.Random(case['hseed'])
    grids = _grids(eao)
    assets = _hist_assets(eao, rng)
    pf = eao.portfolio.Portfolio(assets)
    shared = {k: g() for k, g in grids.items()} if case['share_grid_objects'] else None
    try:
        for step, (gname, action) in enumerate(case['history']):
            tg = shared[gname] if shared else grids[gname]()
            pr = _prices(tg, step)
            if action == 'portfolio':
                op = pf.setup_optim_problem(pr, tg)
            elif action == 'single':
                op = assets[step % len(assets)].setup_optim_problem(pr, tg)
            elif action == 'optimize':
                op = pf.setup_optim_problem(pr, tg)
                res = op.optimize()
                if not isinstance(res, str):
                    eao.io.extract_output(pf, op, res, pr)
            elif action == 'json':
                eao.serialization.to_json(pf)
        gname = case['final']
        tg = shared[gname] if shared else grids[gname]()
        pr = _prices(tg, 7)
        got = problem_signature(pf.setup_optim_problem(pr, tg))
        rng2 = random.Random(case['hseed'])
        fresh = eao.portfolio.Portfolio(_hist_assets(eao, rng2))
        tgf = grids[gname]()
        want = problem_signature(fresh.setup_optim_problem(_prices(tgf, 7), tgf))
        if got != want:
            out.append(fail('C10.history.same_problem_as_fresh_objects', 'portfolio:Portfolio.setup_optim_problem', case, dict(case), 'problem after the history differs from the problem of fresh objects'))
        # an asset that holds the grid (set before) set up WITHOUT passing the grid again: the same problem as a fresh asset on that grid,
        # whatever the other assets sharing the grid object did in between
        for a_used, a_new in zip(assets, fresh.assets):
            tgn = grids[gname]()
            g1 = problem_signature(a_used.setup_optim_problem(pr))
            g2 = problem_signature(a_new.setup_optim_problem(_prices(tgn, 7), tgn))
            if g1 != g2:
                out.append(fail('C10.history.asset_set_up_on_the_grid_it_holds_equals_fresh', 'assets:Asset.setup_optim_problem', case, dict(case),
                                f'asset {a_used.name} ({type(a_used).__name__}) set up without passing the grid again differs from a fresh asset on the same grid'))
                break
        # the objects' own parameters are what they were: the saved form of every asset equals that of a fresh one
        for a_used, a_new in zip(assets, fresh.assets):
            j1, j2 = eao.serialization.to_json(a_used), eao.serialization.to_json(a_new)
            if j1 != j2:
                d1, d2 = json.loads(j1), json.loads(j2)
                diff = sorted(k for k in set(d1) | set(d2) if d1.get(k) != d2.get(k))
                out.append(fail('C10.history.parameters_of_the_assets_unchanged', 'portfolio:Portfolio.setup_optim_problem', case, dict(case),
                                f'asset {a_used.name}: saved form after the history differs from a fresh object in {diff[:6]}'))
                break
    except Exception as e:
        out.append(fail('C10.history.no_breakage', 'portfolio:Portfolio.setup_optim_problem', case, dict(case), f'{type(e).__name__}: {str(e)[:200]}'))
    return out


def check_output_history(case):
    """C04 / C10: output extraction does not depend on which other problems were set up / extracted with the same asset
    objects in between"""
    eao = eao_mod()
    out = []
    rng = random.Random(case['hseed'])
    assets = _hist_assets(eao, rng)
    tg = _grids(eao)['G1']()
    pr = _prices(tg, 1)
    extra = eao.assets.SimpleContract(name='extra', nodes=assets[0].nodes[0], price='q', min_cap=-1., max_cap=1., extra_costs=0.2)
    pf1 = eao.portfolio.Portfolio(assets)
    pf2 = eao.portfolio.Portfolio([extra] + assets)
    op1 = pf1.setup_optim_problem(pr, tg)
    op2 = pf2.setup_optim_problem(pr, tg)
    r1, r2 = op1.optimize(), op2.optimize()
    if isinstance(r1, str) or isinstance(r2, str):
        return out
    o1 = eao.io.extract_output(pf1, op1, r1, pr)
    o2 = eao.io.extract_output(pf2, op2, r2, pr)
    for name, (o, op, r) in (('first', (o1, op1, r1)), ('second', (o2, op2, r2))):
        tot = float(o['DCF'].sum().sum())
        if abs(tot - r.value) > 1e-5 * max(1, abs(r.value)):
            out.append(fail('C04.total.value_equals_sum_of_dcf', 'io:extract_output', case, dict(case), f'{name} problem: value {r.value} != DCF total {tot}'))
        m = op.mapping
        for a in o['DCF'].columns:
            idx = sorted(set(int(i) for i in m.index[m['asset'] == a]))
            own = -float(np.sum(op.c[idx] * r.x[idx]))
            if abs(float(o['DCF'][a].sum()) - own) > 1e-5 * max(1, abs(own)):
                out.append(fail('C04.perasset.dcf_equals_cost_of_own_variables', 'io:extract_output', case, dict(case), f'{name} problem, asset {a}: DCF {o["DCF"][a].sum()} != -c.x of own variables {own}'))
                break
    return out


def check_optimize_history(case):
    """C03 / C10: optimising twice (e.g. a relaxed run first) does not change what the second run solves"""
    eao = eao_mod()
    out = []
    rng = random.Random(case['hseed'])
    A = eao.assets.Node('A')
    T = 6
    tg = eao.assets.Timegrid(pd.Timestamp('2021-01-01'), pd.Timestamp('2021-01-01') + pd.Timedelta(T, 'h'), freq='h')
    price = np.array([rng.choice([-4., -1., 2., 5., 8.]) for _ in range(T)])
    assets = [eao.assets.Storage(name='s', nodes=A, size=3., cap_in=1., cap_out=1., eff_in=0.8, no_simult_in_out=True),
              eao.assets.SimpleContract(name='m', nodes=A, price='p', min_cap=-5., max_cap=5.)]
    pf = eao.portfolio.Portfolio(assets)
    op = pf.setup_optim_problem({'p': price}, tg)
    before = op.mapping.copy()
    first = op.optimize(make_soft_problem=case['soft_first'])
    second = op.optimize()
    fresh = eao.portfolio.Portfolio(assets).setup_optim_problem({'p': price}, tg).optimize()
    if not before.equals(op.mapping):
        out.append(fail('C03.frame.mapping_not_modified_by_optimize', 'optimization:OptimProblem.optimize', case, dict(case), 'optimize changed the mapping of the problem'))
    if isinstance(second, str) != isinstance(fresh, str) or (not isinstance(second, str) and abs(second.value - fresh.value) > 1e-5 * max(1, abs(fresh.value))):
        out.append(fail('C03.history.second_run_equals_fresh_run', 'optimization:OptimProblem.optimize', case, dict(case), f'second run {getattr(second, "value", second)} vs fresh {getattr(fresh, "value", fresh)}'))
    if not isinstance(second, str):
        m = op.mapping
        bools = sorted(set(int(i) for i in m.index[m['bool'] == True])) if 'bool' in m else []
        frac = [j for j in bools if min(abs(second.x[j]), abs(second.x[j] - 1)) > 1e-6]
        if frac:
            out.append(fail('C03.bools.flagged_variables_integral', 'optimization:OptimProblem.optimize', case, dict(case), f'boolean variables fractional in the solution: {frac[:5]}'))
    return out


# ------------------------------------------------------------------------------------------------ C02 / C08 take periods
def check_take(case):
    """C02.take / C08: for each take period with covered steps K (inside horizon and asset window): no row if K is empty,
    else one row  sum_{k in K} x_k  <=|>=  v * (sum_{k in K} dt_k) / (period length)  -- prorated by the covered duration"""
    from pyvc import native as N
    eao = eao_mod()
    out = []
    rng = random.Random(case['seed'])
    T = case['T']
    dt = [rng.choice(N.POS) for _ in range(T)] if case['nonuniform'] else None
    tg, _ = N.synthetic_grid(T, dt)
    pts = list(tg.timepoints) + [tg.end]
    a0 = case['asset_start']
    node = eao.assets.Node('n')
    periods = []
    for _ in range(case['n_periods']):
        s_i = rng.randint(-2, T)
        e_i = rng.randint(max(s_i + 1, 0), T + 2)
        one = pd.Timedelta(1, 'h')
        s_t = pts[max(s_i, 0)] + (s_i * one if s_i < 0 else 0 * one)
        e_t = pts[min(e_i, T)] + ((e_i - T) * one if e_i > T else 0 * one)
        periods.append((s_t, e_t, rng.choice([-6., -2., 3.])))
    take = {'start': [p[0] for p in periods], 'end': [p[1] for p in periods], 'values': [p[2] for p in periods]}
    kind = case['kind']
    kw = dict(min_take=take) if kind == 'min' else dict(max_take=take)
    # the asset's own window: starts at step a0, or (explicitly) before the horizon; ends with the horizon, or explicitly after it / inside it
    a_start = pts[a0] if case.get('asset_start_before', 0) == 0 else pts[0] - pd.Timedelta(case['asset_start_before'], 'h')
    if case.get('asset_start_before', 0):
        a0 = 0
    a_end = None if not case.get('asset_end_after') else pts[T] + pd.Timedelta(case['asset_end_after'], 'h')
    c = eao.assets.Contract(name='c', nodes=node, price='p', min_cap=-5., max_cap=5., extra_costs=case['ec'], start=a_start, end=a_end, **kw)
    op = c.setup_optim_problem({'p': np.ones(T)}, tg)
    n = T - a0
    nv = len(op.c)
    rows = op.A.toarray() if op.A is not None else np.zeros((0, nv))
    want_rows, want_b = [], []
    for (s_t, e_t, v) in periods:
        K = [k for k in range(a0, T) if s_t <= pts[k] < e_t]
        if not K:
            continue
        r = np.zeros(nv)
        for k in K:
            r[k - a0] += 1.
            if nv == 2 * n:
                r[n + k - a0] += 1.
        covered = float(sum(tg.dt[k] for k in K))
        length = (e_t - s_t) / pd.Timedelta(1, 'h')
        want_rows.append(r)
        want_b.append(v * covered / length)
    params = dict(case)
    if rows.shape[0] != len(want_rows):
        out.append(fail('C08.take.omit_iff_no_covered_step', 'assets:define_restr', case, params, f'{rows.shape[0]} rows, expected {len(want_rows)}'))
        return out
    if len(want_rows) and not np.allclose(rows, np.array(want_rows)):
        out.append(fail('C02.take.row_sums_dispatch_of_covered_steps', 'assets:define_restr', case, params, 'row coefficients differ'))
    if len(want_b) and not np.allclose(op.b, want_b, rtol=1e-9):
        out.append(fail('C08.take.prorated_by_covered_duration', 'assets:define_restr', case, params, f'rhs {np.round(op.b, 6).tolist()} expected {np.round(want_b, 6).tolist()}'))
        # the same clause is part of C02 ("take volumes prorated to the part of the period inside the horizon")
        out.append(fail('C02.take.volume_prorated_to_the_part_inside_the_horizon', 'assets:define_restr', case, params, f'rhs {np.round(op.b, 6).tolist()} expected {np.round(want_b, 6).tolist()}'))
    if (op.cType or '') != ('L' if kind == 'min' else 'U') * len(want_rows):
        out.append(fail('C02.take.row_type', 'assets:define_restr', case, params, op.cType))
    return out


def check_coarse_beyond_horizon(case):
    """C08: an asset with a coarser frequency whose window reaches beyond the horizon is clipped to the horizon"""
    eao = eao_mod()
    out = []
    tg = eao.assets.Timegrid(pd.Timestamp(2021, 1, 1), pd.Timestamp(2021, 1, 3), freq='h')
    a = eao.assets.SimpleContract(name='a', nodes=eao.assets.Node('n'), price='p', min_cap=-1, max_cap=1, freq=case['freq'],
                                  end=pd.Timestamp(2021, 1, 3) + pd.Timedelta(case['days_beyond'], 'd'))
    try:
        a.setup_optim_problem({'p': np.ones(tg.T)}, tg)
    except Exception as e:
        out.append(fail('C08.coarse.window_beyond_horizon_is_clipped', 'basic_classes:Timegrid.__init__', case, dict(case), f'{type(e).__name__}: {str(e)[:120]}'))
    return out


# ------------------------------------------------------------------------------------------------ io.extract_output (C01, C04, C05, C18, C20)
def _output_pool(eao, rng, T, pts):
    """a random small portfolio drawn from a pool of asset kinds (one / two nodes, one / several rows per variable,
    internal variables, order book, scale variable) in random order"""
    A, B, C = eao.assets.Node('A'), eao.assets.Node('B'), eao.assets.Node('C')
    # windows: whole horizon, late start, early end, and exactly half / a third of the steps (so that the number of mapping rows of an asset
    # with several rows per step coincides with the number of grid steps)
    w = lambda: rng.choice([(0, T), (0, T), (1, T), (0, max(1, T - 2)), (2, T), (0, max(1, T // 2)), (T - max(1, T // 2), T), (0, max(1, T // 3))])
    pool = []

    def add(kind):
        a, b = w()
        if kind == 'contract':
            pool.append(eao.assets.SimpleContract(name='c%d' % len(pool), nodes=rng.choice([A, B]), price='p', min_cap=-2., max_cap=3., start=pts[a], end=pts[b]))
        elif kind == 'spread':
            pool.append(eao.assets.Contract(name='k%d' % len(pool), nodes=rng.choice([A, B]), price='p', min_cap=-2., max_cap=3., extra_costs=.5, start=pts[a], end=pts[b]))
        elif kind == 'transport':
            pool.append(eao.assets.Transport(name='t%d' % len(pool), nodes=[A, B], min_cap=0., max_cap=2., efficiency=.8, costs_const=.1, start=pts[a], end=pts[b]))
        elif kind == 'storage':
            pool.append(eao.assets.Storage(name='s%d' % len(pool), nodes=rng.choice([A, B]), size=3., cap_in=1., cap_out=1.5, eff_in=.9, inflow=rng.choice([0., .2]),
                                           start=pts[a], end=pts[b]))
        elif kind == 'storage2':
            pool.append(eao.assets.Storage(name='z%d' % len(pool), nodes=[A, C], size=3., cap_in=1., cap_out=1.5, eff_in=.9, start=pts[a], end=pts[b]))
        elif kind == 'storage_mip':
            pool.append(eao.assets.Storage(name='m%d' % len(pool), nodes=A, size=3., cap_in=1., cap_out=1.5, eff_in=.9, no_simult_in_out=True, start=pts[a], end=pts[b]))
        elif kind == 'orderbook':
            ob = pd.DataFrame({'start': [pts[0], pts[min(1, T - 1)]], 'end': [pts[min(2, T)], pts[T]], 'capa': [1., -2.], 'price': [3., 8.]})
            pool.append(eao.assets.OrderBook(name='o%d' % len(pool), nodes=rng.choice([A, B]), orders=ob))
        elif kind == 'scaled':
            base = eao.assets.SimpleContract(name='b%d' % len(pool), nodes=A, price='p', min_cap=-1., max_cap=1.)
            pool.append(eao.assets.ScaledAsset(name='x%d' % len(pool), base_asset=base, max_scale=4., norm_scale=2., fix_costs=.3, start=pts[a], end=pts[b]))
        elif kind == 'plant':
            pool.append(eao.assets.Plant(name='g%d' % len(pool), nodes=B, min_cap=1., max_cap=3., extra_costs=4., start_costs=1., min_runtime=2, start=pts[a], end=pts[b]))
        elif kind == 'coarse':
            # an asset on a coarser frequency than the portfolio (one variable, one mapping row per fine step)
            # (window aligned with the coarse steps: unaligned edges are the known findings D25 / D25b)
            a2, b2 = a - a % 2, b - b % 2
            if b2 <= a2:
                b2 = a2 + 2
            if b2 <= T:
                pool.append(eao.assets.SimpleContract(name='f%d' % len(pool), nodes=rng.choice([A, B]), price='p', min_cap=-1., max_cap=2., freq='2h', start=pts[a2], end=pts[b2]))
        elif kind == 'multi':
            pool.append(eao.assets.MultiCommodityContract(name='u%d' % len(pool), nodes=[A, B], factors_commodities=[1., -.5], min_cap=0., max_cap=2.,
                                                          extra_costs=.2, start=pts[a], end=pts[b]))
    kinds = ['contract', 'spread', 'transport', 'storage', 'storage2', 'storage_mip', 'orderbook', 'scaled', 'plant', 'multi', 'coarse', 'coarse']
    for kind in rng.sample(kinds, rng.randint(2, 5)):
        add(kind)
    rng.shuffle(pool)
    return pool


def check_extract_output(case):
    """run-time contract of io.extract_output(portf, op, res, prices) on ARBITRARY result vectors (not only optimiser
    output): every table is the stated function of (mapping, x, duals) --
      dispatch[t, asset(node)]  = sum over the asset's dispatch rows at that node and step of x[var] * disp_factor    (C01)
      DCF[t, asset]             = the asset's own dcf(); summary value = res.value                                   (C04)
      internal variable columns = x of the internal variable at its step; storage charge / discharge / fill level     (C05)
      prices[t, node]           = - dual of the nodal row recorded for (t, node), nothing elsewhere                   (C18)
      special                   = one line per non-dispatch, non-internal mapping row (+ order book lines)            (C20, C16)"""
    eao = eao_mod()
    out = []
    rng = random.Random(case['seed'])
    T = case['T']
    start = pd.Timestamp('2021-01-01')
    tg = eao.assets.Timegrid(start, start + pd.Timedelta(T, 'h'), freq='h')
    pts = list(tg.timepoints) + [tg.end]
    assets = _output_pool(eao, rng, T, pts)
    pf = eao.portfolio.Portfolio(assets)
    prices = {'p': np.asarray([float(rng.randint(1, 9)) for _ in range(T)])}
    op = pf.setup_optim_problem(prices, tg)
    n = len(op.c)
    x = np.asarray([round(rng.uniform(-3, 3), 2) for _ in range(n)])
    nN = len(op.map_nodal_restr) if op.map_nodal_restr is not None else 0
    duals = {'N': np.asarray([round(rng.uniform(-5, 5), 2) for _ in range(nN)]), 'bound_u': None, 'bound_l': None} if case.get('duals', True) else None
    res = eao.optimization.Results(value=float(-np.dot(op.c, x)), x=x, duals=duals)
    desc = dict(case, assets=[type(a).__name__ + ':' + a.name for a in assets])
    o = eao.io.extract_output(pf, op, res, prices)
    m = op.mapping
    times = list(tg.timepoints)
    single_node = len(pf.nodes) == 1

    def F(name, detail):
        out.append(fail(name, 'io:extract_output', case, dict(case), f'{detail} | portfolio {desc["assets"]}'))
    # ---- dispatch
    d = o['dispatch']
    exp_cols = []
    for a in assets:
        for nd in a.nodes:
            col = a.name if single_node else f'{a.name} ({nd.name})'
            exp_cols.append(col)
            exp = np.zeros(T)
            rows = m[(m['asset'] == a.name) & (m['type'] == 'd') & (m['node'] == nd.name)]
            for i, r in rows.iterrows():
                exp[int(r['time_step'])] += x[i] * r['disp_factor']
            if col not in d.columns:
                F('C01.output.dispatch_column_per_asset_and_node', f'missing column {col}')
            elif not np.allclose(d[col].values.astype(float), exp, atol=1e-9):
                F('C01.output.dispatch_is_sum_of_variable_times_factor', f'column {col}: reported {d[col].values.tolist()} expected {exp.tolist()}')
    if sorted(set(d.columns)) != sorted(set(exp_cols)):
        F('C01.output.dispatch_column_per_asset_and_node', f'columns {list(d.columns)} expected {exp_cols}')
    # ---- DCF
    dcf = o['DCF']
    tot = 0.
    for a in assets:
        own = np.asarray(a.dcf(op, res), dtype=float)
        tot += own.sum()
        if a.name not in dcf.columns or not np.allclose(dcf[a.name].values.astype(float), own, atol=1e-9):
            F('C04.output.dcf_table_is_the_assets_dcf', f'asset {a.name}')
        # each asset's cash-flow total = minus the cost of its OWN variables times their values (every variable once)
        mine = sorted(set(int(i) for i in m.index[m['asset'] == a.name]))
        want_own = -float(sum(op.c[j] * x[j] for j in mine))
        if abs(float(own.sum()) - want_own) > 1e-6 * max(1., abs(want_own)):
            F('C04.perasset.dcf_equals_cost_of_own_variables', f'asset {a.name} ({type(a).__name__}): DCF total {own.sum()} vs -c.x of its own variables {want_own}')
    if abs(float(o['summary'].loc['value', 'Values']) - res.value) > 1e-9:
        F('C04.output.summary_value_is_result_value', f"summary {o['summary'].loc['value', 'Values']} result {res.value}")
    if abs(tot - res.value) > 1e-6 * max(1., abs(res.value)):
        F('C04.output.value_equals_sum_of_dcf', f'sum of DCF {tot} vs -c.x {res.value}')
    # ---- internal variables
    iv = o['internal_variables']
    for a in assets:
        rows = m[(m['asset'] == a.name) & (m['type'] == 'i')]
        for v in rows['var_name'].unique():
            col = f'{a.name} ({v})'
            sub = rows[rows['var_name'] == v]
            exp = {int(r['time_step']): x[i] for i, r in sub.iterrows()}
            got = iv[col] if col in iv.columns else None
            ok = got is not None and all((t in exp and abs(float(got.iloc[t]) - exp[t]) < 1e-9) or (t not in exp and (got.iloc[t] is None or pd.isnull(got.iloc[t])))
                                         for t in range(T))
            if not ok:
                F('C05.output.internal_variable_reported_at_its_step', f'column {col}')
        if isinstance(a, eao.assets.Storage):
            rows = m[(m['asset'] == a.name) & (m['type'] == 'd')]
            ch, dis = np.zeros(T), np.zeros(T)
            for i, r in rows.iterrows():
                ch[int(r['time_step'])] += max(0., -x[i]) * r['disp_factor']
                dis[int(r['time_step'])] += min(0., -x[i]) * r['disp_factor']
            for what, exp in (('charge', ch), ('discharge', dis)):
                col = f'{a.name}_{what}'
                if col not in iv.columns or not np.allclose(iv[col].values.astype(float), exp, atol=1e-9):
                    F(f'C05.output.storage_{what}_reported_truly', f'column {col}: reported {iv[col].values.tolist() if col in iv.columns else None} expected {exp.tolist()}')
            fl = np.asarray(a.fill_level(op, res), dtype=float)
            col = a.name + '_fill_level'
            if col not in iv.columns or not np.allclose(iv[col].values.astype(float), fl, atol=1e-9, equal_nan=True):
                F('C05.output.fill_level_reported_truly', f'column {col}')
    # ---- nodal prices
    pr = o['prices']
    if duals is not None:
        seen = set()
        for ii, (t, node) in enumerate(op.map_nodal_restr):
            col = 'nodal price: ' + node
            seen.add((int(t), col))
            if col not in pr.columns or abs(float(pr[col].iloc[int(t)]) - (-duals['N'][ii])) > 1e-9:
                F('C18.place.price_is_minus_dual_of_the_recorded_row', f'row {ii} (step {t}, node {node})')
                break
        for col in [c for c in pr.columns if c.startswith('nodal price: ')]:
            for t in range(T):
                if (t, col) not in seen and not pd.isnull(pr[col].iloc[t]):
                    F('C18.place.no_price_without_nodal_row', f'{col} step {t}')
                    break
    for k, v in prices.items():
        col = 'input data: ' + k
        if col not in pr.columns or not np.allclose(pr[col].values.astype(float), v):
            F('C18.output.given_prices_passed_through', col)
    # ---- special
    sp_ = o['special']
    exp_rows = []
    for a in assets:
        rows = m[(m['asset'] == a.name) & (~m['type'].isin(['d', 'i']))]
        for i, r in rows.iterrows():
            exp_rows.append((r['asset'], r['type'], r['var_name'], round(float(x[i]), 9), round(float(x[i] * op.c[i]), 9)))
        if isinstance(a, eao.assets.OrderBook):
            rows = m[m['asset'] == a.name]
            rows = rows[~rows.index.duplicated(keep='first')]
            for i, r in rows.iterrows():
                exp_rows.append((r['asset'], r['type'], r['var_name'], round(float(x[i]), 9), round(float(x[i] * op.c[i]), 9)))
    got_rows = [(r['asset'], r['variable'], r['name'], round(float(r['value']), 9), round(float(r['costs']), 9)) for _, r in sp_.iterrows()]
    key = lambda t: tuple(str(z) for z in t)
    if sorted(got_rows, key=key) != sorted(exp_rows, key=key):
        F('C20.output.special_lines_per_special_variable', f'got {got_rows[:4]}... expected {exp_rows[:4]}...')
    return out


# ------------------------------------------------------------------------------------------------ C17 stochastic / robust
def _stoch_setup(case):
    eao = eao_mod()
    rng = random.Random(case['seed'])
    T = case['T']
    k = case['k']                     # first future step
    start = pd.Timestamp('2021-01-01')
    tg = eao.assets.Timegrid(start, start + pd.Timedelta(T, 'h'), freq='h')
    pts = list(tg.timepoints) + [tg.end]
    A, B = eao.assets.Node('A'), eao.assets.Node('B')
    assets = [eao.assets.SimpleContract(name='m', nodes=A, price='p', min_cap=-2., max_cap=2.),
              eao.assets.Storage(name='s', nodes=A, size=3., cap_in=1., cap_out=1., eff_in=.9, start_level=1., end_level=0., no_simult_in_out=bool(case.get('nosimult')),
                                 max_store_duration=case.get('max_dur'))]
    if case.get('transport'):
        assets += [eao.assets.Transport(name='t', nodes=[A, B], min_cap=0., max_cap=1.5, efficiency=.9),
                   eao.assets.SimpleContract(name='mb', nodes=B, price='q', min_cap=-1., max_cap=0., extra_costs=.1)]
    if case.get('plant'):
        # a unit-commitment plant: boolean variables (on / start) next to variables with several mapping rows (the transport)
        assets.append(eao.assets.Plant(name='g', nodes=A, min_cap=1., max_cap=2., extra_costs=float(rng.randint(2, 6)), start_costs=float(rng.randint(1, 4)), min_runtime=2))
    if case.get('internal'):
        # future variables that are not of dispatch type: a structured asset with an internal node (type 'i' after wrapping)
        In = eao.assets.Node('inner')
        inner = eao.portfolio.Portfolio([eao.assets.SimpleContract(name='src', nodes=In, price='q', min_cap=0., max_cap=1.5),
                                         eao.assets.Transport(name='pipe', nodes=[In, A], min_cap=0., max_cap=1.5, efficiency=.95)])
        assets.append(eao.portfolio.StructuredAsset(name='wrapped', portfolio=inner, nodes=A))
    rng.shuffle(assets)
    pf = eao.portfolio.Portfolio(assets)
    base = {'p': np.asarray([float(rng.randint(1, 9)) for _ in range(T)]), 'q': np.asarray([float(rng.randint(1, 9)) for _ in range(T)])}
    samples = []
    for _ in range(case['S']):
        s = {}
        for key, v in base.items():
            w = v.copy()
            if not case.get('identical'):
                w[k:] = [float(rng.randint(1, 9)) for _ in range(T - k)]
            s[key] = w
        samples.append(s)
    return eao, tg, pts, pf, base, samples


def check_slp(case):
    """C17: two-stage stochastic problem built by make_slp for S sampled futures + the original one, all sharing the
    present prices:  EEV(s0) <= V_slp <= mean of the per-scenario optima;  equality with the deterministic optimum when
    all scenarios coincide;  one copy of the future variables per sample, present variables shared."""
    from copy import deepcopy
    eao, tg, pts, pf, base, samples = _stoch_setup(case)
    out = []
    k, T = case['k'], case['T']
    op = pf.setup_optim_problem(base, tg)
    res = op.optimize()
    if isinstance(res, str):
        return out
    n0 = len(op.c)
    m0 = op.mapping
    first = m0[~m0.index.duplicated(keep='first')]
    fut = first['time_step'].values >= k
    n_f = int(fut.sum())
    F = lambda name, detail: out.append(fail(name, 'stoch_lin_prog:make_slp', case, dict(case), detail))
    # cost vectors per price sample (costs_only) are the cost vectors of the full set-up, asset by asset
    for a in pf.assets:
        try:
            c_only = np.asarray(a.setup_optim_problem(samples[0], tg, costs_only=True), dtype=float)
            c_full = np.asarray(a.setup_optim_problem(samples[0], tg).c, dtype=float)
        except Exception as e:
            F('C17.costs_only.asset_cost_vector_equals_full_set_up', f'asset {a.name}: {type(e).__name__}: {str(e)[:120]}')
            return out
        if c_only.shape != c_full.shape or not np.allclose(c_only, c_full):
            F('C17.costs_only.asset_cost_vector_equals_full_set_up', f'asset {a.name} ({type(a).__name__}): costs_only gives {c_only.shape[0]} entries, the full set-up {c_full.shape[0]}'
              + ('' if c_only.shape != c_full.shape else ' with other values'))
            return out
    op_slp = eao.stoch_lin_prog.make_slp(deepcopy(op), pf, tg, pts[k], [dict(s) for s in samples])
    scen = [base] + samples
    S1 = len(scen)
    if len(op_slp.c) != n0 + case['S'] * n_f:
        F('C17.slp.present_shared_future_copied_per_sample', f'{len(op_slp.c)} variables, expected {n0} + {case["S"]} x {n_f}')
        return out
    # structure: block s of the rows couples the shared present variables with the s-th copy of the future ones
    A0 = op.A.toarray() if hasattr(op.A, 'toarray') else np.asarray(op.A)
    A1 = op_slp.A.toarray()
    nr = A0.shape[0]
    cs = [pf.setup_optim_problem(s, tg, costs_only=True) for s in samples]
    exp_c = np.concatenate([np.where(fut, op.c / S1, op.c)] + [c[fut] / S1 for c in cs])
    if not np.allclose(op_slp.c, exp_c):
        F('C17.slp.costs_present_once_future_mean_over_scenarios', 'cost vector differs from [c_present, c_future/(S+1), c_s[future]/(S+1) ...]')
    ok = A1.shape == (nr * S1, n0 + case['S'] * n_f)
    if ok:
        for s in range(S1):
            blk = A1[s * nr:(s + 1) * nr, :]
            exp = np.zeros_like(blk)
            exp[:, :n0][:, ~fut] = A0[:, ~fut]
            if s == 0:
                exp[:, :n0][:, fut] = A0[:, fut]
            else:
                exp[:, n0 + (s - 1) * n_f:n0 + s * n_f] = A0[:, fut]
            ok = ok and np.allclose(blk, exp)
    if not ok:
        F('C17.slp.rows_repeated_per_scenario_on_its_own_future_copy', 'matrix is not [A | 0 ; Ap 0 Af 0 ; ...]')
    if not (np.allclose(op_slp.b, np.tile(op.b, S1)) and op_slp.cType == op.cType * S1):
        F('C17.slp.rows_repeated_per_scenario_on_its_own_future_copy', 'b / cType not repeated per scenario')
    exp_l = np.concatenate([op.l] + [op.l[fut]] * case['S'])
    exp_u = np.concatenate([op.u] + [op.u[fut]] * case['S'])
    if not (np.allclose(op_slp.l, exp_l) and np.allclose(op_slp.u, exp_u)):
        F('C17.slp.bounds_copied_per_sample', 'bounds')
    try:
        res_slp = op_slp.optimize()
    except Exception as e:        # noqa: the extended problem cannot even be handed to the solver
        F('C17.slp.solvable_when_scenarios_are', f'optimising the SLP raised {type(e).__name__}: {e}')
        return out
    if isinstance(res_slp, str):
        F('C17.slp.solvable_when_scenarios_are', f'SLP {res_slp}')
        return out
    # the boolean flags of the extended problem sit on copies of boolean variables only (and on every copy)
    mm = op_slp.mapping
    if 'bool' in mm.columns:
        flagged = sorted(set(int(i) for i in mm.index[mm['bool'] == True]))           # noqa: E712
        b0 = sorted(set(int(i) for i in m0.index[m0['bool'] == True])) if 'bool' in m0.columns else []   # noqa: E712
        futv = [int(i) for i in first.index[fut]]
        exp_flag = sorted(set(b0) | {n0 + s * n_f + futv.index(j) for s in range(case['S']) for j in b0 if j in futv})
        if flagged != exp_flag:
            F('C17.slp.boolean_flags_on_the_copies_of_boolean_variables', f'flagged variables {flagged}, expected {exp_flag}')
    V = []
    xs = []
    for s in scen:
        r = pf.setup_optim_problem(s, tg).optimize()
        V.append(r.value)
        xs.append(r.x)
    ws = float(np.mean(V))
    tol = 1e-5 * max(1., abs(ws))
    if res_slp.value > ws + tol:
        F('C17.slp.at_most_mean_of_scenario_optima', f'V_slp {res_slp.value} > mean of optima {ws}')
    if case.get('identical') and abs(res_slp.value - res.value) > tol:
        F('C17.slp.equals_deterministic_when_scenarios_coincide', f'V_slp {res_slp.value} vs deterministic {res.value}')
    present = np.arange(T) < k
    for s0 in range(min(S1, 2)):
        vals = []
        for s in scen:
            r = pf.setup_optim_problem(s, tg, fix_time_window={'I': present, 'x': xs[s0]}).optimize()
            if isinstance(r, str):
                vals = None
                break
            vals.append(r.value)
        if vals is not None and float(np.mean(vals)) > res_slp.value + tol:
            F('C17.slp.at_least_expected_value_of_a_single_scenario_present', f'fixing the present of scenario {s0}: {np.mean(vals)} > V_slp {res_slp.value}')
    # the reported value is the objective of the extended problem
    if abs(res_slp.value - float(-np.dot(op_slp.c, res_slp.x))) > tol:
        F('C17.slp.value_is_objective', 'value != -c.x')
    return out


def check_robust(case):
    """C17: robust optimisation over cost samples: the worst-case value of the robust solution is at least that of every
    single-scenario solution and at most the smallest per-scenario optimum."""
    eao, tg, pts, pf, base, samples = _stoch_setup(case)
    out = []
    scen = [base] + samples
    ops = [pf.setup_optim_problem(s, tg) for s in scen]
    cs = [o.c.copy() for o in ops]
    rs = [o.optimize() for o in ops]
    if any(isinstance(r, str) for r in rs):
        return out
    op = ops[0]
    rr = op.optimize(target='robust', samples=[c.copy() for c in cs])
    F = lambda name, detail: out.append(fail(name, 'optimization:OptimProblem.optimize', case, dict(case), detail))
    if isinstance(rr, str):
        F('C17.robust.solvable', rr)
        return out
    worst = lambda x: min(float(-np.dot(c, x)) for c in cs)
    wr = worst(rr.x)
    tol = 1e-5 * max(1., abs(wr))
    x = rr.x
    if np.any(x < op.l - 1e-6) or np.any(x > op.u + 1e-6):
        F('C17.robust.solution_feasible', 'bounds violated')
    for s0, r in enumerate(rs):
        if worst(r.x) > wr + tol:
            F('C17.robust.worst_case_at_least_that_of_single_scenario_solutions', f'scenario {s0} solution has worst case {worst(r.x)} > robust {wr}')
            break
    if wr > min(r.value for r in rs) + tol:
        F('C17.robust.worst_case_at_most_smallest_scenario_optimum', f'{wr} > {min(r.value for r in rs)}')
    if case.get('identical') and abs(wr - rs[0].value) > tol:
        F('C17.robust.equals_deterministic_when_scenarios_coincide', f'{wr} vs {rs[0].value}')
    return out


# ------------------------------------------------------------------------------------------------ C16 / C18 / C10 / C01 structured assets
def _structured_parts(eao, rng, T, pts, win=None):
    I, E, M = eao.assets.Node('inner'), eao.assets.Node('ext'), eao.assets.Node('mkt')
    inner = [eao.assets.SimpleContract(name='src', nodes=I, price='p', min_cap=0., max_cap=2., start=pts[0], end=pts[T]),
             eao.assets.Storage(name='sto', nodes=I, size=3., cap_in=1., cap_out=1.5, eff_in=.9),
             eao.assets.Transport(name='pipe', nodes=[I, E], min_cap=0., max_cap=2., efficiency=.95)]
    outer = [eao.assets.SimpleContract(name='sale', nodes=E, price='q', min_cap=-1.5, max_cap=0.),
             eao.assets.Transport(name='link', nodes=[E, M], min_cap=0., max_cap=1., efficiency=.9, costs_const=.1),
             eao.assets.SimpleContract(name='mk', nodes=M, price='r', min_cap=-1., max_cap=0.)]
    rng.shuffle(inner)
    return inner, outer, (I, E, M)


def check_structured(case):
    """C16: a structured asset wrapping a sub-portfolio gives the same optimal value and external dispatch as the flat
    portfolio of the same assets; C01: balance at its external node in the reported dispatch; C18: supergradient property
    of the nodal prices reported for a portfolio containing a structured asset; C10: wrapping does not change what the
    wrapped asset objects produce afterwards."""
    eao = eao_mod()
    out = []
    rng = random.Random(case['seed'])
    T = case['T']
    start = pd.Timestamp('2021-01-01')
    tg = eao.assets.Timegrid(start, start + pd.Timedelta(T, 'h'), freq='h')
    pts = list(tg.timepoints) + [tg.end]
    prices = {k: np.asarray([float(rng.randint(1, 9)) for _ in range(T)]) for k in ('p', 'q', 'r')}
    state = rng.getstate()
    inner, outer, (I, E, M) = _structured_parts(eao, rng, T, pts)
    F = lambda name, detail: out.append(fail(name, 'portfolio:StructuredAsset.setup_optim_problem', case, dict(case), detail))
    flat = eao.portfolio.Portfolio(inner + outer)
    opf, rf = optimize(flat, prices, tg)
    a, b = case.get('window', (None, None))
    sa = eao.portfolio.StructuredAsset(name='wrapped', portfolio=eao.portfolio.Portfolio(inner), nodes=E,
                                       start=None if a is None else pts[a], end=None if b is None else pts[b])
    order = [sa] + outer if case.get('struct_first', True) else outer + [sa]
    pfs = eao.portfolio.Portfolio(order)
    ops, rs = optimize(pfs, prices, tg)
    # C10: the wrapped objects afterwards, in a flat portfolio, give the problem fresh objects give
    rng.setstate(state)
    inner2, outer2, _ = _structured_parts(eao, rng, T, pts)
    op_a = eao.portfolio.Portfolio(inner + outer).setup_optim_problem(prices, tg)
    op_b = eao.portfolio.Portfolio(inner2 + outer2).setup_optim_problem(prices, tg)
    same = len(op_a.c) == len(op_b.c) and np.allclose(op_a.c, op_b.c) and np.allclose(op_a.l, op_b.l) and np.allclose(op_a.u, op_b.u) and \
        op_a.A.shape == op_b.A.shape and abs(op_a.A - op_b.A).max() < 1e-12
    if not same:
        F('C10.structured.wrapped_assets_unchanged_by_set_up', f'after wrapping with window {case.get("window")}: {len(op_a.c)} variables vs {len(op_b.c)} from fresh objects')
    if isinstance(rf, str) or isinstance(rs, str):
        return out
    o = eao.io.extract_output(pfs, ops, rs)
    if a is None and b is None:
        if abs(rf.value - rs.value) > 1e-5 * max(1., abs(rf.value)):
            F('C16.structured.same_value_as_flat_portfolio', f'flat {rf.value} structured {rs.value}')
        of = eao.io.extract_output(flat, opf, rf)
        # external dispatch: what the wrapped assets deliver at the external node
        ext_flat = of['dispatch'][[c for c in of['dispatch'].columns if c.endswith('(ext)') and c.split(' (')[0] in [x.name for x in inner]]].sum(axis=1).values
        ext_str = o['dispatch'][[c for c in o['dispatch'].columns if c.startswith('wrapped')]].sum(axis=1).values
        # (the optimum need not be unique; compare the external dispatch only through its value: re-check balance instead)
    d = o['dispatch']
    for node in ('ext', 'mkt'):
        cols = [c for c in d.columns if c.endswith('(' + node + ')')]
        s = d[cols].sum(axis=1).values
        if len(cols) and np.abs(s).max() > 1e-5:
            F('C01.structured.external_node_balance_in_reported_dispatch', f'node {node}: imbalance {np.abs(s).max()}')
    # C18 nodal prices with a structured asset in the portfolio
    pt = o['prices']
    for node in ('ext', 'mkt'):
        col = 'nodal price: ' + node
        for t in case.get('probe', [0, T - 1]):
            if col not in pt.columns or not np.isfinite(pt[col].iloc[t]):
                F('C18.place.price_reported_for_active_step', f'{col} step {t}: none reported')
                continue
            pr = float(pt[col].iloc[t])
            for dlt in (0.25, -0.25):
                inj = eao.assets.SimpleContract(name='inj', nodes=E if node == 'ext' else M, min_cap=dlt, max_cap=dlt, start=pts[t], end=pts[t + 1])
                r2 = optimize(eao.portfolio.Portfolio(order + [inj]), prices, tg)[1]
                if isinstance(r2, str):
                    continue
                if r2.value > rs.value + pr * dlt + 1e-4 * max(1., abs(rs.value)):
                    F('C18.supergradient', f'structured portfolio, {col} step {t} d={dlt}: V(d)={r2.value} > V+price*d={rs.value + pr * dlt}')
    return out


# ------------------------------------------------------------------------------------------------ C05 storage physics on optimised solutions
def check_storage_physics(case):
    """C05 on real optimised solutions: physical level (start + eff x charged - discharged + accumulated inflow) within
    [0, size] at every step of the storage's window and = end level at its last step (per block when blocks are used);
    per-step charge / discharge within rate x step length; reported fill level = physical level; no simultaneous in/out
    with that option; with max_store_duration the level is never non-zero for longer than that."""
    eao = eao_mod()
    out = []
    rng = random.Random(case['seed'])
    T = case['T']
    start = pd.Timestamp('2021-01-01')
    if case.get('grid') == 'MS':
        # calendar months in main time unit 'd': steps of 28 / 30 / 31 days (rates are per day)
        start = pd.Timestamp(case.get('grid_start', '2021-02-01'))
        tg = eao.assets.Timegrid(start, start + pd.DateOffset(months=T), freq='MS', main_time_unit='d')
    elif case.get('grid') == 'dst':
        # local days over the daylight-saving switch in main time unit 'h': steps of 24 / 23 (25) hours
        start = pd.Timestamp(case.get('grid_start', '2021-03-26'))
        tg = eao.assets.Timegrid(start, start + pd.Timedelta(T, 'd'), freq='d', main_time_unit='h', timezone='CET')
    else:
        tg = eao.assets.Timegrid(start, start + pd.Timedelta(T, 'h'), freq='h')
    pts = list(tg.timepoints) + [tg.end]
    A, B = eao.assets.Node('A'), eao.assets.Node('B')
    a, b = case.get('window', (0, T))
    kw = dict(size=case.get('size', 3.), cap_in=case.get('cap_in', 1.), cap_out=case.get('cap_out', 1.5), eff_in=case.get('eff', 1.),
              start_level=case.get('start_level', 0.), end_level=case.get('end_level', 0.), inflow=case.get('inflow', 0.),
              cost_in=case.get('cost_in', 0.), cost_out=0., no_simult_in_out=case.get('no_simult', False),
              max_store_duration=case.get('max_dur'), block_size=case.get('block'), start=pts[a], end=pts[b])
    two = case.get('two_nodes', False)
    sto = eao.assets.Storage(name='sto', nodes=[A, B] if two else A, **kw)
    assets = [sto, eao.assets.SimpleContract(name='m', nodes=A, price='p', min_cap=-5., max_cap=5.)]
    if two:
        assets.append(eao.assets.SimpleContract(name='mb', nodes=B, price='q', min_cap=-5., max_cap=5.))
    if case.get('order'):
        assets.reverse()
    prices = {'p': np.asarray([float(rng.randint(1, 9)) for _ in range(T)]), 'q': np.asarray([float(rng.randint(1, 9)) for _ in range(T)])}
    if case.get('hold_from') is not None:
        # boundary of the holding duration on steps of different length: with a maximum duration of md (a multiple of the length of
        # step i, not aligned with the later steps) exactly k steps from step i may be held (their total length <= md < that of k + 1);
        # one step more is tempting (cheapest at step i, price jump after step i + k) but not allowed
        i0_ = case['hold_from']
        md_ = float(np.floor(case['md_factor'] * tg.dt[i0_]))
        k_ = int(np.sum(np.cumsum(tg.dt[i0_:]) <= md_))
        kw['max_store_duration'] = md_
        case = dict(case, max_dur=md_)
        sto = eao.assets.Storage(name='sto', nodes=[A, B] if two else A, **kw)
        assets = [sto if x.name == 'sto' else x for x in assets]
        prices['p'] = np.asarray([5. if t < i0_ else (1. + .2 * (t - i0_) if t <= i0_ + k_ else 20. + .1 * t) for t in range(T)])
    if case.get('price_trend'):
        # slowly rising prices with one jump: holding from the first steps up to the jump pays -- as long as that is allowed
        j = case.get('jump', T // 2)
        prices['p'] = np.asarray([1. + t if t < j else 20. + .1 * t for t in range(T)])
    pf = eao.portfolio.Portfolio(assets)
    op = pf.setup_optim_problem(prices, tg)
    res = op.optimize()
    F = lambda name, detail: out.append(fail(name, 'assets:Storage.setup_optim_problem', case, dict(case), detail))
    n = b - a
    dt = np.asarray(tg.dt[a:b], dtype=float)
    infl = kw['inflow'] * dt
    # block structure by the statement: blocks of `block` hours counted from the window start
    if case.get('block'):
        L = int(pd.Timedelta(case['block']) / pd.Timedelta(1, 'h'))
        blocks = [(i, min(i + L, n)) for i in range(0, n, L)]
    else:
        blocks = [(0, n)]
    if isinstance(res, str):
        # a schedule that always exists when cap_out covers the inflow, start = end level and nothing else is required:
        # release the inflow at every step
        if kw['start_level'] == kw['end_level'] and kw['cap_out'] >= kw['inflow'] and kw['start_level'] <= kw['size'] and not case.get('max_dur'):
            F('C05.feasible_schedule_rejected', f'optimiser reports {res}; releasing the inflow at every step is a physical schedule')
        return out
    m = op.mapping
    rows = m[(m['asset'] == 'sto') & (m['type'] == 'd')]
    rows = rows[~rows.index.duplicated(keep='first')]
    ch, dis = np.zeros(T), np.zeros(T)
    for i, r in rows.iterrows():
        ch[int(r['time_step'])] += max(0., -res.x[i])
        dis[int(r['time_step'])] += max(0., res.x[i])
    tol = 1e-5
    if np.any(ch[a:b] > kw['cap_in'] * dt + tol) or np.any(dis[a:b] > kw['cap_out'] * dt + tol) or np.any(ch[:a] > tol) or np.any(ch[b:] > tol) \
            or np.any(dis[:a] > tol) or np.any(dis[b:] > tol):
        F('C05.rates.per_step_within_rate_times_step_length', f'charge {ch.tolist()} discharge {dis.tolist()}')
    level = np.zeros(n)
    for (i0, i1) in blocks:
        lv = kw['start_level']
        for t in range(i0, i1):
            lv += kw['eff_in'] * ch[a + t] - dis[a + t] + infl[t]
            level[t] = lv
        if abs(level[i1 - 1] - kw['end_level']) > 1e-4:
            F('C05.level.ends_at_end_level', f'block {i0}-{i1}: level {level[i1 - 1]} at its last step, end level {kw["end_level"]}')
    if np.any(level < -1e-4) or np.any(level > kw['size'] + 1e-4):
        F('C05.level.within_zero_and_size', f'physical level {level.round(4).tolist()} size {kw["size"]}')
    if not case.get('block'):
        rep = np.asarray(sto.fill_level(op, res), dtype=float)[a:b]
        if not np.allclose(rep, level, atol=1e-4):
            F('C05.fill_level.reported_equals_physical', f'reported {rep.round(4).tolist()} physical {level.round(4).tolist()}')
    if case.get('no_simult') and np.any((ch > 1e-5) & (dis > 1e-5)):
        F('C05.nosimult.never_both', f'charge {ch.tolist()} discharge {dis.tolist()}')
    if case.get('max_dur'):
        run = 0.
        for t in range(n):
            run = run + dt[t] if level[t] > 1e-4 else 0.
            if run > case['max_dur'] + 1e-9:
                F('C05.duration.level_not_nonzero_longer_than_max', f'level {level.round(4).tolist()} non-zero for {run} > {case["max_dur"]}')
                break
    return out


# ------------------------------------------------------------------------------------------------ C06 CHP physics on optimised solutions
def check_chp_physics(case):
    """C06 on real optimised MIP solutions of a CHP with power / heat / fuel nodes: off => no output; on => virtual output
    (power + factor x heat) within [min, max] capacity; ramp between consecutive steps and from the last dispatch; start
    flagged exactly at off->on transitions; heat within its share of power; fuel = output / efficiency + running + start
    consumption; the on/off pattern respects runtime / downtime / initial state."""
    eao = eao_mod()
    out = []
    rng = random.Random(case['seed'])
    T = case['T']
    start = pd.Timestamp('2021-01-01')
    tg = eao.assets.Timegrid(start, start + pd.Timedelta(T, 'h'), freq='h')
    P, Hn, G = eao.assets.Node('P'), eao.assets.Node('H'), eao.assets.Node('G')
    conv, share, eff, cons, sfuel = case.get('conv', .5), case.get('share', .5), case.get('eff', .8), case.get('cons', .2), case.get('start_fuel', .3)
    if case.get('conv_series'):
        # time-varying conversion factor (given as a series like a price): the virtual output of step t uses the factor of step t
        conv = np.asarray([rng.choice([1., .25]) for _ in range(T)])
    mn, mx, ramp = case.get('min_cap', 1.), case.get('max_cap', 4.), case.get('ramp')
    kw = dict(min_runtime=case.get('mr', 0), min_downtime=case.get('md', 0), time_already_running=case.get('tar', 0), time_already_off=case.get('tao', 0),
              last_dispatch=case.get('last', 0.))
    chp = eao.assets.CHPAsset(name='chp', nodes=[P, Hn, G], min_cap=mn, max_cap=mx, extra_costs=.2, conversion_factor_power_heat='conv' if case.get('conv_series') else conv, max_share_heat=share,
                              ramp=ramp, start_costs=0. if case.get('fuel_only') else .5, running_costs=.1, start_fuel=sfuel, fuel_efficiency=eff, consumption_if_on=cons, **kw)
    assets = [chp, eao.assets.SimpleContract(name='pm', nodes=P, price='p', min_cap=-10., max_cap=10.),
              eao.assets.SimpleContract(name='hd', nodes=Hn, min_cap=-case.get('heat', .5), max_cap=-case.get('heat', .5)),
              eao.assets.SimpleContract(name='boiler', nodes=Hn, price='hb', min_cap=0., max_cap=10.),
              eao.assets.SimpleContract(name='gm', nodes=G, price='g', min_cap=0., max_cap=50.)]
    if case.get('order'):
        assets.reverse()
    prices = {'p': np.asarray([float(rng.choice([-4, 1, 3, 6, 9, 12])) for _ in range(T)]), 'hb': np.full(T, 6.), 'g': np.full(T, float(rng.choice([1, 2, 4])))}
    if case.get('conv_series'):
        prices['conv'] = conv
        prices['hb'] = np.asarray([float(rng.choice([0.5, 6., 12.])) for _ in range(T)])      # heat worth more / less from step to step
    pf = eao.portfolio.Portfolio(assets)
    F = lambda name, detail: out.append(fail(name, 'assets:CHPAsset.setup_optim_problem', case, dict(case), f'{detail} | prices p={prices["p"].tolist()} g={prices["g"][0]}'))
    alone = chp.setup_optim_problem(prices, tg)
    if not (len(alone.c) == len(alone.l) == len(alone.u) == alone.A.shape[1]):
        F('C06.driver.a_cost_entry_for_every_variable', f'stand-alone problem: {len(alone.c)} costs, {len(alone.l)} / {len(alone.u)} bounds, {alone.A.shape[1]} columns')
        return out
    op = pf.setup_optim_problem(prices, tg)
    res = op.optimize()
    if isinstance(res, str):
        return out
    m = op.mapping
    mine = m[m['asset'] == 'chp']
    first = mine[~mine.index.duplicated(keep='first')]

    def series(var, node=None):
        r = first[(first['var_name'] == var) & ((first['node'] == node) if node else first['node'].isnull() | True)]
        v = np.zeros(T)
        for i, rr in r.iterrows():
            v[int(rr['time_step'])] = res.x[i]
        return v
    pw, ht = series('disp', 'P'), series('disp', 'H')
    on, st = np.round(series('bool_on')), np.round(series('bool_start'))
    virt = pw + conv * ht
    tol = 1e-5
    for t in range(T):
        if on[t] == 0 and (abs(pw[t]) > tol or abs(ht[t]) > tol):
            F('C06.off.no_output', f'step {t}: power {pw[t]} heat {ht[t]} while off')
            break
        if on[t] == 1 and not (mn - tol <= virt[t] <= mx + tol):
            # start / shutdown ramps are not used here, so the capacity band applies whenever on
            F('C06.on.virtual_output_within_capacity', f'step {t}: virtual output {virt[t]} not in [{mn}, {mx}]')
            break
    if ramp is not None:
        prev = kw['last_dispatch']
        for t in range(T):
            # a start from / shutdown to zero may jump to / from the minimum capacity (the band takes precedence over the ramp)
            starting = (on[t] == 1 and (on[t - 1] == 0 if t > 0 else kw['time_already_running'] == 0))
            stopping = (on[t] == 0 and (on[t - 1] == 1 if t > 0 else kw['time_already_running'] > 0))
            if not starting and not stopping and abs(virt[t] - prev) > ramp + tol:
                F('C06.ramp.change_within_ramp', f'step {t}: virtual output {prev} -> {virt[t]} exceeds ramp {ramp}')
                break
            prev = virt[t]
    for t in range(T):
        prev_on = on[t - 1] if t > 0 else (1 if kw['time_already_running'] > 0 else 0)
        want = 1 if (on[t] == 1 and prev_on == 0) else 0
        if st[t] != want:
            F('C06.start.flag_exactly_at_off_on_transitions', f'step {t}: start flag {st[t]}, on {on.tolist()} (running before: {kw["time_already_running"]})')
            break
    if np.any(ht > share * pw + tol):
        F('C06.heat.within_share_of_power', f'heat {ht.tolist()} power {pw.tolist()} share {share}')
    o = eao.io.extract_output(pf, op, res)
    fuel = -o['dispatch']['chp (G)'].values.astype(float)
    want = virt / eff + cons * on + sfuel * st
    if not np.allclose(fuel, want, atol=1e-5):
        F('C06.fuel.output_over_efficiency_plus_running_and_start', f'fuel drawn {fuel.round(4).tolist()} expected {want.round(4).tolist()}')
    if not uc_reference([int(v) for v in on], T, int(kw['min_runtime']), int(kw['min_downtime']), int(kw['time_already_running']), int(kw['time_already_off'])):
        F('C06.patterns.solution_respects_runtime_downtime_initial_state', f'on {on.tolist()} mr {kw["min_runtime"]} md {kw["min_downtime"]} tar {kw["time_already_running"]} tao {kw["time_already_off"]}')
    return out


def check_chp_ramp_profiles(case):
    """C06, clause "it changes by at most the ramp between consecutive steps including the first step relative to the last dispatch (start /
    shutdown ramp profiles taking precedence where given)": a Plant with a start ramp profile (and optionally a shutdown profile), an ordinary
    ramp, a declared initial state (off / inside the start profile / profile just completed / running longer) on optimised solutions:
    within the first len(profile) steps after a start the output follows the profile bounds; afterwards it lies in the capacity band and changes
    by at most the ramp -- also at step 0 relative to the last dispatch when the profile is already completed; off => no output."""
    eao = eao_mod()
    out = []
    rng = random.Random(case['seed'])
    T = case['T']
    start = pd.Timestamp('2021-01-01')
    tg = eao.assets.Timegrid(start, start + pd.Timedelta(T, 'h'), freq='h')
    node = eao.assets.Node('P')
    prof_lo = list(case['profile'])
    prof_up = [v + case.get('slack', 0.) for v in prof_lo]
    L = len(prof_lo)
    mn, mx, ramp = case['min_cap'], case['max_cap'], case['ramp']
    tar = case['tar']
    last = case['last']
    kw = dict(start_ramp_lower_bounds=prof_lo, start_ramp_upper_bounds=prof_up, time_already_running=tar, time_already_off=0 if tar else 1, last_dispatch=last if tar else 0.)
    sd = case.get('shutdown')
    if sd:
        kw.update(shutdown_ramp_lower_bounds=list(sd), shutdown_ramp_upper_bounds=list(sd))
    pl = eao.assets.Plant(name='pl', nodes=node, min_cap=mn, max_cap=mx, extra_costs=.1, ramp=ramp, start_costs=case.get('start_costs', .5), **kw)
    mk = eao.assets.SimpleContract(name='m', nodes=node, price='p', min_cap=-50., max_cap=50.)
    price = np.asarray([float(rng.choice(case.get('levels', [-3, 2, 8, 12]))) for _ in range(T)])
    if case.get('off_at') is not None:
        # attractive prices up to a step with a strongly negative price: the plant is switched off exactly there (also the last step)
        price = np.asarray([12. if t < case['off_at'] else -40. for t in range(T)])
    assets = [pl, mk] if not case.get('order') else [mk, pl]
    pf = eao.portfolio.Portfolio(assets)
    F = lambda name, detail: out.append(fail(name, 'assets:CHPAsset._add_constraints_for_ramp', case, dict(case), f'{detail} | prices {price.tolist()}'))
    try:
        op = pf.setup_optim_problem({'p': price}, tg)
        res = op.optimize()
    except Exception as e:
        F('C06.rampprofile.no_raise', f'{type(e).__name__}: {str(e)[:160]}')
        return out
    if isinstance(res, str):
        return out
    m = op.mapping
    mine = m[m['asset'] == 'pl']
    first = mine[~mine.index.duplicated(keep='first')]

    def series(var):
        v = np.zeros(T)
        for i, rr in first[first['var_name'] == var].iterrows():
            v[int(rr['time_step'])] = res.x[i]
        return v
    x, on = series('disp'), np.round(series('bool_on'))
    tol = 1e-5
    # running time at the start of step t (steps since the last start, counting the steps before the horizon)
    run = tar
    prev = last if tar else 0.
    Ls = len(sd) if sd else 0
    for t in range(T):
        if on[t] < .5:
            if abs(x[t]) > tol:
                F('C06.off.no_output', f'step {t}: output {x[t]} while off (on {on.tolist()})')
                break
            run, prev = 0, 0.
            continue
        # steps until the plant is switched off (for the shutdown profile): position counted from the end of the running block
        to_off = None
        for q in range(t, T):
            if on[q] < .5:
                to_off = q - t          # 1 = last running step ... the i-th element of the shutdown profile is i steps before turning off
                break
        in_shutdown = Ls and to_off is not None and to_off <= Ls
        if in_shutdown and run >= L:
            # "i-th element: i steps before turning off" -- the shutdown profile takes precedence over the capacity band, wherever in the
            # horizon the plant is switched off (also in the very last step)
            if not (sd[to_off - 1] - tol <= x[t] <= sd[to_off - 1] + tol):
                F('C06.rampprofile.shutdown_profile_followed', f'step {t} is {to_off - 1} steps before the last running step: output {x[t]} not at the profile value {sd[to_off - 1]} (x {x.round(4).tolist()}, on {on.tolist()})')
                break
        if run < L:
            if not in_shutdown and not (prof_lo[run] - tol <= x[t] <= prof_up[run] + tol):
                F('C06.rampprofile.start_profile_followed', f'step {t} is step {run} after the start: output {x[t]} not in [{prof_lo[run]}, {prof_up[run]}] (x {x.round(4).tolist()}, on {on.tolist()}, running before: {tar})')
                break
        elif not in_shutdown:
            if not (mn - tol <= x[t] <= mx + tol):
                F('C06.on.virtual_output_within_capacity', f'step {t}: output {x[t]} not in [{mn}, {mx}] (x {x.round(4).tolist()})')
                break
            if abs(x[t] - prev) > ramp + tol:
                F('C06.ramp.change_within_ramp', f'step {t}' + (' (first step, relative to the last dispatch)' if t == 0 else '') +
                  f': output {prev} -> {x[t]} exceeds ramp {ramp}; the start profile of {L} steps is completed (running for {run} steps) (x {x.round(4).tolist()})')
                break
        run, prev = run + 1, x[t]
    return out


# ------------------------------------------------------------------------------------------------ C02 independent textbook formulation
class _RefLP:
    """tiny LP builder for scipy.optimize.linprog (independent of EAO's matrices)"""

    def __init__(self):
        self.lb, self.ub, self.c = [], [], []
        self.eq, self.beq, self.ub_rows, self.bub = [], [], [], []

    def var(self, lo, hi, cost=0.):
        self.lb.append(lo)
        self.ub.append(hi)
        self.c.append(cost)
        return len(self.c) - 1

    def add_eq(self, coefs, rhs):
        self.eq.append(dict(coefs))
        self.beq.append(rhs)

    def add_le(self, coefs, rhs):
        self.ub_rows.append(dict(coefs))
        self.bub.append(rhs)

    def solve(self, fixed=None):
        from scipy.optimize import linprog
        n = len(self.c)

        def mat(rows):
            M = np.zeros((len(rows), n))
            for r, row in enumerate(rows):
                for j, v in row.items():
                    M[r, j] += v
            return M
        lb, ub = list(self.lb), list(self.ub)
        for j, v in (fixed or {}).items():
            lb[j] = v - 1e-7
            ub[j] = v + 1e-7
        r = linprog(self.c, A_ub=mat(self.ub_rows) if self.ub_rows else None, b_ub=self.bub if self.ub_rows else None,
                    A_eq=mat(self.eq) if self.eq else None, b_eq=self.beq if self.eq else None, bounds=list(zip(lb, ub)), method='highs')
        return r


def check_reference_lp(case):
    """C02: optimum of the assembled problem = optimum of an independently written textbook formulation (volume limit = rate
    x step length, discounting by (1+wacc)^(-elapsed years), storage level recursion, transport efficiency / per-flow costs,
    buy/sell spread, commodity factors); EAO's dispatch is feasible and optimal for the reference model."""
    eao = eao_mod()
    out = []
    rng = random.Random(case['seed'])
    if case.get('dst'):
        start = pd.Timestamp('2021-03-26')
        tg = eao.assets.Timegrid(start, start + pd.Timedelta(case['T'], 'd'), freq='d', timezone='CET')      # steps of 24 / 23 h
    else:
        start = pd.Timestamp('2021-01-01')
        tg = eao.assets.Timegrid(start, start + pd.Timedelta(case['T'] * 6, 'h'), freq='6h')
    T = tg.T
    pts = list(tg.timepoints) + [tg.end]
    dt = np.asarray(tg.dt, dtype=float)
    years = np.cumsum(dt) / (24. * 365.)
    A, B = eao.assets.Node('A'), eao.assets.Node('B')
    ref = _RefLP()
    bal = {('A', t): {} for t in range(T)}
    bal.update({('B', t): {} for t in range(T)})
    prices = {'p': np.asarray([float(rng.randint(1, 9)) for _ in range(T)]), 'q': np.asarray([float(rng.randint(1, 9)) for _ in range(T)])}
    assets = []
    flows = {}      # (asset, node) -> list over t of {var: coefficient}: dispatch of the asset at that node
    disc = lambda w: (1. + w) ** (-years)

    def win():
        a = rng.choice([0, 0, 1])
        b = rng.choice([T, T, T - 1])
        return a, b

    kinds = rng.sample(['market', 'spread', 'transport', 'storage', 'storage2', 'multi', 'load'], rng.randint(3, 6))
    if 'market' not in kinds:
        kinds.append('market')
    for kind in kinds:
        w = rng.choice([0., 0., .1, .5])
        d = disc(w)
        a, b = win() if kind != 'market' else (0, T)
        name = kind
        if kind == 'market':
            assets.append(eao.assets.SimpleContract(name=name, nodes=A, price='p', min_cap=-4., max_cap=4., wacc=w))
            fl = []
            for t in range(T):
                v = ref.var(-4. * dt[t], 4. * dt[t], d[t] * prices['p'][t])
                fl.append({v: 1.})
            flows[(name, 'A')] = (fl, 0, T)
        elif kind == 'load':
            assets.append(eao.assets.SimpleContract(name=name, nodes=B, min_cap=-.5, max_cap=-.5, start=pts[a], end=pts[b], wacc=w))
            flows[(name, 'B')] = ([{ref.var(-.5 * dt[t], -.5 * dt[t]): 1.} for t in range(a, b)], a, b)
        elif kind == 'spread':
            ec = rng.choice([.3, 1.])
            assets.append(eao.assets.Contract(name=name, nodes=B, price='q', extra_costs=ec, min_cap=-2., max_cap=3., start=pts[a], end=pts[b], wacc=w))
            fl = []
            for t in range(a, b):
                buy = ref.var(0., 3. * dt[t], d[t] * (prices['q'][t] + ec))
                sell = ref.var(0., 2. * dt[t], d[t] * (-prices['q'][t] + ec))
                fl.append({buy: 1., sell: -1.})
            flows[(name, 'B')] = (fl, a, b)
        elif kind == 'transport':
            eff, cc = rng.choice([1., .9, .8]), rng.choice([0., .2])
            assets.append(eao.assets.Transport(name=name, nodes=[A, B], min_cap=0., max_cap=2., efficiency=eff, costs_const=cc, start=pts[a], end=pts[b], wacc=w))
            fa, fb = [], []
            for t in range(a, b):
                f = ref.var(0., 2. * dt[t], d[t] * cc)
                fa.append({f: -1.})
                fb.append({f: eff})
            flows[(name, 'A')] = (fa, a, b)
            flows[(name, 'B')] = (fb, a, b)
        elif kind in ('storage', 'storage2'):
            eff, ci, co = rng.choice([1., .9]), rng.choice([0., .1]), rng.choice([0., .2])
            size, s0, e0, infl = 3. * 6, rng.choice([0., 2.]), rng.choice([0., 2.]), rng.choice([0., 0., .1])
            two = kind == 'storage2'
            assets.append(eao.assets.Storage(name=name, nodes=[A, B] if two else A, size=size, cap_in=1., cap_out=1.5, eff_in=eff, start_level=s0, end_level=e0,
                                             inflow=infl, cost_in=ci, cost_out=co, start=pts[a], end=pts[b], wacc=w))
            f_in, f_out, lvl = [], [], {}
            for t in range(a, b):
                c_ = ref.var(0., 1. * dt[t], d[t] * ci)
                q_ = ref.var(0., 1.5 * dt[t], d[t] * co)
                f_in.append({c_: -1.})
                f_out.append({q_: 1.})
                lvl = dict(lvl)
                lvl[c_] = eff
                lvl[q_] = -1.
                acc = s0 + infl * float(dt[a:t + 1].sum())
                if t < b - 1:
                    ref.add_le(lvl, size - acc)                       # level <= size
                    ref.add_le({k: -v for k, v in lvl.items()}, acc)  # level >= 0
                else:
                    ref.add_eq(lvl, e0 - acc)                         # level at the last active step = end level
            if two:
                flows[(name, 'A')] = (f_in, a, b)
                flows[(name, 'B')] = (f_out, a, b)
            else:
                flows[(name, 'A')] = ([dict(list(x.items()) + list(y.items())) for x, y in zip(f_in, f_out)], a, b)
        elif kind == 'multi':
            fac, ec = [1., -.5], .2
            assets.append(eao.assets.MultiCommodityContract(name=name, nodes=[A, B], factors_commodities=fac, min_cap=0., max_cap=2., extra_costs=ec,
                                                            start=pts[a], end=pts[b], wacc=w))
            fa, fb = [], []
            for t in range(a, b):
                v = ref.var(0., 2. * dt[t], d[t] * ec)
                fa.append({v: fac[0]})
                fb.append({v: fac[1]})
            flows[(name, 'A')] = (fa, a, b)
            flows[(name, 'B')] = (fb, a, b)
    for (name, node), (fl, a, b) in flows.items():
        for k, t in enumerate(range(a, b)):
            for v, cf in fl[k].items():
                bal[(node, t)][v] = bal[(node, t)].get(v, 0.) + cf
    for key, row in bal.items():
        if row:
            ref.add_eq(row, 0.)
    rng.shuffle(assets)
    pf = eao.portfolio.Portfolio(assets)
    op = pf.setup_optim_problem(prices, tg)
    res = op.optimize()
    r = ref.solve()
    desc = f'assets {[type(x).__name__ + ":" + x.name for x in assets]}'
    F = lambda name, detail: out.append(fail(name, 'portfolio:Portfolio.setup_optim_problem', case, dict(case), detail + ' | ' + desc))
    if isinstance(res, str) or r.status != 0:
        if isinstance(res, str) != (r.status != 0):
            F('C02.reference.same_feasibility', f'EAO: {res if isinstance(res, str) else "optimal"}; reference: status {r.status} {r.message}')
        return out
    vref = -r.fun
    if abs(vref - res.value) > 1e-5 * max(1., abs(vref)):
        F('C02.reference.same_optimal_value', f'EAO {res.value} reference {vref}')
        return out
    # EAO's dispatch is feasible for the reference model: every net flow pinned to the reported dispatch
    o = eao.io.extract_output(pf, op, res)
    dsp = o['dispatch']
    extra = _RefLP.__new__(_RefLP)
    extra.__dict__ = {k: (list(v) if isinstance(v, list) else v) for k, v in ref.__dict__.items()}
    for (name, node), (fl, a, b) in flows.items():
        col = f'{name} ({node})'
        for k, t in enumerate(range(a, b)):
            v0 = float(dsp[col].iloc[t])
            extra.add_le(fl[k], v0 + 1e-5)
            extra.add_le({kk: -vv for kk, vv in fl[k].items()}, -v0 + 1e-5)
    r2 = extra.solve()
    if r2.status != 0:
        F('C02.reference.eao_dispatch_feasible_for_reference', f'status {r2.status} {r2.message}')
    elif abs(-r2.fun - vref) > 1e-3 * max(1., abs(vref)):
        F('C02.reference.eao_dispatch_optimal_for_reference', f'value of the reference model at EAO dispatch {-r2.fun} vs optimum {vref}')
    return out


# ------------------------------------------------------------------------------------------------ C19 prices_to_grid
def check_prices_to_grid(case):
    """C19: already-gridded price arrays pass through unchanged (one row per grid point, in grid order, same values); prices
    given at the grid's own time points likewise; prices given at other time points are interpolated in time between the
    neighbouring given points and constant outside them."""
    eao = eao_mod()
    out = []
    rng = random.Random(case['seed'])
    start = pd.Timestamp(case['start'])
    tg = eao.assets.Timegrid(start, start + pd.Timedelta(case['hours'], 'h'), freq=case['freq'], timezone=case.get('tz'))
    T = tg.T
    F = lambda name, detail: out.append(fail(name, 'basic_classes:Timegrid.prices_to_grid', case, dict(case), detail))
    arr = {'p': np.asarray([float(rng.randint(-9, 9)) for _ in range(T)]), 'q': [float(rng.randint(-9, 9)) for _ in range(T)]}
    keep = {k: (v.copy() if hasattr(v, 'copy') else list(v)) for k, v in arr.items()}
    df = tg.prices_to_grid(arr)
    ok = list(df.index) == list(tg.timepoints) and all(np.array_equal(np.asarray(df[k].values, dtype=float), np.asarray(keep[k], dtype=float)) for k in arr)
    if not ok:
        F('C19.prices.gridded_arrays_pass_through_unchanged', 'array input changed by prices_to_grid')
    if not all(np.array_equal(np.asarray(arr[k], dtype=float), np.asarray(keep[k], dtype=float)) for k in arr):
        F('C10.prices.input_not_modified', 'input arrays modified')
    # already-gridded prices given as a frame with a plain row-number index: pass through, and the caller's frame stays what it was
    # (its index is not replaced by this grid's time points: the same frame may be used on another grid afterwards)
    d0 = pd.DataFrame({'p': keep['p'], 'q': keep['q']})
    idx0 = list(d0.index)
    df0 = tg.prices_to_grid(d0)
    if not (list(df0.index) == list(tg.timepoints) and np.allclose(df0['p'].values.astype(float), keep['p'])):
        F('C19.prices.gridded_arrays_pass_through_unchanged', 'frame with a row-number index changed by prices_to_grid')
    if list(d0.index) != idx0 or not np.allclose(d0['p'].values.astype(float), keep['p']):
        F('C10.prices.input_not_modified', f"the caller's frame was given this grid's time points as index ({list(d0.index)[:2]}..)")
    # given at the grid's own points (DataFrame with the grid's index, rows shuffled)
    d2 = pd.DataFrame({'p': keep['p']}, index=tg.timepoints)
    d2 = d2.iloc[rng.sample(range(T), T)]
    df2 = tg.prices_to_grid(d2)
    if not (list(df2.index) == list(tg.timepoints) and np.allclose(df2['p'].values.astype(float), keep['p'])):
        F('C19.prices.values_at_grid_points_kept', 'frame with the grid index (rows shuffled) is not mapped back to grid order')
    # given at other points: linear in time between neighbours, constant outside
    if T >= 3:
        sel = sorted(rng.sample(range(T), max(2, T // 2)))
        d3 = pd.DataFrame({'p': [keep['p'][i] for i in sel]}, index=tg.timepoints[sel])
        df3 = tg.prices_to_grid(d3)
        tt = np.asarray([x.value for x in tg.timepoints], dtype=float)
        exp = np.interp(tt, tt[sel], [keep['p'][i] for i in sel])
        if not np.allclose(df3['p'].values.astype(float), exp, atol=1e-9):
            F('C19.prices.interpolated_in_time', f'got {df3["p"].values.tolist()} expected {exp.tolist()}')
    return out


# ------------------------------------------------------------------------------------------------ C09 renaming / permutation
def check_permutation(case):
    """C09: renaming assets and nodes (injectively; numeric names, names that are prefixes of each other) or permuting the
    order of the assets changes neither the optimal value nor, up to the relabelling, the per-asset dispatch and cash flows."""
    eao = eao_mod()
    out = []
    rng = random.Random(case['seed'])
    T = case['T']
    start = pd.Timestamp('2021-01-01')
    prices = {'p': np.asarray([float(rng.randint(1, 9)) for _ in range(T)]), 'q': np.asarray([float(rng.randint(1, 9)) for _ in range(T)])}
    kinds = rng.sample(['spread', 'transport', 'storage', 'storage2', 'coarse1', 'coarse2', 'load', 'orderbook'], rng.randint(3, 6)) + ['market']
    waccs = {k: rng.choice([0., 0., .2, .6]) for k in kinds}
    if 'coarse1' in kinds and 'coarse2' in kinds:
        waccs['coarse1'], waccs['coarse2'] = .5, 0.
    schemes = [lambda k: k, lambda k: str(kinds.index(k) + 1) * (1 + kinds.index(k) % 3), lambda k: 'a' + '_a' * kinds.index(k)]
    node_schemes = [lambda n: n, lambda n: {'A': '1', 'B': '11'}[n], lambda n: {'A': 'x', 'B': 'x_x'}[n], lambda n: {'A': 'grid_connection', 'B': 'g'}[n]]

    def build(order, nm, nn):
        tg = eao.assets.Timegrid(start, start + pd.Timedelta(T, 'h'), freq='h')
        pts = list(tg.timepoints) + [tg.end]
        A, B = eao.assets.Node(nn('A')), eao.assets.Node(nn('B'))
        mk = {
            'market': lambda: eao.assets.SimpleContract(name=nm('market'), nodes=A, price='p', min_cap=-4., max_cap=4., wacc=waccs['market']),
            'spread': lambda: eao.assets.Contract(name=nm('spread'), nodes=B, price='q', extra_costs=.4, min_cap=-2., max_cap=3., wacc=waccs['spread']),
            'transport': lambda: eao.assets.Transport(name=nm('transport'), nodes=[A, B], min_cap=0., max_cap=2., efficiency=.9, costs_const=.1, wacc=waccs['transport']),
            'storage': lambda: eao.assets.Storage(name=nm('storage'), nodes=A, size=3., cap_in=1., cap_out=1.5, eff_in=.9, wacc=waccs['storage']),
            # charging at one node, discharging at the other
            'storage2': lambda: eao.assets.Storage(name=nm('storage2'), nodes=[A, B], size=3., cap_in=1., cap_out=1.5, eff_in=.9, wacc=waccs['storage2']),
            # two assets with their OWN (coarser) frequency, the same window and different discount rates
            'coarse1': lambda: eao.assets.SimpleContract(name=nm('coarse1'), nodes=A, price='q', min_cap=0., max_cap=1., freq='2h', wacc=waccs['coarse1']),
            'coarse2': lambda: eao.assets.SimpleContract(name=nm('coarse2'), nodes=A, price='q', min_cap=-1., max_cap=0., extra_costs=.1, freq='2h', wacc=waccs['coarse2']),
            'load': lambda: eao.assets.SimpleContract(name=nm('load'), nodes=B, min_cap=-.5, max_cap=-.5, start=pts[1], wacc=waccs['load']),
            'orderbook': lambda: eao.assets.OrderBook(name=nm('orderbook'), nodes=A, wacc=waccs['orderbook'], orders=pd.DataFrame(
                {'start': [pts[0], pts[1]], 'end': [pts[2], pts[T]], 'capa': [1., -2.], 'price': [3., 8.]})),
        }
        assets = [mk[k]() for k in order]
        pf = eao.portfolio.Portfolio(assets)
        op = pf.setup_optim_problem(prices, tg)
        res = op.optimize()
        if isinstance(res, str):
            return None
        o = eao.io.extract_output(pf, op, res)
        dcf = {k: float(o['DCF'][nm(k)].sum()) for k in order}
        return res.value, dcf
    T2 = T - T % 2
    T = T2 if T2 >= 2 else 2
    ref = build(kinds, schemes[0], node_schemes[0])
    if ref is None:
        return out
    F = lambda name, detail: out.append(fail(name, 'portfolio:Portfolio.setup_optim_problem', case, dict(case), detail + f' | kinds {kinds} waccs {waccs}'))
    for trial in range(case.get('trials', 3)):
        order = list(kinds)
        rng.shuffle(order)
        sc_ = rng.randrange(3)
        nsc_ = rng.randrange(len(node_schemes))
        got = build(order, schemes[sc_], node_schemes[nsc_])
        if got is None:
            F('C09.same_value_under_renaming_and_permutation', f'order {order} naming scheme {sc_} / node names {nsc_}: not solved')
            continue
        if abs(got[0] - ref[0]) > 1e-5 * max(1., abs(ref[0])):
            F('C09.same_value_under_renaming_and_permutation', f'order {order} naming scheme {sc_} / node names {nsc_}: value {got[0]} vs {ref[0]}')
            break
    return out


# ------------------------------------------------------------------------------------------------ C13 / C07 periodic assets of several kinds
def _wf_problem(op, T, label):
    """C07 well-formedness of a produced problem; returns a list of (name, detail)"""
    bad = []
    n = len(op.c)
    m = op.mapping
    if not (len(op.l) == n and len(op.u) == n and (op.A is None or op.A.shape[1] == n)):
        bad.append(('C07.wf.one_entry_per_variable', f'{label}: len c/l/u = {n}/{len(op.l)}/{len(op.u)}, A columns {None if op.A is None else op.A.shape[1]}'))
        return bad
    idx = np.asarray(m.index, dtype=float)
    if len(idx) and (np.any(idx < 0) or np.any(idx >= n) or np.any(idx != np.round(idx))):
        bad.append(('C07.wf.mapping_rows_point_to_existing_variables', f'{label}: mapping index outside [0, {n}): {sorted(set(int(i) for i in idx if i < 0 or i >= n))[:6]}'))
        return bad
    mapped = set(int(i) for i in idx)
    A = op.A.tocsc() if op.A is not None else None
    for j in range(n):
        if j not in mapped and (abs(op.c[j]) > 1e-12 or (A is not None and A[:, j].nnz > 0)):
            bad.append(('C07.wf.unmapped_variable_has_no_cost_and_no_row', f'{label}: variable {j} has no mapping row but cost {op.c[j]} / {0 if A is None else A[:, j].nnz} matrix entries'))
            break
    if np.any(np.isnan(op.c)) or np.any(np.isnan(op.l)) or np.any(np.isnan(op.u)) or np.any(op.l > op.u + 1e-12):
        bad.append(('C07.wf.bounds_ordered_no_nan', label))
    ts = np.asarray(m['time_step'], dtype=float)
    if len(ts) and (np.any(ts < 0) or np.any(ts >= T)):
        bad.append(('C07.wf.steps_on_grid', label))
    return bad


def check_periodic_kinds(case):
    """C13 / C07: an asset of any kind that accepts `periodicity` (one or two variables per step, one or several mapping rows
    per variable, with / without periodicity_duration) yields a well-formed problem, and in a portfolio its optimum equals
    that of the same portfolio without periodicity plus the equalities 'same dispatch at the same position of every period
    inside a duration' (independent LP: the non-periodic assembled problem + equality rows, solved by scipy/HiGHS)."""
    from scipy.optimize import linprog
    eao = eao_mod()
    out = []
    rng = random.Random(case['seed'])
    start = pd.Timestamp('2021-01-04')            # a Monday
    tg = eao.assets.Timegrid(start, start + pd.Timedelta(case['days'], 'd'), freq=case['freq'])
    T = tg.T
    A, B = eao.assets.Node('A'), eao.assets.Node('B')
    prices = {'p': np.asarray([float(rng.randint(1, 9)) for _ in range(T)]), 'q': np.asarray([float(rng.randint(1, 9)) for _ in range(T)])}
    per, dur = 'd', case['duration']
    # limits that differ from step to step (given like a price series), on one side or on both: "limits ... averaged over the merged steps"
    vary = case.get('vary')
    step_h_ = pd.Timedelta(case['freq']) / pd.Timedelta(1, 'h')
    per_steps_ = int(round(24 / step_h_))
    dur_steps_ = None if dur is None else int(round(pd.Timedelta(dur) / pd.Timedelta(case['freq'])))
    grp = [(0 if dur_steps_ is None else t // dur_steps_, t % per_steps_) for t in range(T)]

    def averaged(v):
        return np.asarray([np.mean([v[s] for s in range(T) if grp[s] == grp[t]]) for t in range(T)])
    lo_fine = np.asarray([-float(rng.choice([0., .5, 1., 1.5])) for _ in range(T)]) if vary in ('min', 'both') else np.full(T, -1.)
    up_fine = np.asarray([float(rng.choice([1., 1.5, 2., 3.])) for _ in range(T)]) if vary in ('max', 'both') else np.full(T, 2.)
    prices_avg = dict(prices, lo=averaged(lo_fine), up=averaged(up_fine))
    prices = dict(prices, lo=lo_fine, up=up_fine)

    def build(periodic):
        kw = dict(periodicity=per, periodicity_duration=dur) if periodic else {}
        kind = case['kind']
        if kind == 'simple':
            a = eao.assets.SimpleContract(name='x', nodes=B, price='q', min_cap='lo' if vary else -1., max_cap='up' if vary else 2., **kw)
        elif kind == 'spread':
            a = eao.assets.Contract(name='x', nodes=B, price='q', extra_costs=.5, min_cap='lo' if vary else -1., max_cap='up' if vary else 2., **kw)
        elif kind == 'transport':
            a = eao.assets.Transport(name='x', nodes=[A, B], min_cap=0., max_cap=2., efficiency=.9, costs_const=.1, **kw)
        else:
            a = eao.assets.MultiCommodityContract(name='x', nodes=[A, B], factors_commodities=[-1., .8], min_cap=0., max_cap=2., extra_costs=.2, **kw)
        others = [eao.assets.SimpleContract(name='mA', nodes=A, price='p', min_cap=-5., max_cap=5.),
                  eao.assets.SimpleContract(name='mB', nodes=B, price='p' if kind in ('simple', 'spread') else 'q', min_cap=-5. if vary else -1., max_cap=5. if vary else 1., extra_costs=.3)]     # (wide enough for x's own limits to bind; for the one-node kinds a second price at the same node, otherwise nothing would trade)
        assets = [a] + others if case.get('first', True) else others + [a]
        return a, eao.portfolio.Portfolio(assets)
    F = lambda name, detail: out.append(fail(name, 'optimization:OptimProblem.__make_periodic__', case, dict(case), detail))
    a_per, pf_per = build(True)
    op_alone = a_per.setup_optim_problem(prices, tg)
    for name, detail in _wf_problem(op_alone, T, 'stand-alone periodic asset'):
        F(name, detail)
    op_per = pf_per.setup_optim_problem(prices, tg)
    for name, detail in _wf_problem(op_per, T, 'portfolio with the periodic asset'):
        F(name, detail)
    if out:
        return out
    res = op_per.optimize()
    # reference: the non-periodic portfolio problem + equalities between the asset's variables of the same kind at the same
    # position of every period inside one duration
    a0, pf0 = build(False)
    op0 = pf0.setup_optim_problem(prices_avg, tg)        # (limits averaged over the merged steps, as documented)
    m = op0.mapping
    mine = m[m['asset'] == 'x']
    first = mine[~mine.index.duplicated(keep='first')]
    step_h = pd.Timedelta(case['freq']) / pd.Timedelta(1, 'h')
    per_steps = int(round(24 / step_h))
    dur_steps = None if dur is None else int(round(pd.Timedelta(dur) / pd.Timedelta(case['freq'])))
    groups = {}
    for i, r in first.iterrows():
        t = int(r['time_step'])
        key = (r.get('var_name'), 0 if dur_steps is None else t // dur_steps, t % per_steps)
        groups.setdefault(key, []).append(int(i))
    n = len(op0.c)
    A0 = op0.A.toarray()
    ct = np.array(list(op0.cType))
    eq_rows, eq_b = [A0[(ct == 'S') | (ct == 'N')]], [op0.b[(ct == 'S') | (ct == 'N')]]
    for g in groups.values():
        for i, j in zip(g[:-1], g[1:]):
            row = np.zeros((1, n))
            row[0, i], row[0, j] = 1., -1.
            eq_rows.append(row)
            eq_b.append(np.zeros(1))
    ub_rows = np.vstack([A0[ct == 'U'], -A0[ct == 'L']])
    ub_b = np.hstack([op0.b[ct == 'U'], -op0.b[ct == 'L']])
    r = linprog(op0.c, A_ub=ub_rows if len(ub_b) else None, b_ub=ub_b if len(ub_b) else None, A_eq=np.vstack(eq_rows), b_eq=np.hstack(eq_b),
                bounds=list(zip(op0.l, op0.u)), method='highs')
    if isinstance(res, str) or r.status != 0:
        if isinstance(res, str) != (r.status != 0):
            F('C13.periodic.same_feasibility_as_fine_problem_with_equalities', f'EAO {res if isinstance(res, str) else "optimal"} reference status {r.status}')
        return out
    if abs(res.value + r.fun) > 1e-5 * max(1., abs(r.fun)):
        F('C13.periodic.value_equals_fine_problem_with_equalities', f'periodic {res.value} vs reference {-r.fun}')
    # the reported dispatch repeats inside a duration
    o = eao.io.extract_output(pf_per, op_per, res)
    for col in [c for c in o['dispatch'].columns if c.startswith('x')]:
        v = o['dispatch'][col].values.astype(float)
        for t in range(T):
            t2 = t + per_steps
            if t2 < T and (dur_steps is None or t // dur_steps == t2 // dur_steps) and abs(v[t] - v[t2]) > 1e-6:
                F('C13.periodic.dispatch_repeats_at_same_position_of_every_period', f'{col}: step {t} {v[t]} vs step {t2} {v[t2]}')
                return out
    return out


# ------------------------------------------------------------------------------------------------ C13 coarse asset frequency, several kinds
def check_coarse_kinds(case):
    """C13: an asset of any kind given a coarser frequency than the portfolio (one / two variables per step, one / several
    mapping rows per variable) yields a well-formed problem; it is dispatched at a constant rate within each of its coarse
    intervals (also where the fine steps differ in length); on uniform grids the optimum equals the fine portfolio plus
    those equalities (independent scipy/HiGHS LP)."""
    from scipy.optimize import linprog
    eao = eao_mod()
    out = []
    rng = random.Random(case['seed'])
    if case.get('dst'):
        start = pd.Timestamp('2021-03-21')                                                              # a Sunday (anchor of 'W')
        tg = eao.assets.Timegrid(start, start + pd.Timedelta(14, 'd'), freq='d', timezone='CET')        # calendar days; 28 March has 23 h
        coarse = 'W'
    else:
        start = pd.Timestamp('2021-01-04')
        tg = eao.assets.Timegrid(start, start + pd.Timedelta(case['hours'], 'h'), freq='h')
        coarse = case['coarse']
    T = tg.T
    dt = np.asarray(tg.dt, dtype=float)
    A, B = eao.assets.Node('A'), eao.assets.Node('B')
    prices = {'p': np.asarray([float(rng.randint(1, 9)) for _ in range(T)]), 'q': np.asarray([float(rng.randint(1, 9)) for _ in range(T)]), 'cheap': np.full(T, .25)}

    def build(with_freq):
        kw = dict(freq=coarse) if with_freq else {}
        if case.get('wacc'):
            kw['wacc'] = case['wacc']
        kind = case['kind']
        if kind == 'simple':
            a = eao.assets.SimpleContract(name='x', nodes=B, price='p', min_cap=-1., max_cap=2., **kw)
        elif kind == 'spread':
            a = eao.assets.Contract(name='x', nodes=B, price='p', extra_costs=.5, min_cap=-1., max_cap=2., **kw)
        elif kind == 'transport':
            a = eao.assets.Transport(name='x', nodes=[A, B], min_cap=0., max_cap=2., efficiency=.9, costs_const=.1, **kw)
        elif kind == 'take':
            # a contract whose take over a window (aligned with the coarse steps) is limited: the limit binds at these prices
            lo_, hi_ = case.get('take_window', (6, 18))
            take = {'start': [start + pd.Timedelta(lo_, 'h')], 'end': [start + pd.Timedelta(hi_, 'h')], 'values': [case.get('take', 8.)]}
            a = eao.assets.Contract(name='x', nodes=B, price='cheap', min_cap=0., max_cap=2., max_take=take, min_take={'start': take['start'], 'end': take['end'], 'values': [2.]}, **kw)
        else:
            a = eao.assets.MultiCommodityContract(name='x', nodes=[A, B], factors_commodities=[-1., .8], min_cap=0., max_cap=2., extra_costs=.2, **kw)
        others = [eao.assets.SimpleContract(name='mA', nodes=A, price='p', min_cap=-5., max_cap=5.),
                  eao.assets.SimpleContract(name='mB', nodes=B, price='q', min_cap=-1., max_cap=1., extra_costs=.3)]
        return a, eao.portfolio.Portfolio([a] + others if case.get('first', True) else others + [a])
    F = lambda name, detail: out.append(fail(name, 'assets:Asset.__extend_mapping_to_minor_grid__', case, dict(case), detail))
    a1, pf1 = build(True)
    try:
        op_alone = a1.setup_optim_problem(prices, tg)
        op1 = pf1.setup_optim_problem(prices, tg)
    except Exception as e:
        F('C13.coarse.every_asset_kind_that_accepts_freq_sets_up', f'{type(e).__name__}: {str(e)[:150]}')
        return out
    for name, detail in _wf_problem(op_alone, T, 'stand-alone coarse asset') + _wf_problem(op1, T, 'portfolio with the coarse asset'):
        F(name.replace('C07.', 'C13.'), detail)
    if out:
        return out
    res = op1.optimize()
    if isinstance(res, str):
        F('C13.coarse.solvable', res)
        return out
    # coarse intervals on the fine grid
    cg = eao.assets.Timegrid(tg.start, tg.end, freq=coarse, ref_timegrid=tg)
    groups_t = [list(int(t) for t in I) for I in cg.I_minor_in_major]
    o = eao.io.extract_output(pf1, op1, res)
    for col in [c for c in o['dispatch'].columns if c.startswith('x')]:
        v = o['dispatch'][col].values.astype(float)
        for g in groups_t:
            rates = v[g] / dt[g]
            if np.abs(rates - rates[0]).max() > 1e-6 * max(1., np.abs(rates).max()):
                F('C13.coarse.constant_rate_within_each_coarse_interval', f'{col}: steps {g[:6]} rates {np.round(rates, 5).tolist()[:6]}')
                return out
    if case['kind'] == 'transport':
        a_, b_ = o['dispatch']['x (A)'].values.astype(float), o['dispatch']['x (B)'].values.astype(float)
        if not np.allclose(b_, -.9 * a_, atol=1e-6):
            F('C13.coarse.transport_efficiency_applied_per_fine_step', f'A {np.round(a_, 4).tolist()[:8]} B {np.round(b_, 4).tolist()[:8]}')
            return out
    if case.get('dst'):
        return out
    # reference: fine portfolio + equal volumes of the asset's variables inside each coarse interval (uniform steps)
    a0, pf0 = build(False)
    op0 = pf0.setup_optim_problem(prices, tg)
    m = op0.mapping
    mine = m[m['asset'] == 'x']
    first = mine[~mine.index.duplicated(keep='first')]
    step_group = {}
    for gi, g in enumerate(groups_t):
        for t in g:
            step_group[t] = gi
    groups = {}
    for i, r in first.iterrows():
        groups.setdefault((r.get('var_name'), step_group[int(r['time_step'])]), []).append(int(i))
    n = len(op0.c)
    A0 = op0.A.toarray()
    ct = np.array(list(op0.cType))
    eq_rows, eq_b = [A0[(ct == 'S') | (ct == 'N')]], [op0.b[(ct == 'S') | (ct == 'N')]]
    for g in groups.values():
        for i, j in zip(g[:-1], g[1:]):
            row = np.zeros((1, n))
            row[0, i], row[0, j] = 1., -1.
            eq_rows.append(row)
            eq_b.append(np.zeros(1))
    ub_rows = np.vstack([A0[ct == 'U'], -A0[ct == 'L']])
    ub_b = np.hstack([op0.b[ct == 'U'], -op0.b[ct == 'L']])
    r = linprog(op0.c, A_ub=ub_rows if len(ub_b) else None, b_ub=ub_b if len(ub_b) else None, A_eq=np.vstack(eq_rows), b_eq=np.hstack(eq_b),
                bounds=list(zip(op0.l, op0.u)), method='highs')
    if r.status == 0 and abs(res.value + r.fun) > 1e-5 * max(1., abs(r.fun)):
        F('C13.coarse.value_equals_fine_problem_with_equalities', f'coarse {res.value} vs reference {-r.fun}')
    return out


# ------------------------------------------------------------------------------------------------ C03 random small problems vs scipy milp
def check_optimize_random(case):
    """C03 on random small assembled problems (LP and MIP, any mix of row types U/L/S/N, duplicated mapping rows, boolean
    variables with bounds other than 0/1, variables fixed by their bounds): success => the returned vector satisfies every
    bound, every row according to its type and every boolean flag, value = -c.x, and no feasible point is better (independent
    scipy milp); failure => scipy finds no feasible point either."""
    from scipy.optimize import milp, LinearConstraint, Bounds
    import scipy.sparse as sp
    eao = eao_mod()
    out = []
    rng = random.Random(case['seed'])
    n = rng.randint(1, 5)
    m = rng.randint(0, 4)
    c = np.asarray([float(rng.randint(-5, 5)) for _ in range(n)])
    l = np.asarray([float(rng.randint(-3, 1)) for _ in range(n)])
    u = np.asarray([lo + float(rng.choice([0, 0, 1, 2, 4])) for lo in l])
    if case.get('all_fixed'):
        u = l.copy()
    if case.get('inf'):
        # one-sided variables (a buy-only contract without capacity limit): infinite upper or lower bounds, the cost pushing to the finite side
        for j in range(n):
            side = rng.choice([None, 'u', 'u', 'l'])
            if side == 'u':
                u[j], c[j] = np.inf, abs(c[j]) + (0. if rng.random() < .5 else 1.)
            elif side == 'l':
                l[j], c[j] = -np.inf, -abs(c[j]) - (0. if rng.random() < .5 else 1.)
    if case.get('unbounded'):
        # a one-sided variable whose cost pushes towards its infinite bound: feasible, but without optimum
        n, m = 2, 0
        c, l, u = np.asarray([-1., 0.]), np.asarray([0., 0.]), np.asarray([np.inf, 1.])
    A = np.asarray([[float(rng.choice([0, 0, 1, -1, 2])) for _ in range(n)] for _ in range(m)]).reshape(m, n)
    for r in range(m):
        if not np.any(A[r]):
            A[r, rng.randrange(n)] = 1.      # (rows without any entry are left to the external solver's presolve, A1: not generated)
    b = np.asarray([float(rng.randint(-3, 4)) for _ in range(m)])
    ct = ''.join(rng.choice('ULSN') for _ in range(m))
    if case.get('frac'):
        # integrality matters: unit boxes, knapsack-like rows with fractional right-hand sides, so that the relaxation of a flagged
        # variable (or a flag on another variable) changes the optimum or the feasibility
        n = rng.randint(3, 5)
        m = rng.randint(1, 3)
        c = np.asarray([float(rng.choice([-5, -4, -3, -2, 2, 3])) for _ in range(n)])
        l = np.zeros(n)
        u = np.asarray([float(rng.choice([1, 1, 1, 2])) for _ in range(n)])
        A = np.asarray([[float(rng.choice([0, 1, 1, 2, 3])) for _ in range(n)] for _ in range(m)]).reshape(m, n)
        for r in range(m):
            if not np.any(A[r]):
                A[r, rng.randrange(n)] = 1.
        b = np.asarray([float(rng.choice([1.5, 2.5, 3.5, 2.])) for _ in range(m)])
        ct = 'U' * m
    isb = [case.get('mip', False) and rng.random() < .5 and np.isfinite(l[j]) and np.isfinite(u[j]) for j in range(n)]
    rows = []
    for j in range(n):
        if case.get('unmapped') and not isb[j] and rng.random() < .35:
            continue                                     # a variable without any mapping row (as an order outside the horizon has)
        for _ in range(rng.choice([1, 1, 2])):          # duplicated mapping rows
            rows.append(dict(index=j, asset='a', node='n', type='d', time_step=j % 2, var_name='v', bool=isb[j]))
    if not rows:
        rows.append(dict(index=0, asset='a', node='n', type='d', time_step=0, var_name='v', bool=isb[0]))
    rng.shuffle(rows) if case.get('shuffle') else None
    mp = pd.DataFrame(rows).set_index('index')
    if not case.get('mip'):
        mp = mp.drop(columns=['bool'])
    op = eao.optimization.OptimProblem(c=c.copy(), l=l.copy(), u=u.copy(), A=sp.lil_matrix(A) if m else None, b=b.copy() if m else None,
                                       cType=ct if m else None, mapping=mp)
    res = op.optimize()
    # reference
    lo, hi = l.copy(), u.copy()
    integ = np.zeros(n)
    for j in range(n):
        if isb[j]:
            integ[j] = 1
            lo[j], hi[j] = max(lo[j], 0.), min(hi[j], 1.)
    cons = []
    for r in range(m):
        if ct[r] == 'U':
            cons.append(LinearConstraint(A[r:r + 1], -np.inf, b[r]))
        elif ct[r] == 'L':
            cons.append(LinearConstraint(A[r:r + 1], b[r], np.inf))
        else:
            cons.append(LinearConstraint(A[r:r + 1], b[r], b[r]))
    feasible_bounds = bool(np.all(lo <= hi))
    ref = milp(c, constraints=cons or None, bounds=Bounds(lo, hi), integrality=integ, options=dict(presolve=False)) if feasible_bounds else None     # (presolve off: see below)
    ref_ok = ref is not None and ref.status == 0
    if ref is not None and ref.status == 3:
        # unbounded problem (possible with one-sided variables): there is no optimum to compare.  The statement's failure clause ("reports
        # failure => no feasible point") is violated to the letter when the optimiser reports failure here: known finding D44
        if isinstance(res, str) and res != 'inaccurate':
            out.append(fail('C03.failure.unbounded_problem_reported_as_failure', 'optimization:OptimProblem.optimize', case, dict(case),
                            f'optimiser reports {res}; the problem is unbounded (feasible points exist) | c={c.tolist()} l={l.tolist()} u={u.tolist()} A={A.tolist()} b={b.tolist()} cType={ct}'))
        return out
    F = lambda name, detail: out.append(fail(name, 'optimization:OptimProblem.optimize', case, dict(case), detail + f' | c={c.tolist()} l={l.tolist()} u={u.tolist()} A={A.tolist()} b={b.tolist()} cType={ct} bool={isb}'))
    if isinstance(res, str):
        if res != 'inaccurate' and ref_ok:
            F('C03.failure_only_if_infeasible', f'optimiser reports {res}; scipy finds a feasible optimum {-ref.fun}')
        return out
    x = np.asarray(res.x, dtype=float)
    tol = 1e-5
    if np.any(x < l - tol) or np.any(x > u + tol):
        F('C03.solution.within_bounds', f'x={x.tolist()}')
    for r in range(m):
        v = float(A[r] @ x)
        if (ct[r] == 'U' and v > b[r] + tol) or (ct[r] == 'L' and v < b[r] - tol) or (ct[r] in 'SN' and abs(v - b[r]) > tol):
            F('C03.solution.satisfies_every_row_by_type', f'row {r} type {ct[r]}: {v} vs {b[r]}; x={x.tolist()}')
            break
    for j in range(n):
        if isb[j] and min(abs(x[j]), abs(x[j] - 1.)) > tol:
            F('C03.solution.boolean_flags', f'variable {j} = {x[j]}')
            break
    if abs(res.value + float(c @ x)) > 1e-6 * max(1., abs(res.value)):
        F('C03.value_is_minus_cost_times_vector', f'value {res.value} vs {-float(c @ x)}')
    if not ref_ok:
        # the reference finds no feasible point: the returned vector itself decides (checked above against every bound, row and flag); a
        # vector that passes IS a feasible point, then the reference is wrong (HiGHS presolve with mixed integrality, scipy 1.14) and no
        # comparison is made
        if out:
            F('C03.success_only_if_feasible', f'optimiser returns a solution; scipy status {None if ref is None else ref.status} (no feasible point)')
    elif res.value < -ref.fun - 1e-5 * max(1., abs(ref.fun)):
        F('C03.no_better_feasible_point', f'value {res.value} < reference optimum {-ref.fun}')
    return out


# ------------------------------------------------------------------------------------------------ C08 assets entirely outside the horizon are inert
def check_outside_inert(case):
    """C08: an asset of any kind whose window lies entirely outside the horizon (before / after) changes neither the optimal value nor the
    dispatch of anything else -- typical for rolling optimisation with a long-dated asset list."""
    eao = eao_mod()
    out = []
    rng = random.Random(case['seed'])
    T = 6
    start = pd.Timestamp('2021-01-01')
    tg = eao.assets.Timegrid(start, start + pd.Timedelta(T, 'h'), freq='h')
    A, B, G = eao.assets.Node('A'), eao.assets.Node('B'), eao.assets.Node('G')
    s_, e_ = (pd.Timestamp('2022-01-01'), pd.Timestamp('2022-01-02')) if case['where'] == 'after' else (pd.Timestamp('2020-01-01'), pd.Timestamp('2020-01-02'))
    kind = case['kind']
    mk = {
        'simple': lambda: eao.assets.SimpleContract(name='x', nodes=A, price='p', min_cap=-1., max_cap=2., start=s_, end=e_),
        'contract_take': lambda: eao.assets.Contract(name='x', nodes=A, price='p', min_cap=0., max_cap=2., start=s_, end=e_,
                                                     min_take={'start': [s_], 'end': [e_], 'values': [5.]}),
        'transport': lambda: eao.assets.Transport(name='x', nodes=[A, B], min_cap=0., max_cap=2., efficiency=.9, start=s_, end=e_),
        'ext_transport': lambda: eao.assets.ExtendedTransport(name='x', nodes=[A, B], min_cap=0., max_cap=2., efficiency=.9, start=s_, end=e_),
        'storage': lambda: eao.assets.Storage(name='x', nodes=A, size=3., cap_in=1., cap_out=1., start_level=1., end_level=1., start=s_, end=e_),
        'chp': lambda: eao.assets.CHPAsset(name='x', nodes=[A, B, G], min_cap=1., max_cap=3., ramp=1., min_runtime=2, start_costs=1., time_already_off=1, start=s_, end=e_),
        'plant': lambda: eao.assets.Plant(name='x', nodes=[A, G], min_cap=1., max_cap=3., start_costs=1., min_downtime=2, time_already_off=1, start=s_, end=e_),
        'multi': lambda: eao.assets.MultiCommodityContract(name='x', nodes=[A, B], factors_commodities=[-1., .8], min_cap=0., max_cap=2., start=s_, end=e_),
        # (the window that governs the dispatch of a scaled asset is the base asset's; the scaled asset's own one counts the fix costs)
        'scaled': lambda: eao.assets.ScaledAsset(name='x', base_asset=eao.assets.SimpleContract(name='b', nodes=A, price='p', min_cap=-1., max_cap=1., start=s_, end=e_),
                                                 max_scale=3., start=s_, end=e_),
        'orderbook': lambda: eao.assets.OrderBook(name='x', nodes=A, orders=pd.DataFrame({'start': [s_], 'end': [e_], 'capa': [2.], 'price': [1.]})),
    }
    others = lambda: [eao.assets.SimpleContract(name='mA', nodes=A, price='p', min_cap=-3., max_cap=3.),
                      eao.assets.SimpleContract(name='mB', nodes=B, price='q', min_cap=-1., max_cap=1.),
                      eao.assets.Transport(name='t', nodes=[A, B], min_cap=0., max_cap=1., efficiency=.9),
                      eao.assets.SimpleContract(name='gas', nodes=G, price='q', min_cap=0., max_cap=5.),
                      eao.assets.Storage(name='s', nodes=A, size=2., cap_in=1., cap_out=1.)]
    prices = {'p': np.asarray([float(rng.randint(1, 9)) for _ in range(T)]), 'q': np.asarray([float(rng.randint(1, 9)) for _ in range(T)])}
    F = lambda name, detail: out.append(fail(name, 'portfolio:Portfolio.setup_optim_problem', case, dict(case), detail))
    base = others()
    r0 = optimize(eao.portfolio.Portfolio(base), prices, tg)[1]
    assets = others()
    x = mk[kind]()
    assets.insert(rng.randrange(len(assets) + 1), x)
    try:
        pf = eao.portfolio.Portfolio(assets)
        op, r1 = optimize(pf, prices, tg)
    except Exception as e:
        F('C08.outside.asset_outside_the_horizon_is_inert', f'{kind} {case["where"]} the horizon: set-up / optimisation raises {type(e).__name__}: {str(e)[:120]}')
        return out
    if isinstance(r0, str) or isinstance(r1, str):
        if isinstance(r0, str) != isinstance(r1, str):
            F('C08.outside.asset_outside_the_horizon_is_inert', f'{kind}: solvability changes ({r0 if isinstance(r0, str) else "ok"} vs {r1 if isinstance(r1, str) else "ok"})')
        return out
    if abs(r0.value - r1.value) > 1e-6 * max(1., abs(r0.value)):
        F('C08.outside.asset_outside_the_horizon_is_inert', f'{kind} {case["where"]}: value {r1.value} vs {r0.value} without it')
    try:
        o = eao.io.extract_output(pf, op, r1)
        cols = [c for c in o['dispatch'].columns if c.startswith('x')]
        if cols and np.abs(o['dispatch'][cols].values.astype(float)).max() > 1e-6:
            F('C08.outside.no_dispatch_outside_the_window', f'{kind}: reported dispatch of the outside asset is not zero')
    except Exception as e:
        F('C08.outside.output_can_be_extracted', f'{kind} {case["where"]}: extract_output raises {type(e).__name__}: {str(e)[:120]}')
    return out


# ------------------------------------------------------------------------------------------------ C07 well-formedness of every asset kind's problem
def check_wf_kinds(case):
    """C07: for assets of every kind (incl. plants whose binaries are triggered by one option only), stand-alone and assembled in a
    portfolio: one cost / bound / column per variable, mapping rows point to existing variables, a variable without mapping row has no
    cost and occurs in no row, bounds ordered, no NaN, steps on the grid."""
    eao = eao_mod()
    out = []
    rng = random.Random(case['seed'])
    T = case['T']
    start = pd.Timestamp('2021-01-01')
    tg = eao.assets.Timegrid(start, start + pd.Timedelta(T, 'h'), freq='h')
    pts = list(tg.timepoints) + [tg.end]
    pool = _output_pool(eao, rng, T, pts)
    P, G, Hn = eao.assets.Node('A'), eao.assets.Node('G'), eao.assets.Node('B')
    a, b = rng.choice([(0, T), (1, T), (0, T - 1)])
    trig = case.get('trigger', 'start_fuel')
    kw = dict(start_fuel=.3) if trig == 'start_fuel' else (dict(consumption_if_on=.2, min_cap=0.) if trig == 'consumption' else
                                                          (dict(start_costs=1.) if trig == 'start_costs' else dict(min_downtime=2, time_already_off=1)))
    kw.setdefault('min_cap', 1.)
    plant = (eao.assets.Plant(name='pl', nodes=[P, G], max_cap=3., fuel_efficiency=.5, start=pts[a], end=pts[b], **kw) if case.get('plant', True) else
             eao.assets.CHPAsset(name='pl', nodes=[P, Hn, G], max_cap=3., fuel_efficiency=.5, start=pts[a], end=pts[b], **kw))
    pool.insert(rng.randrange(len(pool) + 1), plant)
    pool.append(eao.assets.SimpleContract(name='gasmarket', nodes=G, price='p', min_cap=0., max_cap=20.))
    prices = {'p': np.asarray([float(rng.randint(1, 9)) for _ in range(T)])}
    F = lambda name, detail: out.append(fail(name, 'assets:Asset.setup_optim_problem', case, dict(case), detail))
    for x in pool:
        try:
            op = x.setup_optim_problem(prices, tg)
        except Exception as e:
            F('C07.wf.asset_problem_can_be_set_up', f'{type(x).__name__} {x.name}: {type(e).__name__}: {str(e)[:120]}')
            continue
        for name, detail in _wf_problem(op, T, f'stand-alone {type(x).__name__} {x.name}'):
            F(name, detail)
    if out:
        return out
    pf = eao.portfolio.Portfolio(pool)
    op = pf.setup_optim_problem(prices, tg)
    for name, detail in _wf_problem(op, T, 'portfolio ' + str([type(x).__name__ for x in pool])):
        F(name, detail)
    if not out:
        # every asset's own costs and bounds sit at its own variables
        off = 0
        for x in pool:
            o1 = x.setup_optim_problem(prices, tg)
            n = len(o1.l)
            if not (np.allclose(op.c[off:off + n], o1.c) and np.allclose(op.l[off:off + n], o1.l) and np.allclose(op.u[off:off + n], o1.u)):
                F('C07.wf.cost_and_bounds_are_those_the_asset_computed', f'{type(x).__name__} {x.name} at variables {off}..{off + n}')
                break
            off += n
    return out
