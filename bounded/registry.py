"""bounded providers: enumerate / sample the scenario families of bounded/scenarios.py per property"""
import random
import time
import traceback

from pyvc.extras import provider
from . import scenarios as sc


def run_cases(fn, cases, rule, bound, budget_s):
    t0 = time.time()
    ev = 0
    nontrivial = 0
    seen = set()
    failures = []
    samples = []
    for case in cases:
        if time.time() - t0 > budget_s:
            break
        try:
            fails = fn(case)
        except Exception as e:
            if type(e).__name__ == 'SolverError':
                # the external solver gave up numerically (cvxpy SolverError): A1, the scenario decides nothing
                continue
            fails = [sc.fail(fn.__name__ + '.raised', fn.__name__, case, case, f'{type(e).__name__}: {e} | ' + traceback.format_exc(limit=2)[-300:])]
            fails[0]['error'] = True
        ev += 1
        # distinct = different case description; non-trivial = the scenario ran to its end on it (set up, solved where it solves, compared)
        key = repr(sorted(case.items())) if isinstance(case, dict) else repr(case)
        if key not in seen:
            seen.add(key)
            nontrivial += 1
        if len(samples) < 2:
            samples.append(dict(scenario=fn.__name__, case=case))
        for f in fails:
            f.setdefault('twin', {})['fn'] = fn.__name__
            failures.append(f)
    return dict(evaluations=ev, distinct_nontrivial=nontrivial, rule=rule, bound=bound, failures=failures, samples=samples)


def _n(tier, q, t):
    return t if tier == 'thorough' else q


@provider('C19', 'C12')
def coarse_grids(prop, tier, seed):
    cases = sc.coarse_grid_cases(seed, _n(tier, 24, 80))
    # whole-window partition: aligned windows hold; the unaligned weekly one is known finding D25 (steps before the first anchor are dropped)
    cases = [dict(tz=None, fine='h', coarse='d', start='2021-01-04', days=3, whole=True), dict(tz='CET', fine='h', coarse='W', start='2021-03-26', days=14, whole=True),
             dict(tz=None, fine='d', coarse='W', start='2021-01-04', days=14, whole=True, unaligned=True, d25=True),
             # windows sticking out of the grid by a fraction of a coarse step (asset valid from midnight, horizon from 06:00 / to noon)
             dict(tz=None, fine='h', coarse='d', start='2021-03-01 06:00', days=3, woff=(-6, 0)),
             dict(tz='CET', fine='h', coarse='d', start='2021-03-27', days=2.5, woff=(0, 12))] + cases
    b = run_cases(sc.check_coarse_grid, cases, 'real Timegrids: fine/coarse frequency pairs x zones (naive, CET, US/Eastern) x windows over both DST switches, two main time units; every case distinct',
                  'windows of 3-14 days, 5 frequency pairs', 40 if tier == 'quick' else 300)
    b['failures'] = [f for f in b['failures'] if f['name'].startswith(prop) or f.get('error')]
    roots = [dict(tz=tz, fine=f, start=s, days=d, unit=u) for tz in (None, 'CET') for f in ('h', '15min', 'd') for s in ('2021-03-27', '2021-10-30')
             for d in (2, 3) for u in ('h', 'd')]
    random.Random(seed).shuffle(roots)
    # anchored frequencies: aligned starts hold; the two unaligned ones are known finding D24 (the grid starts at the next anchor)
    roots = [dict(tz=None, fine='W', start='2021-01-03', days=21, unit='h'), dict(tz='CET', fine='MS', start='2021-02-01', days=90, unit='d'),
             dict(tz=None, fine='W', start='2021-01-04', days=21, unit='h', d24=True), dict(tz=None, fine='MS', start='2021-01-15', days=80, unit='d', d24=True)] + roots
    b2 = run_cases(sc.check_root_grid, roots[:_n(tier, 20, 52)], 'real root grids over DST switches', 'horizons of 2-3 days', 20)
    b2['failures'] = [f for f in b2['failures'] if f['name'].startswith(prop) or f.get('error')]
    return dict(bounded=_merge(b, b2))


def _merge(*bs):
    out = dict(evaluations=0, distinct_nontrivial=0, rule='', bound='', failures=[], samples=[])
    for b in bs:
        out['evaluations'] += b['evaluations']
        out['distinct_nontrivial'] += b['distinct_nontrivial']
        out['rule'] = (out['rule'] + ' | ' if out['rule'] else '') + b['rule']
        out['bound'] = (out['bound'] + ' | ' if out['bound'] else '') + b['bound']
        out['failures'] += b['failures']
        out['samples'] += b['samples']
    return out


@provider('C13')
def periodic_and_coarse(prop, tier, seed):
    rng = random.Random(seed)
    cases = []
    for start in ('2021-01-01', '2021-01-03', '2021-01-04'):     # Friday, Sunday (duration boundary), Monday
        for duration in (None, '7d', 'W'):
            for ec in (0., 1.):
                cases.append(dict(start=start, days=rng.choice([14, 15, 21]), duration=duration, ec=ec, pseed=rng.randint(0, 999)))
    rng.shuffle(cases)
    b1 = run_cases(sc.check_periodic, cases[:_n(tier, 8, 18)], 'periodic SimpleContract (period d, duration none/7d/W, with/without spread) vs scipy LP with explicit equalities',
                   'hourly grids of 14-21 days', 45 if tier == 'quick' else 400)
    c2 = [dict(start='2021-01-01', days=d, coarse=c, pseed=rng.randint(0, 999)) for d in (2, 3) for c in ('4h', 'd')]
    b2 = run_cases(sc.check_coarse_asset, c2[:_n(tier, 3, 4)], 'SimpleContract with coarse freq vs fine LP with equalities', 'hourly grids of 2-3 days', 20)
    return dict(bounded=_merge(b1, b2))


@provider('C14', 'C04', 'C01')
def split(prop, tier, seed):
    rng = random.Random(seed)
    cases = [dict(hours=h, freq=f, interval='d', storage=st, orderbook=rng.choice([None, 'last', 'first']), pseed=rng.randint(0, 999))
             for (h, f) in ((48, 'h'), (49, 'h'), (55, 'h'), (52, '4h'), (24, 'h'), (30, 'h')) for st in (False, True)]
    rng.shuffle(cases)
    cases = [dict(hours=49, freq='h', interval='d', storage=False, orderbook='last', pseed=7), dict(hours=72, freq='4h', interval='d', storage=True, orderbook='first', pseed=8),
             dict(hours=48, freq='h', interval='d', storage=False, orderbook=None, plant=True, pseed=9),
             dict(hours=48, freq='h', interval='d', storage=False, orderbook=None, infeasible_interval=True, pseed=3),
             # grid in another main time unit, discounted assets (C12 for the split set-up)
             dict(hours=72, freq='h', interval='d', storage=False, orderbook=None, unit='d', wacc=0.5, pseed=11),
             dict(hours=60, freq='4h', interval='d', storage=True, orderbook=None, unit='d', wacc=0.3, pseed=12),
             # anchored interval size, horizon starting off the anchor (Wednesday, weeks start on Sunday) / on it
             dict(hours=240, freq='4h', interval='W', storage=False, orderbook=None, start='2021-01-06', pseed=13),
             dict(hours=336, freq='4h', interval='W', storage=True, orderbook=None, start='2021-01-03', pseed=14),
             # zone-aware grids over a daylight-saving switch, split by local days of 23 / 25 hours
             dict(hours=71, freq='h', interval='d', storage=False, orderbook=None, start='2021-03-27', tz='CET', pseed=15),
             dict(hours=73, freq='h', interval='d', storage=True, orderbook=None, start='2021-10-30', tz='CET', pseed=16)] + cases
    b = run_cases(sc.check_split, cases[:_n(tier, 17, 21)], 'split vs unsplit on a two-node portfolio (optionally with a storage, grid in main time unit h or d with discounting, with an order book as first / last asset, one order per day, with a plant whose fuel efficiency differs from day to day); horizons aligned / one step over / several steps over the interval size; value, balance, step numbering, DCF accounting of the split problem',
                  'horizons up to 72 h, interval d', 60 if tier == 'quick' else 300)
    b['failures'] = [f for f in b['failures'] if f['name'].startswith(prop) or f.get('error')]
    return dict(bounded=b)


@provider('C12')
def unit_invariance(prop, tier, seed):
    rng = random.Random(seed + 83)
    cases = []
    for _ in range(_n(tier, 14, 70)):
        kinds = rng.choice([['storage'], ['take'], ['plant'], ['duration'], ['storage', 'take'], ['plant', 'storage']])
        unit = rng.choice(['min', 'd'])
        cases.append(dict(T=rng.randint(6, 9), seed=rng.randint(0, 9999), kinds=kinds, unit=unit, wacc=rng.choice([0., .3]), dur=rng.choice([2, 3]) if unit == 'min' else 3))
    b1 = run_cases(sc.check_unit_portfolio, cases, 'the same physical portfolio (market + storage with inflow / holding cost / efficiency, contract with maximum take, plant with ramp / runtime / downtime / fuel, storage with maximum holding time) described in main time unit h and in min / d (rates x hours per unit, durations / hours per unit), with and without discounting: same optimal value',
                   'hourly grids of 6-9 steps', 80 if tier == 'quick' else 400)
    lc = [dict(T=rng.randint(6, 10), seed=rng.randint(0, 9999), back=rng.choice([0, 1, 2]), forward=rng.choice([0, 1, 2, 2]), unit=rng.choice(['min', 'min', 'd'])) for _ in range(_n(tier, 6, 30))]
    b2 = run_cases(sc.check_unit_linked, lc, 'LinkedAsset (main unit may run only while an auxiliary unit is on, looking 0-2 h back / forward) in main time unit h vs min / d: same value and volumes',
                   'hourly grids of 6-10 steps', 60 if tier == 'quick' else 300)
    return dict(bounded=_merge(b1, b2))


@provider('C15')
def fix_window(prop, tier, seed):
    rng = random.Random(seed)
    cases = []
    for T in (12, 18):
        for windows in ([(0, 5)], [(3, 7)], [(2, 5), (9, 12)], [(0, 2), (6, 8)]):
            for transport in (False, True):
                cases.append(dict(T=T, windows=windows, transport=transport, multistep=rng.random() < .6, eff=rng.choice([1., 0.9]), newprices=rng.random() < 0.5, pseed=rng.randint(0, 999)))
    rng.shuffle(cases)
    b1 = run_cases(sc.check_fix_window, cases[:_n(tier, 10, 16)], 'fix_time_window with prefix / interior / gapped index masks, with and without multi-row variables (transport) and variables spanning several steps (own coarser frequency, periodicity)',
                   'grids of 12-18 steps', 60 if tier == 'quick' else 300)
    scases = [dict(T=T, interval='d', window=w, wkind=k, transport=tr, eff=rng.choice([1., .9]), newprices=rng.random() < .5, pseed=rng.randint(0, 999))
              for T in (48, 60) for w in ((0, 30), (20, 40), (0, 12)) for k in ('mask', 'index', 'date') for tr in (False, True)]
    rng.shuffle(scases)
    b2 = run_cases(sc.check_fix_window_split, scases[:_n(tier, 8, 36)], 'fix_time_window handed to the split set-up (window as mask, index list or date; inside one interval or across the interval boundary), previous solution from the same split',
                   'hourly grids of 48-60 steps split by day', 60 if tier == 'quick' else 300)
    pc = []
    for _ in range(_n(tier, 16, 80)):
        T = rng.randint(5, 8)
        s0 = rng.choice([0, 2, 3])
        pc.append(dict(T=T, s0=s0, W=rng.randint(s0, T - 2), seed=rng.randint(0, 9999), order=rng.random() < .5, date=rng.random() < .3))
    b3 = run_cases(sc.check_fix_window_plant, pc, 'a plant with on / start binaries and its own start (0-3 steps after the grid start) selling into a market: first W+1 steps fixed (mask or date), new prices; optimum vs closed form (fixed part at the new prices + best on/off plan of the remaining steps by dynamic programming)',
                   'hourly grids of 5-8 steps', 60 if tier == 'quick' else 300)
    return dict(bounded=_merge(_merge(b1, b2), b3))


@provider('C18')
def nodal_prices(prop, tier, seed):
    rng = random.Random(seed)
    cases = [dict(T=T, windows=w, pseed=rng.randint(0, 999), probe=3) for T in (8, 12) for w in ([(1, 4), (6, 8)], [(0, 3), (5, 8)], [(0, 8)], [(2, 8)])]
    cases = cases[:2] + cases[4:6] + cases[2:4] + cases[6:]     # gapped activity first
    # discounted cash flows: daily steps, every asset with the same (large) wacc
    cases = cases[:3] + [dict(T=8, windows=[(0, 8)], pseed=rng.randint(0, 999), probe=3, step_hours=720, wacc=.5), dict(T=8, windows=[(1, 4), (6, 8)], pseed=rng.randint(0, 999), probe=3, step_hours=720, wacc=.25)] + cases[3:]
    return dict(bounded=run_cases(sc.check_nodal_price, cases[:_n(tier, 6, 10)], 'supergradient inequality V(d) <= V + price*d for injections +-0.5 at up to 3 active steps of a node with contiguous / gapped activity, without discounting (4 h steps) and with discounted cash flows (30-day steps, wacc 0.25-0.5 on every asset)',
                                  '4h grids of 8-12 steps', 60 if tier == 'quick' else 300))


@provider('C01')
def balance(prop, tier, seed):
    rng = random.Random(seed)
    cases = [dict(T=T, windows=w, storage=s, pseed=rng.randint(0, 999)) for T in (8, 10) for w in ([(0, 8)], [(0, 3), (5, 8)], [(1, 2), (4, 6)]) for s in (False, True)]
    rng.shuffle(cases)
    return dict(bounded=run_cases(sc.check_balance, cases[:_n(tier, 8, 12)], 'optimised two-node portfolios (market, transports with efficiency, loads, storage) with contiguous / gapped node activity: reported dispatch per node and step sums to zero',
                                  'hourly grids of 8-10 steps', 40 if tier == 'quick' else 200))


@provider('C06')
def unit_commitment(prop, tier, seed):
    rng = random.Random(seed)
    cases = []
    for T in (4, 5):
        for mr in (0, 2, 3):
            for md in (0, 2, 3):
                for (tar, tao) in ((0, 1), (1, 0), (2, 0), (0, 2), (3, 0)):     # (the constructor refuses 0/0: exactly one of the two is positive)
                    cases.append(dict(T=T, mr=mr, md=md, tar=tar, tao=tao))
    rng.shuffle(cases)
    # remaining minimum runtime / downtime longer than the horizon
    cases = [dict(T=4, mr=9, md=0, tar=2, tao=0), dict(T=4, mr=0, md=8, tar=0, tao=1)] + cases
    return dict(bounded=run_cases(sc.check_uc, cases[:_n(tier, 7, 42)], 'Plant on an hourly grid: ALL 2^T on/off patterns pinned in the real assembled MIP, feasibility (SCIP) vs reference predicate (runtime, downtime, initial state)',
                                  'T in {4,5}, min runtime/downtime in {0,2,3}, 5 initial states (running 1-3 / off 1-2 steps); quick: seeded sample of 6 parameter sets x 2^T patterns', 80 if tier == 'quick' else 900))


@provider('C16', 'C07', 'C04')
def scaled(prop, tier, seed):
    rng = random.Random(seed)
    cases = [dict(T=T, window=w, norm=S, scale=s, rate=r, base=rng.choice(['storage', 'must_take', 'load']), pseed=rng.randint(0, 999)) for T in (8,) for w in ((0, 8), (2, 6), (3, 8)) for S in (1., 4.)
             for s in (0.5, 1., 2.) for r in (0., 0.25)]
    rng.shuffle(cases)
    # a base asset with internal (non-dispatch) variables: a structured asset with an internal node
    cases = [dict(T=6, window=(0, 6), norm=1., scale=2., rate=.25, base='structured', pseed=5), dict(T=8, window=(2, 7), norm=4., scale=2., rate=0., base='structured', pseed=6),
             # base asset with a narrower window of its own than the scaled asset
             dict(T=8, window=(0, 8), base_window=(2, 6), norm=1., scale=2., rate=.25, base='must_take', pseed=7),
             dict(T=8, window=(1, 8), base_window=(3, 7), norm=4., scale=.5, rate=.5, base='storage', pseed=8),
             # base asset with a variable that has no mapping row (order book whose last order lies after the horizon)
             dict(T=6, window=(0, 6), norm=1., scale=2., rate=.25, base='orderbook', pseed=9), dict(T=8, window=(0, 8), norm=2., scale=1., rate=.5, base='orderbook', pseed=10)] + cases
    if prop != 'C16':
        cases = cases[:6] + cases[6:10]
    b = run_cases(sc.check_scaled, cases[:_n(tier, 16, 42)], 'ScaledAsset(Storage / must-take contract / fixed load / structured asset with an internal node / order book with an order after the horizon) held at a fixed scale vs the base asset with capacities x s/S less s x rate x active duration; windows at / after the grid start',
                                  'hourly grid of 8 steps', 50 if tier == 'quick' else 300)
    b['failures'] = [f for f in b['failures'] if f['name'].startswith(prop) or f.get('error')]
    return dict(bounded=b)


def replay(body):
    """./check --replay for scenario twins"""
    tw = body.get('twin') or {}
    fn = getattr(sc, tw.get('fn', ''), None)
    params = tw.get('params') or body.get('refute', {}).get('params')
    if fn is None or params is None:
        print('replay file carries no scenario')
        return 0
    fails = fn(params)
    for f in fails:
        print('FAILING', f['name'], '-', f['detail'])
    if not fails:
        print('scenario passes on this tree')
    return 1 if fails else 0


@provider('C10')
def histories(prop, tier, seed):
    rng = random.Random(seed)
    acts = ['portfolio', 'single', 'optimize', 'json']
    cases = []
    for _ in range(_n(tier, 14, 60)):
        L = rng.randint(1, 3)
        cases.append(dict(history=[(rng.choice(['G1', 'G2', 'G3']), rng.choice(acts)) for _ in range(L)], final=rng.choice(['G1', 'G2', 'G3']),
                          share_grid_objects=rng.random() < 0.6, hseed=rng.randint(0, 999)))
    return dict(bounded=run_cases(sc.check_history, cases, 'histories of length <= 3 over {portfolio set-up, single asset set-up, optimise+extract, to_json} x grids {naive hourly, CET hourly, 2h/main unit d} on a 5-asset portfolio with mixed waccs / windows / interval capacities; final problem compared with fresh objects',
                                  'history length <= 3, 3 grids', 70 if tier == 'quick' else 400))


@provider('C04')
def output_histories(prop, tier, seed):
    rng = random.Random(seed)
    cases = [dict(hseed=rng.randint(0, 999)) for _ in range(_n(tier, 4, 12))]
    return dict(bounded=run_cases(sc.check_output_history, cases, 'two portfolios sharing asset objects set up, optimised and extracted in an interleaved order: value = DCF total, per-asset DCF = -c.x of own variables',
                                  '5-6 assets, 24 steps', 50 if tier == 'quick' else 200))


@provider('C03')
def optimize_histories(prop, tier, seed):
    rng = random.Random(seed)
    cases = [dict(hseed=rng.randint(0, 999), soft_first=sf) for sf in (True, False, True) for _ in range(_n(tier, 1, 3))]
    return dict(bounded=run_cases(sc.check_optimize_history, cases, 'MIP storage portfolio optimised twice on the same problem object (first run relaxed or not): frame, second run = fresh run, flagged variables integral',
                                  '6 steps', 40 if tier == 'quick' else 120))


@provider('C08', 'C02')
def take_periods(prop, tier, seed):
    rng = random.Random(seed)
    cases = [dict(T=rng.randint(3, 7), nonuniform=rng.random() < 0.7, asset_start=rng.choice([0, 1, 2]), n_periods=rng.randint(1, 3), kind=rng.choice(['min', 'max']),
                  ec=rng.choice([0., 0.5]), seed=rng.randint(0, 9999), asset_start_before=rng.choice([0, 0, 3, 30]), asset_end_after=rng.choice([0, 0, 2, 40]))
             for _ in range(_n(tier, 60, 400))]
    b = run_cases(sc.check_take, cases, 'Contract with 1-3 min/max take periods placed before / inside / straddling / after the horizon, asset window starting at step 0-2 or before the horizon and ending with / after it, uniform and non-uniform step lengths, one and two variables per step: rows and prorated right-hand sides vs the statement',
                  'grids of 3-7 steps', 40 if tier == 'quick' else 200)
    b['failures'] = [f for f in b['failures'] if f['name'].startswith(prop) or f.get('error')]
    return dict(bounded=b)


@provider('C20')
def order_zones(prop, tier, seed):
    rng = random.Random(seed + 83)
    cases = [dict(tz=tz, start=st, hours=30, windows=[(2, 5), (4, 9), (20, 30)], given=g, form=f)
             for tz in ('CET', 'US/Eastern', None) for st in ('2021-03-27', '2021-07-01') for g in (('naive',) if tz is None else ('naive', 'same', 'UTC', 'Asia/Tokyo')) for f in ('dict', 'frame', 'arrays')]
    rng.shuffle(cases)
    return dict(bounded=run_cases(sc.check_order_zones, cases[:_n(tier, 24, 60)], 'order windows given as naive dates / zone-aware instants in the grid zone or another zone, as dictionary of lists, of arrays, or as DataFrame, on naive / CET / US-Eastern grids incl. a DST switch: every order is delivered exactly in the steps of its window',
                                  'hourly grids of 30 steps, 3 orders', 30 if tier == 'quick' else 90))


@provider('C08', 'C19')
def window_zones(prop, tier, seed):
    rng = random.Random(seed + 61)
    cases = [dict(tz=tz, start=st, hours=48, window=w, given=g, py=rng.random() < .5)
             for tz in ('CET', 'UTC', 'US/Eastern') for st in ('2021-03-27', '2021-07-01') for w in ((3, 20), (10, 40)) for g in ('naive', 'same', 'UTC', 'Asia/Tokyo')]
    rng.shuffle(cases)
    # window edges between two grid points (also on a naive grid)
    cases = [dict(tz=None, start='2021-01-01', hours=24, window=(3, 9), given='naive', py=False, offgrid=True),
             dict(tz='CET', start='2021-07-01', hours=24, window=(0, 5), given='same', py=True, offgrid=True),
             dict(tz='CET', start='2021-03-27', hours=48, window=(20, 30), given='UTC', py=False, offgrid=True)] + cases
    b = run_cases(sc.check_window_zones, cases[:_n(tier, 16, 48)] if prop == 'C08' else cases[:6], 'asset windows given as naive dates, as zone-aware instants in the grid zone and in other zones (UTC, Asia/Tokyo) on CET / UTC / US-Eastern grids incl. a DST switch, window edges on and between grid points: dispatched exactly in the steps whose point lies in [start, end)',
                  '24-48 h hourly grids', 30 if tier == 'quick' else 90)
    b['failures'] = [f for f in b['failures'] if f['name'].startswith(prop) or f.get('error')]
    return dict(bounded=b)


@provider('C08')
def coarse_beyond(prop, tier, seed):
    return dict(bounded=run_cases(sc.check_coarse_beyond_horizon, [dict(freq='d', days_beyond=2), dict(freq='4h', days_beyond=1)],
                                  'coarse-frequency asset whose window ends after the horizon', '2 cases', 10))


@provider('C01', 'C04', 'C05', 'C18', 'C20')
def output_contract(prop, tier, seed):
    rng = random.Random(seed + 17)
    cases = [dict(T=rng.randint(3, 6), seed=rng.randint(0, 99999)) for _ in range(_n(tier, 30, 200))]
    b = run_cases(sc.check_extract_output, cases, 'run-time contract of io.extract_output on random portfolios (2-5 assets from 10 kinds incl. two-node storage, MIP storage, plant, order book, scaled, multi-commodity; random order and windows) with ARBITRARY result vectors and duals: every output table equals the stated function of (mapping, x, duals)',
                  'grids of 3-6 steps', 40 if tier == 'quick' else 240)
    b['failures'] = [f for f in b['failures'] if f['name'].startswith(prop) or f.get('error')]
    return dict(bounded=b)


@provider('C17')
def stochastic(prop, tier, seed):
    rng = random.Random(seed + 5)
    cases = []
    for _ in range(_n(tier, 8, 40)):
        T = rng.randint(4, 8)
        cases.append(dict(T=T, k=rng.randint(1, T - 1), S=rng.randint(1, 3), transport=rng.random() < .5, internal=rng.random() < .5, identical=rng.random() < .25, seed=rng.randint(0, 99999)))
    for j in range(_n(tier, 3, 12)):
        # unit commitment next to multi-row variables (the boolean flags of the extended problem must stay on the plant's variables)
        T = rng.randint(4, 6)
        cases.append(dict(T=T, k=rng.randint(1, T - 1), S=rng.randint(1, 2), transport=j % 3 != 2, plant=True, internal=False, identical=j % 2 == 0, seed=rng.randint(0, 99999)))
    # storages with binary variables (no simultaneous charge / discharge, maximum holding duration)
    cases.insert(2, dict(T=5, k=2, S=2, transport=False, internal=False, identical=False, nosimult=True, seed=rng.randint(0, 99999)))
    cases.insert(5, dict(T=6, k=3, S=1, transport=True, internal=False, identical=True, max_dur=3., seed=rng.randint(0, 99999)))
    b1 = run_cases(sc.check_slp, cases, 'make_slp on storage portfolios (optionally with a multi-row transport, with a unit-commitment plant (booleans) and with a structured asset whose internal variables are not of dispatch type) with 1-3 sampled futures sharing the present prices: block structure, cost scaling, EEV <= V_slp <= mean of scenario optima, = deterministic optimum for identical scenarios',
                   'hourly grids of 4-8 steps, present/future boundary anywhere', 50 if tier == 'quick' else 300)
    b2 = run_cases(sc.check_robust, cases[:_n(tier, 6, 30)], 'robust target over the cost vectors of 2-4 scenarios: worst case of the robust solution vs single-scenario solutions and vs the smallest scenario optimum',
                   'same portfolios', 30 if tier == 'quick' else 200)
    return dict(bounded=_merge(b1, b2))


@provider('C16', 'C18', 'C10', 'C01')
def structured(prop, tier, seed):
    rng = random.Random(seed + 23)
    cases = []
    for _ in range(_n(tier, 8, 40)):
        T = rng.randint(4, 7)
        cases.append(dict(T=T, seed=rng.randint(0, 9999), struct_first=rng.random() < .5, window=rng.choice([(None, None), (None, None), (2, T), (0, T - 1)])))
    b = run_cases(sc.check_structured, cases, 'StructuredAsset wrapping [source, storage, pipe] + outer assets vs the flat portfolio: value, balance at the external nodes in the reported dispatch, supergradient property of the reported nodal prices, wrapped objects unchanged by the set-up (windows on the structured asset)',
                  'hourly grids of 4-7 steps', 40 if tier == 'quick' else 240)
    b['failures'] = [f for f in b['failures'] if f['name'].startswith(prop) or f.get('error')]
    return dict(bounded=b)


D30_CASE = dict(T=8, seed=1853, window=(1, 7), eff=0.9, start_level=1.0, end_level=0.0, inflow=0.0, cost_in=0.0, no_simult=False, max_dur=None,
                block='2h', two_nodes=False, order=False, d30=True)


@provider('C05')
def storage_physics(prop, tier, seed):
    rng = random.Random(seed + 31)
    cases = [dict(D30_CASE)]
    import itertools
    grid = list(itertools.product((False, True), (False, True), (1., .9), (0., .1)))      # two nodes x no-simultaneous x efficiency x charging cost
    rng.shuffle(grid)
    for rep in range(_n(tier, 4, 25)):
        for (two, nosim, eff, ci) in grid:
            T = rng.randint(4, 8)
            a = rng.choice([0, 0, 1])
            b = rng.choice([T, T, T - 1])
            case = dict(T=T, seed=rng.randint(0, 9999), window=(a, b), eff=eff, start_level=rng.choice([0., 1.]), inflow=rng.choice([0., 0., .2]),
                        cost_in=ci, no_simult=nosim, max_dur=rng.choice([None, None, None, 2.]), block=rng.choice([None, None, '2h', '3h']),
                        two_nodes=two, order=rng.random() < .5)
            case['end_level'] = case['start_level'] if rng.random() < .6 else 0.
            if case['block'] and case['end_level'] != case['start_level'] and (b - a) % int(case['block'][0]) == 0:
                # the family of known finding D30 (window end on a block boundary, start level != end level) is represented by D30_CASE only
                case['end_level'] = case['start_level']
            cases.append(case)
    # steps of different length (calendar months in unit 'd', local days over the DST switch in unit 'h'): rates and the maximum holding
    # duration follow the elapsed time
    nonuni = []
    for rep in range(_n(tier, 5, 16)):
        kind = 'MS' if rep % 2 == 0 else 'dst'
        T = rng.randint(5, 8) if kind == 'MS' else rng.randint(4, 6)
        nonuni.append(dict(T=T, seed=rng.randint(0, 9999), grid=kind, grid_start=rng.choice(['2021-02-01', '2021-01-01', '2021-06-01']) if kind == 'MS' else rng.choice(['2021-03-26', '2021-10-29']),
                           size=200. if kind == 'MS' else 100., cap_in=rng.choice([1., 5.]), cap_out=rng.choice([1.5, 5.]), eff=rng.choice([1., .9]),
                           max_dur=(rng.choice([59., 62., 84., 92.]) if kind == 'MS' else rng.choice([47., 48., 71., 72.])) if rep % 4 != 3 else None, start_level=0., end_level=0.,
                           inflow=rng.choice([0., 0., .05]) if rep % 4 == 3 else 0., order=rng.random() < .5, price_trend=rep % 4 != 3 and rng.random() < .8, jump=rng.randint(2, T - 2)))
    # boundary cases of the holding duration: exactly k steps from step i may be held (i, k over a short step followed by longer ones and
    # the other way round)
    hold = []
    for j in range(_n(tier, 10, 40)):
        kind = 'MS' if j % 3 != 2 else 'dst'
        T = 8 if kind == 'MS' else 7
        hold.append(dict(T=T, seed=j, grid=kind, grid_start=rng.choice(['2021-02-01', '2021-01-01', '2021-04-01']) if kind == 'MS' else rng.choice(['2021-03-27', '2021-10-30', '2021-03-28']),
                         size=1000., cap_in=5., cap_out=5., eff=rng.choice([1., .9]), start_level=0., end_level=0., hold_from=rng.randint(0, 2),
                         md_factor=rng.choice([2., 3., 2., 3., 2.05, 3.1, 1.5, 2.6])))      # mostly a whole number of steps of the first step's length
    rng.shuffle(hold)
    cases = cases[:1] + hold[:_n(tier, 10, 40)] + nonuni[:2] + cases[1:max(2, len(cases) - len(nonuni) - 10)] + nonuni[2:]
    return dict(bounded=run_cases(sc.check_storage_physics, cases, 'optimised storage portfolios (one/two nodes, efficiency, start/end level, inflow, charging cost, no-simultaneous option, maximum holding duration, time blocks of 2-3 h, windows, asset order): physical level within [0, size] and at the end level at the end of every block, rates within rate x step length, reported fill level = physical level, holding duration respected',
                                  'hourly grids of 4-8 steps', 60 if tier == 'quick' else 400))


@provider('C06')
def chp_ramp_profiles(prop, tier, seed):
    rng = random.Random(seed + 47)
    cases = []
    for _ in range(_n(tier, 30, 200)):
        prof = rng.choice([[2., 4.], [1., 2., 3.], [3.]])
        L = len(prof)
        tar = max(0, rng.choice([0, 1, L - 1, L, L, L + 1]))
        last = prof[tar - 1] if 0 < tar <= L else (rng.choice([4., 6.]) if tar > L else 0.)
        cases.append(dict(T=rng.randint(4, 7), seed=rng.randint(0, 9999), profile=prof, min_cap=4., max_cap=rng.choice([10., 20.]), ramp=rng.choice([2., 3.]), tar=tar, last=last,
                          order=rng.random() < .5, shutdown=rng.choice([None, None, [3., 2.]]), slack=rng.choice([0., 0., .5])))
    # switched off at a given step (the last one, the one before, in the middle) with a shutdown profile, running long before the horizon
    offs = [dict(T=T, seed=7, profile=[3.], min_cap=4., max_cap=10., ramp=10., tar=6, last=8., order=o, shutdown=sdp, slack=0., off_at=T - k)
            for (T, k, sdp, o) in ((5, 1, [3., 2.], False), (6, 1, [1., 2., 3.], True), (6, 2, [3., 2.], False), (7, 3, [2.], True), (4, 1, [2.], False))]
    cases = offs[:_n(tier, 3, 5)] + cases
    return dict(bounded=run_cases(sc.check_chp_ramp_profiles, cases, 'optimised Plant with a start ramp profile (1-3 steps, exact or with slack), optionally a shutdown profile, an ordinary ramp and a declared initial state (off / inside the profile / profile just completed / running longer): profile followed after every start, capacity band and ramp afterwards incl. the first step relative to the last dispatch, no output when off',
                                  'hourly grids of 4-7 steps', 60 if tier == 'quick' else 400))


@provider('C06')
def chp_physics(prop, tier, seed):
    rng = random.Random(seed + 41)
    cases = []
    for _ in range(_n(tier, 40, 300)):
        T = rng.randint(4, 7)
        tar = rng.choice([0, 0, 1, 2])
        tao = 0 if tar else rng.choice([1, 2])
        cases.append(dict(T=T, seed=rng.randint(0, 9999), ramp=rng.choice([None, 1.5, 2.]), mr=rng.choice([0, 2, 3]), md=rng.choice([0, 2]), tar=tar, tao=tao,
                          last=(rng.choice([1., 2., 3.]) if tar else 0.), order=rng.random() < .5, heat=rng.choice([.5, 1.]), conv_series=rng.random() < .3, fuel_only=rng.random() < .3))
    return dict(bounded=run_cases(sc.check_chp_physics, cases, 'optimised CHP (power, heat, fuel nodes; ramp, runtime/downtime, initial state, last dispatch, start fuel, running consumption, heat share) in a 5-asset portfolio with positive/negative power prices: every clause of the statement evaluated on the MIP solution and on the reported fuel dispatch',
                                  'hourly grids of 4-7 steps', 40 if tier == 'quick' else 300))


@provider('C02')
def reference_lp(prop, tier, seed):
    rng = random.Random(seed + 53)
    cases = [dict(T=rng.randint(3, 6), seed=rng.randint(0, 99999), dst=rng.random() < .4) for _ in range(_n(tier, 60, 500))]
    return dict(bounded=run_cases(sc.check_reference_lp, cases, 'random portfolios of 3-6 assets (market, contract with spread, transport with efficiency and per-flow costs, one/two-node storage with efficiency, levels, inflow, in/out costs, multi-commodity contract, load; windows; waccs 0-0.5) on 6h grids and on daily CET grids over the DST switch (23/24 h steps): optimum = optimum of an independent scipy/HiGHS LP written from the statement; EAO dispatch feasible and optimal there',
                                  'grids of 3-6 steps', 50 if tier == 'quick' else 400))


@provider('C19', 'C10')
def prices_cast(prop, tier, seed):
    rng = random.Random(seed + 59)
    cases = [dict(seed=rng.randint(0, 9999), start=rng.choice(['2021-01-01', '2021-03-27', '2021-10-30']), hours=rng.choice([5, 24, 49]), freq=rng.choice(['h', '4h', '15min']),
                  tz=rng.choice([None, 'CET', 'US/Eastern'])) for _ in range(_n(tier, 16, 80))]
    b = run_cases(sc.check_prices_to_grid, cases, 'prices_to_grid on real grids (naive / CET / US-Eastern, over DST switches): arrays pass through unchanged, frames on the grid index are re-ordered to the grid, values at other points interpolated in time',
                  'horizons of 5-49 h', 20)
    b['failures'] = [f for f in b['failures'] if f['name'].startswith(prop) or f.get('error')]
    return dict(bounded=b)


@provider('C09')
def permutations(prop, tier, seed):
    rng = random.Random(seed + 61)
    cases = [dict(T=rng.choice([4, 6, 8]), seed=rng.randint(0, 99999), trials=3) for _ in range(_n(tier, 12, 80))]
    return dict(bounded=run_cases(sc.check_permutation, cases, 'random portfolios of 4-7 assets (incl. two assets with their own coarser frequency, the same window and different waccs; order book; transport) built from fresh objects under 3 random permutations x naming schemes (descriptive / numeric with prefixes 1, 22, 333 / a, a_a, a_a_a; nodes 1 and 11): same optimal value',
                                  'hourly grids of 4-8 steps', 50 if tier == 'quick' else 300))


@provider('C13', 'C07')
def periodic_kinds(prop, tier, seed):
    rng = random.Random(seed + 67)
    cases = [dict(kind=k, duration=d, freq=f, days=days, first=rng.random() < .5, seed=rng.randint(0, 9999))
             for k in ('simple', 'spread', 'transport', 'multi') for d in (None, '2d') for (f, days) in (('6h', 4), ('4h', 5))]
    rng.shuffle(cases)
    # limits varying from step to step on one side / both sides (one and two variables per step)
    vary = [dict(kind=k, duration=d, freq='6h', days=4, first=True, seed=rng.randint(0, 9999), vary=v) for (k, d, v) in
            (('simple', None, 'min'), ('spread', '2d', 'max'), ('simple', '2d', 'both'), ('spread', None, 'min'), ('simple', None, 'max'))]
    cases = vary[:_n(tier, 3, 5)] + cases
    b = run_cases(sc.check_periodic_kinds, cases[:_n(tier, 14, 21)], 'periodic assets of four kinds (one / two variables per step, one / several mapping rows per variable) x with / without periodicity_duration 2d x grids 6h/4d, 4h/5d (partial last duration): well-formed problem stand-alone and in a portfolio; optimum = non-periodic portfolio + equalities (scipy/HiGHS); reported dispatch repeats',
                  'grids of 16-30 steps', 50 if tier == 'quick' else 200)
    b['failures'] = [f for f in b['failures'] if f['name'].startswith(prop) or f.get('error')]
    return dict(bounded=b)


@provider('C13')
def coarse_kinds(prop, tier, seed):
    rng = random.Random(seed + 71)
    cases = [dict(kind=k, first=rng.random() < .5, seed=rng.randint(0, 9999), **c) for k in ('simple', 'spread', 'transport', 'multi')
             for c in (dict(hours=24, coarse='4h'), dict(hours=30, coarse='6h'), dict(dst=True, hours=0, coarse='W'))]
    rng.shuffle(cases)
    # discounting inside a coarse interval: known finding D27 (one deterministic case)
    cases = [dict(kind='simple', first=True, seed=5, hours=48, coarse='d', wacc=.8, d27=True),
             # take limits over a window aligned with the coarse steps (define_restr on the coarse grid)
             dict(kind='take', first=True, seed=21, hours=24, coarse='6h', take_window=(6, 18), take=8.),
             dict(kind='take', first=False, seed=22, hours=48, coarse='d', take_window=(0, 24), take=20.)] + cases
    return dict(bounded=run_cases(sc.check_coarse_kinds, cases[:_n(tier, 15, 15)], 'assets of five kinds (incl. a contract with minimum / maximum take over a window) on a coarser frequency than the portfolio (4h / 6h on hourly grids incl. a partial last interval; weekly on a daily CET grid over the DST switch): set-up succeeds, well-formed, constant rate within each coarse interval, transport efficiency per fine step, optimum = fine portfolio + equalities (uniform grids)',
                                  'grids of 14-30 steps', 50 if tier == 'quick' else 200))


@provider('C03')
def optimize_random(prop, tier, seed):
    rng = random.Random(seed + 73)
    cases = [dict(seed=rng.randint(0, 999999), mip=rng.random() < .4, all_fixed=rng.random() < .15, shuffle=rng.random() < .5) for _ in range(_n(tier, 80, 600))]
    for c in cases:
        if not c['all_fixed'] and rng.random() < .3:
            c['inf'] = True
    # problems in which integrality matters (unit boxes, fractional knapsack rows), mapping rows shuffled or variables without any row
    focus = [dict(seed=rng.randint(0, 999999), mip=True, all_fixed=False, frac=True, shuffle=j % 2 == 0, unmapped=j % 3 != 0) for j in range(_n(tier, 40, 200))]
    cases = [dict(seed=1, mip=False, all_fixed=False, unbounded=True)] + focus[:len(focus) // 2] + cases + focus[len(focus) // 2:]
    return dict(bounded=run_cases(sc.check_optimize_random, cases, 'random small problems handed to OptimProblem.optimize (1-5 variables, 0-4 rows of random types U/L/S/N, duplicated / shuffled mapping rows, variables without a mapping row, knapsack rows with fractional right-hand sides over unit boxes, boolean flags on variables with bounds other than 0/1, all variables fixed, one-sided variables with an infinite bound): feasibility, row satisfaction by type, boolean flags, value = -c.x, optimality and failure <=> infeasible against scipy milp',
                                  '<= 5 variables, <= 4 rows', 60 if tier == 'quick' else 400))


@provider('C08')
def outside_inert(prop, tier, seed):
    rng = random.Random(seed + 79)
    cases = [dict(kind=k, where=w, seed=rng.randint(0, 9999)) for k in ('simple', 'contract_take', 'transport', 'ext_transport', 'storage', 'chp', 'plant', 'multi', 'scaled', 'orderbook')
             for w in ('after', 'before')]
    return dict(bounded=run_cases(sc.check_outside_inert, cases, 'an asset of each of ten kinds placed entirely before / after the horizon in a 5-asset portfolio: same optimal value as without it, no reported dispatch, output extractable',
                                  '6 hourly steps', 40 if tier == 'quick' else 120))


@provider('C07')
def wf_kinds(prop, tier, seed):
    rng = random.Random(seed + 83)
    cases = [dict(T=rng.randint(3, 6), seed=rng.randint(0, 99999), trigger=t, plant=p) for t in ('start_fuel', 'consumption', 'start_costs', 'downtime') for p in (True, False)
             for _ in range(_n(tier, 2, 8))]
    return dict(bounded=run_cases(sc.check_wf_kinds, cases, 'random portfolios (2-5 assets of 10 kinds) plus a plant / CHP whose binaries are triggered by exactly one option (start fuel, running consumption, start costs, minimum downtime): well-formedness of every stand-alone problem and of the assembled one; each asset’s costs and bounds at its own variables',
                                  'grids of 3-6 steps', 40 if tier == 'quick' else 200))
