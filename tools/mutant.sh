#!/usr/bin/env bash
# developer tool: tools/mutant.sh <name> <file> <line> <sed-expr> -- <check args>   (scratch copy under /tmp, removed afterwards)
set -e
name=$1; file=$2; line=$3; expr=$4; shift 5
d=/tmp/pyvc_mut_$name; rm -rf $d; mkdir -p $d; cp -r /repo/eaopack $d/
sed -i "${line}${expr}" $d/eaopack/$file
diff <(sed -n "${line}p" /repo/eaopack/$file) <(sed -n "${line}p" $d/eaopack/$file) || true
PYVC_REPO=$d /verif/check "$@" 2>&1 | grep -E "VIOLATION|UNDECIDED|CHECKER|exit=" | sed 's#/verif/replays/##' | cut -c1-230 | head -8
rm -rf $d
