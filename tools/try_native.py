"""developer tool: run the run-time twin of one contract on random instances"""
import sys, os, importlib, random
sys.path.insert(0, os.path.dirname(os.path.dirname(os.path.abspath(__file__))))
sys.path.insert(0, os.environ.get('PYVC_REPO', '/repo'))
from pyvc import refute, engine
import contracts.common as cc
importlib.import_module('contracts.' + sys.argv[1])
flt = sys.argv[2] if len(sys.argv) > 2 else ''
n = int(sys.argv[3]) if len(sys.argv) > 3 else 40
for c in cc.REGISTRY:
    if flt and flt not in c.qualname: continue
    for case in c.cases():
        fails, ev, outc = {}, 0, {}
        for P, nat in refute.random_natives(c, case, n=n, seed=3):
            ev += 1
            outc[nat['outcome'][:40]] = outc.get(nat['outcome'][:40], 0) + 1
            for k, v in nat['posts'].items():
                if v is not True:
                    fails.setdefault(k, (v, P))
        print('==', c.qualname, engine.case_id(case), 'evaluations', ev, outc)
        for k, (v, P) in fails.items():
            print('   ', k, str(v)[:300])
