#!/usr/bin/env python3
"""Regenerates /verif/MANIFEST.json from the table below (kept valid against /root/.vp/MANIFEST.schema.json)."""
import json, os
ROOT = os.path.dirname(os.path.dirname(os.path.abspath(__file__)))

BASELINE = "cd /repo && /venv/bin/python -m pytest -ra -q -p no:cacheprovider --timeout=900 --continue-on-collection-errors"

# property -> dict(category, text, note, technique, design_ref)   (filled in as checks come on line)
CLAIMS = {}
WIP = "machinery for this property is still under construction in this session; not claimed yet"
NOT_APPLICABLE = {f"C{k:02d}": WIP for k in range(1, 21)}

try:
    from manifest_table import CLAIMS as _C, NOT_APPLICABLE as _N   # optional override module
    CLAIMS, NOT_APPLICABLE = _C, _N
except ImportError:
    pass

m = {
    "version": 1,
    "setup_cmd": "./tools/setup.sh",
    "hooks": {
        "guard": "EAO_VERIF",
        "enable": "none needed: contracts are sidecar files under /verif/contracts keyed by qualified name; run-time twins monkey-patch nothing in /repo",
        "baseline_off_cmd": BASELINE,
        "source_commits": [],
        "add_only": True,
    },
    "engines": [
        {"name": "pyvc", "path": "pyvc/", "serves_properties": sorted(CLAIMS),
         "kind_free_text": "own VC generator: symbolic execution of the real eaopack source (ast, re-read every run) against sidecar contracts; explicit quantifier instantiation; z3 5.1 + cvc5; bounded-expansion counter-models replayed natively on the real code"},
    ],
    "checks": [],
    "not_applicable": [{"property_id": p, "reason": r} for p, r in sorted(NOT_APPLICABLE.items()) if p not in CLAIMS],
    "notes": "see DESIGN.md; exit codes 0 held / 1 violation / 2 undecided / 3 checker error",
}
for p, c in sorted(CLAIMS.items()):
    m["checks"].append({
        "property_id": p,
        "quick_cmd": f"./check {p} --tier quick",
        "thorough_cmd": f"./check {p} --tier thorough",
        "evidence_file": f"evidence/{p}.json",
        "replay_cmd_template": "./check --replay {path}",
        "engine": "pyvc",
        "level_claimed": {"category": c["category"], "text": c["text"], "design_ref": c.get("design_ref", "DESIGN.md section 5")},
        "level_note": c["note"],
        "technique": c.get("technique", "contract-based deductive verification: VCs generated from the real source, discharged by z3/cvc5"),
    })
with open(os.path.join(ROOT, "MANIFEST.json"), "w") as f:
    json.dump(m, f, indent=1)
print("MANIFEST.json written:", len(m["checks"]), "checks,", len(m["not_applicable"]), "not applicable")
