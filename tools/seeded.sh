#!/usr/bin/env bash
# developer tool: tools/seeded.sh <patch.diff> <check args...>  : run checks against a scratch copy of /repo with the patch applied
patch=$1; shift
d=$(mktemp -d /tmp/pyvc_seed_XXXX); cp -r /repo/eaopack $d/
if ! (cd $d && patch -p1 -s --no-backup-if-mismatch < $patch); then echo "PATCH DOES NOT APPLY to the current /repo tree: $patch"; rm -rf $d; exit 3; fi
for p in "$@"; do
  r=$(PYVC_REPO=$d /verif/check $p 2>&1)
  echo "$r" | grep -E "VIOLATION|CHECKER|Traceback" | sed 's#/verif/replays/##' | cut -c1-200 | head -5
  echo "$r" | grep -E "exit=" | tail -1
done
rm -rf $d
