#!/usr/bin/env bash
# developer tool: tools/seeded.sh <patch.diff> <check args...>  : run checks against a scratch copy of /repo with the patch applied
set -e
patch=$1; shift
d=$(mktemp -d /tmp/pyvc_seed_XXXX); cp -r /repo/eaopack $d/; (cd $d && patch -p1 -s < $patch)
for p in "$@"; do PYVC_REPO=$d /verif/check $p 2>&1 | grep -E "VIOLATION|UNDECIDED|CHECKER|exit=" | sed 's#/verif/replays/##' | cut -c1-200 | head -6; done
rm -rf $d
