#!/usr/bin/env bash
# Build the overlay interpreter /verif/.venv (python 3.12 of /venv + solvers from the offline
# wheelhouse). Idempotent; offline; nothing outside /verif is written.
set -euo pipefail
HERE="$(cd "$(dirname "${BASH_SOURCE[0]}")/.." && pwd)"
VENV="$HERE/.venv"
STAMP="$VENV/.ok"
if [ -f "$STAMP" ] && "$VENV/bin/python" -c "import z3, cvc5, jsonschema, numpy, pandas, scipy, cvxpy" 2>/dev/null; then
  exit 0
fi
rm -rf "$VENV"
/venv/bin/python -m venv "$VENV"
SP="$("$VENV/bin/python" -c 'import sysconfig; print(sysconfig.get_paths()["purelib"])')"
echo "import site; site.addsitedir('/venv/lib/python3.12/site-packages')" > "$SP/zz_repo_deps.pth"
PIP_NO_INDEX=1 "$VENV/bin/python" -m pip install --quiet --no-index --find-links /opt/veriftools/wheels \
    z3-solver cvc5 jsonschema icontract deal crosshair-tool >/dev/null
"$VENV/bin/python" -c "import z3, cvc5, jsonschema, icontract, numpy, pandas, scipy, cvxpy; print('overlay venv ok: z3', z3.get_version_string())"
touch "$STAMP"
