"""claims table read by tools/gen_manifest.py"""
import sys, os
sys.path.insert(0, os.path.dirname(os.path.dirname(os.path.abspath(__file__))))
TECH = "contract-based deductive verification: VCs generated from the real eaopack source against sidecar contracts, discharged by z3/cvc5; counter-models replayed on the real code"
NOTE = "trusted: pyvc (own VC generator), z3 5.1 / cvc5; assumed: numpy/scipy/pandas primitive axioms (A2), real arithmetic (A3), pandas calendar (A4), LP meta-theorems (A6), external solver (A1) -- listed per property in the evidence file"

def claim(cat, text):
    return dict(category=cat, text=text, note=NOTE, technique=TECH, design_ref="DESIGN.md sections 2, 5 and 11")

CLAIMS = {
 'C02': claim('proof', "LP data of contracts, transports, storages and the discount formula proved pointwise for all grid lengths and parameter values from the real source; take rows and multi-commodity not yet under contract; equality of optima rests on un-mechanised LP meta-theorems"),
 'C03': claim('proof', "the cvxpy problem handed to the solver is proved to be the assembled problem for every mix of row classes; solver optimality is assumed (external)"),
 'C04': claim('proof', "Asset.dcf proved equal to minus cost times value of the asset's variables, once per variable, for all mappings satisfying the mapping well-formedness proved by the assembly contract"),
 'C05': claim('proof', "Storage level rows, rates, no-simultaneous option and the reported fill level (incl. inflow) proved for all sizes and parameters; blocks, holding duration and io series not under contract"),
 'C07': claim('proof', "mapping well-formedness of four asset classes and the portfolio assembly (index offsets, vectors, row embedding, nodal block) proved; number of assets bounded by the harness (1-3)"),
 'C19': claim('proof', "root and same-frequency restricted time grids proved well formed under the pandas date_range axioms"),
 'C20': claim('proof', "order book LP data and mapping rows proved for a symbolic number of orders"),
}
WIP = "not claimed in this snapshot: contracts for this property are partial or still under construction"
NOT_APPLICABLE = {f"C{k:02d}": WIP for k in range(1, 21) if f"C{k:02d}" not in CLAIMS}
