#!/usr/bin/env bash
# tools/accept_lean.sh : run Lean on every lemmas/lean/*.lean and record the sha256 of the accepted files
cd /verif/lemmas/lean || exit 3
out="{"; sep=""
for f in *.lean; do
  if lean "$f" 2>&1 | grep -E "error|sorry" ; then echo "NOT ACCEPTED: $f"; exit 1; fi
  out="$out$sep\"$f\": \"$(sha256sum "$f" | cut -d' ' -f1)\""; sep=", "
done
echo "$out, \"lean\": \"$(lean --version | head -1)\"}" > ACCEPTED.json; cat ACCEPTED.json
