"""developer tool: run one contract and print every obligation verdict"""
import sys, time, importlib, os
sys.path.insert(0, os.path.dirname(os.path.dirname(os.path.abspath(__file__))))
from pyvc import engine
from pyvc.interp import Repo
import contracts.common as cc

mods = sys.argv[1].split(',')
for m in mods:
    importlib.import_module('contracts.' + m)
flt = sys.argv[2] if len(sys.argv) > 2 else ''
import os
repo = Repo(os.environ.get('PYVC_REPO','/repo'))
t0 = time.time()
allobs = []
for c in cc.REGISTRY:
    if flt and flt not in c.qualname: continue
    for case in c.cases():
        try:
            obs, info = engine.obligations_for(repo, c, case)
        except Exception as e:
            import traceback; traceback.print_exc(); print('CASE FAILED', c.qualname, case); continue
        print(f'== {c.qualname} {engine.case_id(case)}: paths={info["paths"]} outcomes={info["outcomes"]} obligations={len(obs)}')
        hv = sorted(set(info['havocs']), key=lambda x: (x[0] or 0))
        if hv: print('   havocs:', hv[:12])
        allobs += obs
print('generation', round(time.time()-t0,1), 's; obligations', len(allobs))
t0 = time.time()
engine.discharge(allobs)
print('solving', round(time.time()-t0,1), 's')
from collections import Counter
print(Counter(o.verdict for o in allobs))
for o in allobs:
    if o.verdict != 'DISCHARGED':
        print(o.verdict, o.ident(), o.kind, 'line', o.line, '|', o.undecided or '', (o.model_text or '')[:0])
