#!/usr/bin/env bash
# tools/confirm_seeded.sh <src dir with patch.diff demo.py notes.md> <seed id>
# confirms a candidate breaking change in a scratch worktree of /repo (removed afterwards) and stores it under /verif/seeded/<id>/
src=$1; id=$2
wt=$(mktemp -d /tmp/confirm_XXXX); rmdir $wt
git -C /repo worktree add -q --detach $wt HEAD || exit 3
res=/verif/seeded/$id; mkdir -p $res
base_demo=$( /venv/bin/python $src/demo.py $wt >/dev/null 2>&1; echo $? )
( cd $wt && git apply $src/patch.diff ) || { echo "patch does not apply"; git -C /repo worktree remove --force $wt; exit 3; }
tests=$( cd $wt && timeout 1500 /venv/bin/python -m pytest -q -p no:cacheprovider --timeout=900 2>&1 | grep -E "passed|failed|error" | tail -1 )
mut_demo=$( /venv/bin/python $src/demo.py $wt >/dev/null 2>&1; echo $? )
git -C /repo worktree remove --force $wt
cp $src/patch.diff $src/demo.py $res/; cp $src/notes.md $res/notes.md 2>/dev/null
echo "$id base_demo_exit=$base_demo mutated_demo_exit=$mut_demo tests='$tests'" | tee $res/confirm.txt
