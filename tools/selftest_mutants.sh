#!/usr/bin/env bash
# developer self-test: apply each mutation of tools/mutants.tsv to a scratch copy of /repo/eaopack (removed afterwards) and run the property's quick check
grep -v "^#" /verif/tools/mutants.tsv | while IFS=$'\t' read -r file expr prop what; do
  d=$(mktemp -d /tmp/pyvc_self_XXXX); cp -r /repo/eaopack $d/
  before=$(md5sum $d/eaopack/$file | cut -d' ' -f1); sed -i "0,/x^/! b; $expr" $d/eaopack/$file 2>/dev/null; sed -i "$expr" $d/eaopack/$file
  after=$(md5sum $d/eaopack/$file | cut -d' ' -f1)
  if [ "$before" = "$after" ]; then echo "NOT-APPLIED | $prop | $what"; rm -rf $d; continue; fi
  r=$(PYVC_REPO=$d /verif/check $prop --tier quick 2>&1 | grep -o "exit=[0-9]" | tail -1)
  echo "$r | $prop | $what"
  rm -rf $d
done
