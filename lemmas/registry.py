"""Per-property metadata (level, assumptions, explanation) and property-level lemma providers."""
from pyvc.extras import META, provider

PROOF_NOTE = ("VCs are generated from the real source text of /repo/eaopack (re-read on every run) by symbolic execution "
              "against sidecar contracts in /verif/contracts and discharged by z3 (E-matching, then full) / cvc5; "
              "a non-discharged obligation becomes a violation only through a counter-model replayed on the real code.")

META.update({
    'C01': dict(level='proof', assumptions=['A1', 'A2', 'A3', 'A5', 'A6'], explanation=(
        "proved on the real source: (1) every asset class under contract writes its dispatch rows on its own nodes (C01.nodes.*); (2) "
        "create_nodal_restr (loop invariant with ghost witnesses, symbolic number of steps and mapping rows): the sparse entries are in one-to-one "
        "correspondence with the dispatch rows of the mapping, one nodal row per (node, step) that has dispatch, records (step, node) per row; (3) the "
        "portfolio appends exactly that block with b = 0 and type N (C01.asm.*), missing disp_factor filled with 1; (4) Lean 4 + Mathlib lemma: the "
        "linear form of nodal row r is the net flow at its recorded (step, node); (5) io.extract_output from the real source (contracts/io_output.py; arbitrary mapping satisfying WF_OP, arbitrary result vector, symbolic grid / row / variable / record counts; harness bounds: 1-2 assets with 1-2 nodes, literal names, no internal-variable rows, prices None): the reported dispatch "
        "column of (asset, node) is, per step, the sum of x[variable] x disp_factor over the asset's dispatch rows at that node and step, one column per "
        "asset and node. Bounded (never counted as proved): the same statement on random portfolios of ten asset kinds (run-time contract), balance of "
        "optimised flat / split / structured portfolios. " + PROOF_NOTE)),
    'C02': dict(level='proof', assumptions=['A2', 'A3', 'A4', 'A5', 'A6'], explanation=(
        "proved: LP data of SimpleContract, Transport, Storage (bounds = rate x dt, costs incl. spread sign rule, holding cost tail sums, level rows, "
        "right-hand sides), the discount factor formula (1+wacc)^(-elapsed years), Asset.make_vector (constant / gridded array through the window's "
        "index / interval data via values_to_grid, x dt if converted) and Timegrid.values_to_grid (loop invariant). Bounded: optimum and dispatch vs "
        "an independent scipy/HiGHS textbook LP on random portfolios incl. multi-commodity contracts, DST grids, waccs; take periods. define_restr from the "
        "real source (symbolic numbers of periods, mapping rows and steps; three nested loops: row family under a guard, the list of covered rows as a predicate with a "
        "disjointness obligation, commutative accumulation): one row per period with a covered step, coefficient = sum of the dispatch factors of the covered rows of "
        "the variable, right-hand side = volume x length of the distinct covered steps / period length, letter as asked; the take drivers of Contract / "
        "ExtendedTransport append those rows under the right letters. 'same data => same optimum' is A6. " + PROOF_NOTE)),
    'C03': dict(level='proof', assumptions=['A1', 'A2', 'A3', 'A5'], explanation=(
        "proved: the cvxpy problem handed to the solver is the assembled problem (bounds, one constraint per row class with the same mask on A and b, "
        "objective -c@x, boolean declaration, result/status handling, dual bookkeeping, frame), also for the robust target. Solver optimality / "
        "feasibility itself is assumption A1 (external binary). ortools branch and SplitOptimProblem.optimize are not under contract. " + PROOF_NOTE)),
    'C04': dict(level='proof', assumptions=['A2', 'A3', 'A5', 'A6'], explanation=(
        "proved: Asset.dcf returns, per step, minus cost x value of the asset's variables, each counted once at the step of its first mapping row "
        "(C04.dcf.*), under WF_OP (established by the assembly contract C07.asm.*); io.extract_output from the real source (contracts/io_output.py; arbitrary mapping satisfying WF_OP, arbitrary result vector, symbolic grid / row / variable / record counts; harness bounds: 1-2 assets with 1-2 nodes, literal names, no internal-variable rows, prices None): the DCF column of an asset is its "
        "own dcf(), the summary value is the result's value, a failed run reports the status and no table. Bounded: the same on random portfolios of ten "
        "asset kinds; split problems (with order books: unmapped variables) and interleaved histories. " + PROOF_NOTE)),
    'C05': dict(level='proof', assumptions=['A2', 'A3', 'A5', 'A6'], explanation=(
        "proved: Storage LP data (rates = cap x dt, level rows incl. efficiency on the charge columns, cumulative inflow in the right-hand sides, end "
        "level in the last row, no-simultaneous rows and binaries whenever charge and discharge are separate variables) and Storage.fill_level = "
        "physical level incl. inflow; io.extract_output from the real source (contracts/io_output.py; arbitrary mapping satisfying WF_OP, arbitrary result vector, symbolic grid / row / variable / record counts; harness bounds: 1-2 assets with 1-2 nodes, literal names, no internal-variable rows, prices None): reported charge / discharge = sum over the "
        "storage's dispatch rows of max(0,-x) / min(0,-x) x factor per step, reported fill level = the storage's own fill_level(). Bounded: physical statements on optimised solutions over the option grid (two nodes x no-simult x efficiency "
        "x cost; blocks, holding duration, windows), reported charge / discharge / fill level (extract_output contract). Known finding D30. " + PROOF_NOTE)),
    'C07': dict(level='proof', assumptions=['A2', 'A3', 'A5'], explanation=(
        "proved: WF_OP of SimpleContract, Transport, Storage, OrderBook, ScaledAsset (lengths, mapping rows, l<=u, steps on grid), the assembly "
        "contract of Portfolio.setup_optim_problem for 1-3 assets with symbolic sizes (global index = own index + offset, vectors, row embedding, "
        "nodal block) and create_nodal_restr (exactly one nodal row per (node, step) with dispatch). Asset count is a bound of the harness (list loop "
        "unrolled). Bounded: well-formedness of periodic / coarse-frequency problems of four asset kinds. " + PROOF_NOTE)),
    'C08': dict(level='other', assumptions=['A2', 'A3', 'A4', 'A5'], explanation=(
        "proved: restricted grid = index-consistent subset of [start,end) (C08.window.*), set_restricted_grid passes the given window / the grid's own, "
        "every dispatch row of the classes under contract lies on it, empty windows are inert for Storage/Contract/Transport/OrderBook/ScaledAsset, no "
        "spurious raise; define_restr from the real source: a take period without a covered step inside horizon and window yields no row, otherwise "
        "the right-hand side is the volume prorated by the covered duration; Timegrid.prep_date_dict: naive dates are read in the grid's zone, zone-aware ones kept. Bounded: take periods incl. asset windows reaching beyond the horizon. Known finding D25b. " + PROOF_NOTE)),
    'C09': dict(level='other', assumptions=['A2', 'A3', 'A5', 'A6'], explanation=(
        "proved: the global variable index does not depend on names (offsets), names are only compared for equality in the functions under "
        "contract, discount factors and restricted grid are rebuilt per asset from its own parameters (set_timegrid, set_restricted_grid: nothing of an "
        "earlier user of the shared grid survives). Bounded: value under random permutations x naming schemes (numeric, prefixes). " + PROOF_NOTE)),
    'C10': dict(level='other', assumptions=['A2', 'A3', 'A5'], explanation=(
        "proved: Asset.set_timegrid / Timegrid.set_restricted_grid rebuild the derived cache from an arbitrary prior state (also when the asset "
        "already holds the same grid object), the set-up functions of four asset classes do so too ('same grid object, another asset's cache' case), "
        "frames (prices / orders / interval dictionaries / take dictionaries (prep_date_dict) / portfolio object not written); the four set-up contracts also when the grid was set before and another asset has overwritten the shared cache since ('preset' mode). Bounded: histories <= 3 incl. own-frequency assets and an "
        "order book; structured assets. " + PROOF_NOTE)),
    'C12': dict(level='other', assumptions=['A2', 'A3', 'A4', 'A5'], explanation="proved: dt = elapsed/unit for root (Tick) and coarse grids, make_vector converts with the window's own step lengths, storage holding cost uses each later step's own length; unit-scaling lemmas for every entry form. Durations: convert_time_unit keeps the elapsed time (result x new unit length = value x old unit length), convert_to_timegrid_freq gives that quotient for the grid's frequency, rounded up to a whole number of steps when asked to (tick frequencies). Bounded: real grids over DST in two units. Note A4: freq 'd' with a time zone is calendar-day based in pandas (bounded part decides it)."),
    'C14': dict(level='other', assumptions=['A2', 'A3', 'A4', 'A5', 'A6'], explanation=(
        "proved: interval grids keep the reference grid's cumulative time / discount factors (C14.discount); Portfolio.setup_split_optim_problem from the "
        "real source (harness bound: 1-3 intervals, loop unrolled; grid, boundary positions, problem sizes and mappings symbolic): the non-empty "
        "intervals partition the horizon, each is set up once on its own renumbered grid with the prices put on that grid, joint mapping steps = "
        "first step of the interval + position, variable numbers offset by the sizes of the earlier intervals, nodal records translated, grids "
        "restored; SplitOptimProblem.optimize / __init__ (two intervals): value = sum of interval optima, solution / duals / costs / records "
        "concatenated in interval order; z3 lemmas (window = block of steps); Lean lemmas (uncoupled split is an unsplit optimum; split <= "
        "unsplit under inclusion of the feasible sets). Bounded: split-vs-unsplit scenarios (value, balance at all nodes, per-asset limits, step "
        "numbering, DCF accounting, order books first / last, unsolvable interval). " + PROOF_NOTE)),
    'C17': dict(level='other', assumptions=['A1', 'A2', 'A3', 'A5', 'A6'], explanation="proved: costs_only returns exactly the cost vector of the full set-up for the classes under contract and the portfolio concatenation; robust target: one epigraph variable, one constraint -c_s@x >= DCF_min per sample after all rows, objective = epigraph variable, reported value under own costs. make_slp from the real source (contracts/slp.py; harness bounds: one mapping row per variable, the present = the first two steps, 1-2 samples; sizes symbolic): the m original variables followed by one block of copies of the future variables per sample (future = step of the variable's first mapping row in the future part of the grid), bounds copied, costs present once / future and sample costs divided by S+1, right-hand sides and type letters repeated per scenario, row block 0 on the original variables, block s on the present columns and the s-th copy; Portfolio.create_cost_samples: k-th vector = costs_only set-up of the k-th sample on the given grid. The mapping of the extended problem is not specified by a contract. Bounded: block structure incl. variables with several mapping rows and boolean flags, EEV <= V_slp <= wait-and-see, = deterministic for coinciding scenarios on real solves (incl. non-dispatch future variables, plants, MIP storages)."),
    'C18': dict(level='other', assumptions=['A1', 'A2', 'A3', 'A5', 'A6'], explanation="proved: the N dual is the dual of the N-class constraint; create_nodal_restr records (step, node) of every nodal row in row order; the portfolio's record lists all rows of type N (structured assets' first); io.extract_output from the real source (contracts/io_output.py; arbitrary mapping satisfying WF_OP, arbitrary result vector, symbolic grid / row / variable / record counts; harness bounds: 1-2 assets with 1-2 nodes, literal names, no internal-variable rows, prices None): the price reported at (step, 'nodal price: ' + node) of every recorded nodal row is minus its dual, no other nodal price cell is set, none at all without duals. Bounded: the same on random portfolios; supergradient inequality on re-optimised portfolios (gapped activity, structured assets)."),
    'C19': dict(level='proof', assumptions=['A2', 'A3', 'A4', 'A5'], explanation=(
        "proved under A4 (pandas date_range: Tick frequency = start + k*delta; anchored: strictly increasing inside [start,end]): root grid, "
        "same-frequency restricted grid, coarse restricted grid (Tick), Timegrid.values_to_grid (value of the unique containing interval, NaN outside, "
        "overlap rejected; explicit / implicit ends, scalar forms; loop invariant), make_vector (gridded arrays pass through). Bounded: real "
        "grids over DST, prices_to_grid. " + PROOF_NOTE)),
    'C20': dict(level='proof', assumptions=['A2', 'A3', 'A5', 'A6'], explanation=(
        "proved: OrderBook LP data -- one variable per order in [0,1], cost = capa x price x sum of dt x df over covered steps, one mapping row per "
        "(order, covered step) with factor capa x dt, bool flag iff full execution, empty cover => zero cost and no row; symbolic number of orders; also "
        "when the book already holds the grid object with another asset's cache. Bounded: 'special' output lines (extract_output contract). " + PROOF_NOTE)),
})

META.update({
    'C06': dict(level='other', assumptions=['A1', 'A2', 'A3', 'A5'], explanation=(
        "proved (unbounded horizon): _add_dispatch_variables, _add_bool_variables, capacity rows and ramp rows (without start / shutdown ramp "
        "profiles), row families of _add_constrains_for_start_and_shutdown, _add_constraints_for_min_runtime, "
        "_add_constraints_for_min_downtime, _add_constraints_for_heat, _add_fuel_consumption from the real source, and the exactness lemmas C06.minrun/.mindown "
        "sound+complete, start flag at every transition. Bounded (never counted as proved): Plant assembled by the real driver, all 2^T on/off patterns "
        "pinned in the MIP vs a reference predicate; every clause of the statement (off => 0, capacity band, ramps incl. first step, start flags, heat "
        "share, fuel) on optimised CHP solutions. Capacity / ramp / fuel rows are not under contract. " + PROOF_NOTE)),
    'C11': dict(level='other', assumptions=['A5'], explanation=(
        "exact part: attribute / parameter / dropped-key sets are read off the real AST on every run (finite sets: C11.keys.<K>, C11.grid.tz). "
        "bounded part: round trips on enumerated instances. Known finding D15-LinkedAsset.")),
    'C13': dict(level='other', assumptions=['A1', 'A2', 'A4'], explanation=(
        "proved: coarse grid construction (members, first member, dt total, discount); Asset.__extend_mapping_to_minor_grid__ from the real source "
        "(nested symbolic loops: one row per (given row, minor step of its coarse step), same variable, factor = dt / coarse dt x own factor, other "
        "fields kept) and the Lean lemmas 'factors of a coarse step add up to the own factor' / 'constant rate within a coarse step'. No function "
        "contract reaches __make_periodic__ (data-dependent pandas merging): periodic and coarse-frequency assets of four kinds (one / two variables "
        "per step, one / several mapping rows) vs independent scipy LPs with explicit equalities, constant rate within coarse intervals over DST, "
        "are bounded stand-ins, never counted as proved. " + PROOF_NOTE)),
    'C15': dict(level='other', assumptions=['A2', 'A3', 'A5'], explanation=(
        "proved on the real source (fix_time_window case of the assembly contract): pinned only if in the window, others untouched, costs untouched, "
        "frame. The converse (every window variable is pinned) needs a first-occurrence argument: bounded scenarios incl. variables spanning several "
        "steps (own frequency, periodicity) and multi-row variables. " + PROOF_NOTE)),
    'C16': dict(level='other', assumptions=['A2', 'A3', 'A5', 'A6'], explanation=(
        "proved: ScaledAsset.setup_optim_problem LP data for bases with one mapping row per variable. The step from the LP data to 'behaves like the "
        "base with capacities x s/S' is A6 + bounded scenarios. StructuredAsset.setup_optim_problem from the real source: inner set-up on clipped "
        "windows / the given grid / external nodes skipped, wrapped assets get their own window back (also when the inner set-up raises), vectors untouched, "
        "all variables assigned to the structured asset, rows at internal nodes renamed and typed 'i' (loop over the distinct nodes under an invariant; "
        "precondition: no wrapped node is named like the internal form of another), nodal record renamed, costs_only. Bounded: value vs flat portfolio, "
        "balance, nodal prices; scaled asset over storage / must-take / load / structured bases incl. bases with their own window. " + PROOF_NOTE)),
})

from . import c06  # noqa
from . import c12  # noqa
from . import leanlemmas  # noqa
from . import c05  # noqa
from . import c14  # noqa
