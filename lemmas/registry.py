"""Per-property metadata (level, assumptions, explanation) and property-level lemma providers."""
from pyvc.extras import META, provider

PROOF_NOTE = ("VCs are generated from the real source text of /repo/eaopack (re-read on every run) by symbolic execution "
              "against sidecar contracts in /verif/contracts and discharged by z3 (E-matching, then full) / cvc5; "
              "a non-discharged obligation becomes a violation only through a counter-model replayed on the real code.")

META.update({
    'C01': dict(level='other', assumptions=['A1', 'A2', 'A3', 'A5', 'A6'], explanation=(
        "proved: every asset class under contract writes its dispatch rows on its own nodes (C01.nodes.*), the portfolio appends "
        "the nodal block returned by create_nodal_restr with b=0 and type N and passes the mapping columns of all nodes (C01.asm.*), "
        "missing disp_factor filled with 1. bounded (run-time twin on random small real portfolios, never counted as proved): the nested "
        "function create_nodal_restr itself -- one row per (node, step) with dispatch, summing the factors of the d rows there " + PROOF_NOTE)),
    'C02': dict(level='proof', assumptions=['A2', 'A3', 'A4', 'A5', 'A6'], explanation=(
        "LP data of SimpleContract, Transport, Storage (bounds = rate x dt, costs incl. spread sign rule, holding cost tail sums, "
        "level rows, right-hand sides) and the discount factor formula (1+wacc)^(-elapsed years) are proved pointwise for symbolic grid "
        "length and all parameter values. Not covered by a contract yet: take-or-pay rows (define_restr), MultiCommodityContract; "
        "'same data => same optimum' is A6. " + PROOF_NOTE)),
    'C03': dict(level='proof', assumptions=['A1', 'A2', 'A3', 'A5'], explanation=(
        "proved: the cvxpy problem handed to the solver is the assembled problem (bounds, one constraint per row class with the same "
        "mask on A and b, objective -c@x, boolean declaration, result/status handling, dual bookkeeping, frame). Solver optimality / "
        "feasibility itself is assumption A1 (external binary). ortools branch and SplitOptimProblem.optimize not under contract. " + PROOF_NOTE)),
    'C04': dict(level='proof', assumptions=['A2', 'A3', 'A5', 'A6'], explanation=(
        "proved: Asset.dcf returns, per step, minus cost x value of the asset's variables, each counted once at the step of its first "
        "mapping row (C04.dcf.*), under WF_OP as precondition (established by the assembly contract C07.asm.*). The summary/split/"
        "periodic variants are not under contract yet. " + PROOF_NOTE)),
    'C05': dict(level='proof', assumptions=['A2', 'A3', 'A5', 'A6'], explanation=(
        "proved: Storage LP data (rates = cap x dt, level rows incl. efficiency on the charge columns, cumulative inflow in the "
        "right-hand sides, end level in the last row, no-simultaneous rows and binaries) and Storage.fill_level = physical level incl. "
        "inflow. Not covered: time blocks (pandas date_range), max_store_duration, io charge/discharge series. " + PROOF_NOTE)),
    'C07': dict(level='proof', assumptions=['A2', 'A3', 'A5'], explanation=(
        "proved: WF_OP of SimpleContract, Transport, Storage, OrderBook (lengths, mapping rows, l<=u, steps on grid) and the assembly "
        "contract of Portfolio.setup_optim_problem for 1-3 assets with symbolic sizes (global index = own index + offset, vectors, "
        "row embedding, nodal block). Asset count is a bound of the harness (list loop unrolled). " + PROOF_NOTE)),
    'C08': dict(level='other', assumptions=['A2', 'A3', 'A4', 'A5'], explanation=(
        "proved: restricted grid = index-consistent subset of [start,end) (C08.window.*), every dispatch row of the classes under "
        "contract lies on it, empty windows are inert for Storage/Contract/Transport/OrderBook, no spurious raise. Take periods and "
        "CHP not under contract. " + PROOF_NOTE)),
    'C09': dict(level='other', assumptions=['A2', 'A3', 'A5', 'A6'], explanation=(
        "proved: the global variable index does not depend on names (offsets; C09.keys.*) and names are only compared for equality in "
        "the functions under contract. Output labels (string concatenation) are not decided. " + PROOF_NOTE)),
    'C10': dict(level='other', assumptions=['A2', 'A3', 'A5'], explanation=(
        "proved: Asset.set_timegrid rebuilds the derived cache from the asset's own parameters from an arbitrary prior cache state, "
        "frames of the set-up functions under contract (prices / orders not written). History enumeration is bounded. " + PROOF_NOTE)),
    'C12': dict(level='other', assumptions=['A2', 'A3', 'A4', 'A5'], explanation="see C19.dt / C02.* (limits follow step length); unit-scaling lemmas"),
    'C14': dict(level='other', assumptions=['A2', 'A3', 'A4', 'A5', 'A6'], explanation="proved: interval grids keep the reference grid's cumulative time / discount factors (C14.discount)."),
    'C17': dict(level='other', assumptions=['A2', 'A3', 'A5', 'A6'], explanation="proved: costs_only returns exactly the cost vector of the full set-up for the classes under contract and the portfolio concatenation."),
    'C18': dict(level='other', assumptions=['A1', 'A2', 'A3', 'A5', 'A6'], explanation="proved: the N dual is the dual of the N-class constraint and map_nodal_restr is passed through (placement chain, partial)."),
    'C19': dict(level='proof', assumptions=['A2', 'A3', 'A4', 'A5'], explanation=(
        "proved under A4 (pandas date_range: Tick frequency = start + k*delta; anchored: strictly increasing inside [start,end]): root grid "
        "(points, count, strictly increasing, inside [start,end), dt = elapsed/unit, Dt prefix sums, I = 0..T-1) and same-frequency "
        "restricted grid (index-consistent subset, complete, discount factors). Coarse restricted grid, values_to_grid, prices_to_grid "
        "not under contract yet. " + PROOF_NOTE)),
    'C20': dict(level='proof', assumptions=['A2', 'A3', 'A5', 'A6'], explanation=(
        "proved: OrderBook LP data -- one variable per order in [0,1], cost = capa x price x sum of dt x df over covered steps, one "
        "mapping row per (order, covered step) with factor capa x dt, bool flag iff full execution, empty cover => zero cost and no row; "
        "the order loop is summarised for a symbolic number of orders. io 'special' output not under contract. " + PROOF_NOTE)),
})

META.update({
    'C06': dict(level='other', assumptions=['A1', 'A2', 'A3', 'A5'], explanation=(
        "proved (unbounded horizon): row families of _add_constrains_for_start_and_shutdown, _add_constraints_for_min_runtime, "
        "_add_constraints_for_min_downtime, _add_constraints_for_heat from the real source, and the exactness lemmas C06.minrun/.mindown "
        "sound+complete, start flag at every transition. bounded (never counted as proved): Plant assembled by the real driver, all 2^T "
        "on/off patterns for T in {4,5} pinned in the MIP and decided by SCIP vs a reference predicate. " + PROOF_NOTE)),
    'C11': dict(level='other', assumptions=['A5'], explanation=(
        "exact part: attribute / parameter / dropped-key sets are read off the real AST on every run (finite sets: C11.keys.<K>, C11.grid.tz). "
        "bounded part: round trips on enumerated instances. Known finding D15-LinkedAsset.")),
    'C13': dict(level='other', assumptions=['A1', 'A2', 'A4'], explanation=(
        "no function contract reaches __make_periodic__ or __extend_mapping_to_minor_grid__ (nested data-dependent pandas loops): the "
        "property is decided by bounded stand-ins only (periodic / coarse contract vs independent scipy LP with equalities; coarse grid "
        "partition on real grids) -- nothing here is counted as proved.")),
    'C15': dict(level='other', assumptions=['A2', 'A3', 'A5'], explanation=(
        "proved on the real source (fix_time_window case of the assembly contract): pinned only if in the window, others untouched, costs "
        "untouched, frame. The converse (every window variable is pinned) needs a first-occurrence (well-ordering) argument the solver "
        "does not do: bounded scenarios. " + PROOF_NOTE)),
    'C16': dict(level='other', assumptions=['A2', 'A3', 'A5', 'A6'], explanation=(
        "proved: ScaledAsset.setup_optim_problem LP data for bases with one mapping row per variable. The step from the LP data to 'behaves "
        "like the base with capacities x s/S' is A6 + bounded scenarios. StructuredAsset not under contract. " + PROOF_NOTE)),
})

from . import c06  # noqa
from . import c12  # noqa
from . import c01  # noqa
