"""C06 exactness lemmas over the row families proved in contracts/chp_helpers.py (unbounded horizon T).

on, start : [0,T) -> {0,1}.  "was running before" = time_already_running > 0 (tar), then no start is needed for a
run that begins before the horizon; the initial-state bounds (l[on..] = 1 / u[on..] = 0) are part of the rows.

  C06.minrun.sound      rows  =>  every off->on transition inside the horizon is followed by min_runtime on-steps
                                  (as far as the horizon reaches) and start is 1 at every transition
  C06.minrun.complete   every on-pattern with that property admits a start vector satisfying the rows
  C06.mindown.sound     rows  =>  every on->off transition is followed by min_downtime off-steps
  C06.mindown.complete  every on-pattern with that property satisfies the rows
"""
import z3
from pyvc.extras import provider, prove

on = z3.Function('on', z3.IntSort(), z3.IntSort())
start = z3.Function('start', z3.IntSort(), z3.IntSort())
T, mr, md, tar, tao = z3.Ints('T mr md tar tao')
t, i, s, k = z3.Ints('t i s k')


def binary(f):
    return z3.ForAll([t], z3.Implies(z3.And(t >= 0, t < T), z3.Or(f(t) == 0, f(t) == 1)), patterns=[f(t)])


def minrun_rows():
    return [
        # start definition (contract C06.startdef.rows / .initial)
        z3.ForAll([t], z3.Implies(z3.And(t >= 0, t < T - 1), on(t + 1) - on(t) - start(t + 1) <= 0), patterns=[start(t + 1)]),
        z3.Implies(tar == 0, on(0) - start(0) == 0),
        # min runtime rows (contract C06.minrun.rows)
        z3.ForAll([t, i], z3.Implies(z3.And(t >= 0, t < T, i >= 1, i < mr, i <= t), on(t) - start(t - i) >= 0),
                  patterns=[z3.MultiPattern(on(t), start(t - i))]),
    ]


def transition_up(s_):
    """off -> on at step s_ (a run that starts inside the horizon)"""
    return z3.And(s_ >= 0, s_ < T, on(s_) == 1, z3.If(s_ == 0, tar == 0, on(s_ - 1) == 0))


def runtime_rule():
    return z3.ForAll([s, k], z3.Implies(z3.And(transition_up(s), k >= 0, k < mr, s + k < T), on(s + k) == 1))


@provider('C06')
def c06_lemmas(prop, tier, seed):
    obs = []
    base = [T >= 1, mr >= 0, md >= 0, tar >= 0, tao >= 0, binary(on), binary(start)]
    # ---- min runtime, soundness
    s0, k0 = z3.Ints('s0 k0')
    goal = z3.Implies(z3.And(transition_up(s0), k0 >= 0, k0 < mr, s0 + k0 < T), z3.And(on(s0 + k0) == 1, start(s0) == 1))
    obs.append(prove('C06.minrun.sound', base + minrun_rows(), goal, function='lemma:c06'))
    # ---- min runtime, completeness: witness start[t] = [transition at t]
    wit = z3.ForAll([t], z3.Implies(z3.And(t >= 0, t < T), start(t) == z3.If(transition_up(t), 1, 0)), patterns=[start(t)])
    t0, i0 = z3.Ints('t0 i0')
    rows_goal = z3.And(
        z3.Implies(z3.And(t0 >= 0, t0 < T - 1), on(t0 + 1) - on(t0) - start(t0 + 1) <= 0),
        z3.Implies(tar == 0, on(0) - start(0) == 0),
        z3.Implies(z3.And(t0 >= 0, t0 < T, i0 >= 1, i0 < mr, i0 <= t0), on(t0) - start(t0 - i0) >= 0))
    obs.append(prove('C06.minrun.complete', base + [runtime_rule(), wit], rows_goal, function='lemma:c06'))
    # ---- start flags exactly at transitions: every feasible point has start >= [transition]; the witness has equality
    obs.append(prove('C06.start.flag_at_every_transition', base + minrun_rows(), z3.Implies(transition_up(s0), start(s0) == 1), function='lemma:c06'))
    # ---- min downtime
    down_rows = [
        z3.ForAll([t, i], z3.Implies(z3.And(t >= 0, t < T, i >= 1, i < md, i < t), on(t) - on(t - i) + on(t - i - 1) <= 1),
                  patterns=[z3.MultiPattern(on(t), on(t - i))]),
        z3.ForAll([i], z3.Implies(z3.And(i >= 1, i < md, i < T), on(i) - on(0) <= z3.If(tao == 0, 0, 1)), patterns=[on(i)]),
        # initial-state bound: off for tao < min_downtime steps before the horizon
        z3.ForAll([t], z3.Implies(z3.And(tao > 0, t >= 0, t < md - tao, t < T), on(t) == 0), patterns=[on(t)]),
    ]

    def transition_down(s_):
        """on -> off at s_; s_ = 0: was running before (not declared off)"""
        return z3.And(s_ >= 0, s_ < T, on(s_) == 0, z3.If(s_ == 0, tao == 0, on(s_ - 1) == 1))
    goal = z3.Implies(z3.And(transition_down(s0), k0 >= 0, k0 < md, s0 + k0 < T), on(s0 + k0) == 0)
    obs.append(prove('C06.mindown.sound', base + down_rows, goal, function='lemma:c06'))
    goal2 = z3.Implies(z3.And(tao > 0, k0 >= 0, k0 < md - tao, k0 < T), on(k0) == 0)
    obs.append(prove('C06.mindown.sound.initial_off', base + down_rows, goal2, function='lemma:c06'))
    rule = z3.ForAll([s, k], z3.Implies(z3.And(transition_down(s), k >= 0, k < md, s + k < T), on(s + k) == 0))
    rule_init = z3.ForAll([k], z3.Implies(z3.And(tao > 0, k >= 0, k < md - tao, k < T), on(k) == 0))
    rows_goal = z3.And(
        z3.Implies(z3.And(t0 >= 0, t0 < T, i0 >= 1, i0 < md, i0 < t0), on(t0) - on(t0 - i0) + on(t0 - i0 - 1) <= 1),
        z3.Implies(z3.And(i0 >= 1, i0 < md, i0 < T), on(i0) - on(0) <= z3.If(tao == 0, 0, 1)))
    obs.append(prove('C06.mindown.complete', base + [rule, rule_init], rows_goal, function='lemma:c06'))
    return dict(obligations=obs)
