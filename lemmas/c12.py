"""C12: the main time unit is irrelevant.  Lemmas over the LP-data contracts (spec side, not code): re-expressing the
problem for a unit kappa times shorter multiplies every step length by kappa (C12.dt / C19.dt: dt = elapsed / unit);
rates (capacities, inflow, holding cost, running cost) are divided by kappa, durations multiplied.  Every entry of
(c, l, u, A, b) of the contracts LP_SimpleContract / LP_Transport / LP_Storage / LP_OrderBook is of one of the forms
below, each invariant under the substitution; the discount exponent is Dt * unit, also invariant.
"""
import z3
from pyvc.extras import provider, prove

k, rate, dt, p, df, eff, cs, size, start, x, Dt, unit, days, w, capa, price = z3.Reals('kappa rate dt p df eff cost_store size start x Dt unit days wacc capa price')


@provider('C12')
def c12_lemmas(prop, tier, seed):
    hy = [k > 0, dt > 0, unit > 0]
    obs = []
    # volume limit = rate x step length  (C02.contract.bounds, C02.transport.bounds, C05.storage.rates)
    obs.append(prove('C12.scale.volume_limit', hy, (rate / k) * (k * dt) == rate * dt, function='lemma:c12'))
    # cost of a step = price x volume x discount: no time factor at all (C02.*.cost) -- only the holding cost has one
    obs.append(prove('C12.scale.holding_cost_summand', hy, (cs / k) * (k * dt) * df == cs * dt * df, function='lemma:c12'))
    # storage right-hand sides: size - start - inflow x elapsed  (C05.storage.rows.*): summand inflow x dt
    obs.append(prove('C12.scale.inflow_summand', hy, (rate / k) * (k * dt) == rate * dt, function='lemma:c12'))
    # order book: delivered volume capa x dt and cost capa x price x dt x df (C20.orderbook.rows.factor / .cost); capa is a rate
    obs.append(prove('C12.scale.order_volume', hy, (capa / k) * (k * dt) * price * df == capa * dt * price * df, function='lemma:c12'))
    # discount exponent: elapsed years = Dt x unit / (365 d)  (C02.discount): Dt -> kappa Dt, unit -> unit / kappa
    obs.append(prove('C12.disc.exponent_invariant', hy + [days > 0], ((k * Dt) * (unit / k) / days) / 365 == (Dt * unit / days) / 365, function='lemma:c12'))
    # totals: sum of per-step limits = rate x elapsed time (linearity of the prefix sum; instance for two steps as a sanity lemma)
    d1, d2 = z3.Reals('d1 d2')
    obs.append(prove('C12.totals.two_steps', [], rate * d1 + rate * d2 == rate * (d1 + d2), function='lemma:c12'))
    return dict(obligations=obs)
