import Mathlib

/-!
Property-level lemma for C04 (value accounting), over the contracts of `Asset.dcf` and of the portfolio assembly.

Assembly contract (C07.asm.index, proved on the real source): the variables of asset `a` are the block
`[off a, off a + sz a)` of the portfolio's variables, `off a = Σ_{b<a} sz b` (own index + number of variables of the assets
before it), and cost vector and solution are the concatenations.  `Asset.dcf` contract (C04.dcf.*): the cash flows of asset `a`
total `Σ_{i < sz a} g (off a + i)` with `g j = -(c j * x j)`, every own variable counted once.

Conclusion: the per-asset totals add up to `Σ_j g j = -(c · x)`, the reported value.
-/

open Finset

theorem asset_blocks_sum_to_total (k : ℕ) (sz : ℕ → ℕ) (g : ℕ → ℝ) :
    ∑ a ∈ range k, ∑ i ∈ range (sz a), g ((∑ b ∈ range a, sz b) + i)
      = ∑ j ∈ range (∑ b ∈ range k, sz b), g j := by
  induction k with
  | zero => simp
  | succ k ih =>
    rw [Finset.sum_range_succ, ih, Finset.sum_range_succ (fun b => sz b), Finset.sum_range_add]

theorem value_is_sum_of_asset_cash_flows (k : ℕ) (sz : ℕ → ℕ) (c x : ℕ → ℝ) :
    ∑ a ∈ range k, ∑ i ∈ range (sz a), (-(c ((∑ b ∈ range a, sz b) + i) * x ((∑ b ∈ range a, sz b) + i)))
      = -(∑ j ∈ range (∑ b ∈ range k, sz b), c j * x j) := by
  rw [asset_blocks_sum_to_total k sz (fun j => -(c j * x j)), Finset.sum_neg_distrib]
