import Mathlib

/-!
Property-level lemma for C13 (periodicity = the fine problem plus equalities): the change of variables behind the periodic merge.

The equalities "same dispatch at the same position of every period within a duration" say `x j = y (g j)` for a grouping `g` of the fine
variables `j` into merged variables `k`.  On such `x` the fine objective and every fine row evaluate to the merged objective / row with
SUMMED costs and SUMMED columns over each group -- which is what `__make_periodic__` is checked against by the bounded scenarios (costs
summed, columns summed; fix D32 was exactly a violation of "summed once").  Bounds: `l j ≤ y (g j) ≤ u j` for all `j` in a group is
`max l ≤ y k ≤ min u`; the implementation takes the group's average, which is the same when the bounds agree within the group (documented).
-/

open Finset

theorem merged_linear_form {n m : ℕ} (g : Fin n → Fin m) (c : Fin n → ℝ) (y : Fin m → ℝ) :
    ∑ j, c j * y (g j) = ∑ k, (∑ j ∈ Finset.univ.filter (fun j => g j = k), c j) * y k := by
  rw [← Finset.sum_fiberwise Finset.univ g (fun j => c j * y (g j))]
  apply Finset.sum_congr rfl
  intro k _
  rw [Finset.sum_mul]
  apply Finset.sum_congr rfl
  intro j hj
  rw [(Finset.mem_filter.mp hj).2]

/-- objective and every row of the fine problem on `x = y ∘ g` equal those of the merged problem (summed costs, summed columns) on `y` -/
theorem periodic_merge_evaluates_like_fine_problem_with_equalities {n m r : ℕ} (g : Fin n → Fin m)
    (c : Fin n → ℝ) (A : Fin r → Fin n → ℝ) (y : Fin m → ℝ) :
    (∑ j, c j * y (g j) = ∑ k, (∑ j ∈ Finset.univ.filter (fun j => g j = k), c j) * y k) ∧
      ∀ i, ∑ j, A i j * y (g j) = ∑ k, (∑ j ∈ Finset.univ.filter (fun j => g j = k), A i j) * y k :=
  ⟨merged_linear_form g c y, fun i => merged_linear_form g (A i) y⟩

/-- bounds of a group with equal bounds: the average is the common value -/
theorem average_of_equal_bounds (s : Finset ℕ) (hs : s.Nonempty) (l : ℕ → ℝ) (b : ℝ) (h : ∀ j ∈ s, l j = b) :
    (∑ j ∈ s, l j) / s.card = b := by
  rw [Finset.sum_congr rfl h, Finset.sum_const, nsmul_eq_mul]
  have : (s.card : ℝ) ≠ 0 := by exact_mod_cast (Finset.card_pos.mpr hs).ne'
  field_simp
