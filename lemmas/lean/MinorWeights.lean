import Mathlib

/-!
Property-level lemma for C13 (coarse asset frequency): from the contract of `Asset.__extend_mapping_to_minor_grid__`
(`C13.minor.weight_is_share_of_the_coarse_step_times_own_factor`: the row of minor step `m` of a coarse step carries the factor
`dt m / D * f`, `D` the coarse step's length, `f` the given row's own factor) and the contract of the coarse `Timegrid` constructor
(`C12.coarse.step_length_is_sum_of_minor_steps`: `D = ∑ dt m` over the minor steps of the coarse step, all `dt m > 0`):

* the factors of one coarse step add up to the given row's own factor, so the volume `x * f` of the coarse variable is delivered
  completely and nothing more (nodal balance of the fine steps sums to the balance of the coarse step), and
* the rate `x * factor / dt m` is the same in every minor step (constant dispatch within the coarse interval).
-/

open Finset

/-- the weights of the minor steps of a coarse step add up to the row's own factor -/
theorem minor_factors_add_up_to_own_factor {ι : Type*} (s : Finset ι) (dt : ι → ℝ) (f : ℝ)
    (hpos : ∀ i ∈ s, 0 < dt i) (hne : s.Nonempty) :
    ∑ i ∈ s, dt i / (∑ k ∈ s, dt k) * f = f := by
  have hD : (∑ k ∈ s, dt k) ≠ 0 := ne_of_gt (Finset.sum_pos hpos hne)
  rw [← Finset.sum_mul, ← Finset.sum_div, div_self hD, one_mul]

/-- the delivered volume: coarse variable `x` times the factors of all minor steps = `x * f` -/
theorem minor_volumes_add_up_to_coarse_volume {ι : Type*} (s : Finset ι) (dt : ι → ℝ) (f x : ℝ)
    (hpos : ∀ i ∈ s, 0 < dt i) (hne : s.Nonempty) :
    ∑ i ∈ s, x * (dt i / (∑ k ∈ s, dt k) * f) = x * f := by
  rw [← Finset.mul_sum, minor_factors_add_up_to_own_factor s dt f hpos hne]

/-- constant rate: the dispatch per unit of time is the same in any two minor steps of the coarse step -/
theorem minor_rate_is_constant {ι : Type*} (dt : ι → ℝ) (D f x : ℝ) (i j : ι) (hi : 0 < dt i) (hj : 0 < dt j) :
    x * (dt i / D * f) / dt i = x * (dt j / D * f) / dt j := by
  have hi' : dt i ≠ 0 := ne_of_gt hi
  have hj' : dt j ≠ 0 := ne_of_gt hj
  field_simp
