import Mathlib

/-!
Property-level lemma for C01 (nodal balance), over the contracts of `create_nodal_restr` and of the portfolio assembly.

The contract of `create_nodal_restr` (contracts/nodal_restr.py, proved on the real source) gives a one-to-one
correspondence `π / σ` between the `E` sparse entries `(rows e, cols e, vals e)` and the dispatch rows `p < R` of the mapping
(`D p`), with  cols e = variable of p,  vals e = dispatch factor of p,  and the entry lying in the nodal row whose record
is the (step, node) key of p; records of different rows are different.

Conclusion: the linear form of nodal row `r` evaluated at any vector `x` is the net flow at the recorded (step, node):
the sum over the dispatch rows with that key of  disp_factor × x[variable].  Together with "row r is an equality with
right-hand side 0" (C01.asm.nodal_rhs) this is the nodal balance of every feasible point.
-/

open Finset

theorem nodal_row_is_net_flow
    (E R : ℕ) (rows cols : ℕ → ℕ) (vals : ℕ → ℝ) (x : ℕ → ℝ)
    (idx : ℕ → ℕ) (dispf : ℕ → ℝ) (D : ℕ → Prop) [DecidablePred D]
    (key : ℕ → ℕ) (rkey : ℕ → ℕ) (π σ : ℕ → ℕ) (N r : ℕ) (hr : r < N)
    (h1 : ∀ e, e < E → π e < R ∧ D (π e) ∧ cols e = idx (π e) ∧ vals e = dispf (π e) ∧
                      rows e < N ∧ rkey (rows e) = key (π e) ∧ σ (π e) = e)
    (h2 : ∀ p, p < R → D p → σ p < E ∧ π (σ p) = p)
    (hinj : ∀ r₁ r₂, r₁ < N → r₂ < N → rkey r₁ = rkey r₂ → r₁ = r₂) :
    ∑ e ∈ range E, (if rows e = r then vals e * x (cols e) else 0)
      = ∑ p ∈ range R, (if D p ∧ key p = rkey r then dispf p * x (idx p) else 0) := by
  rw [← Finset.sum_filter, ← Finset.sum_filter]
  refine Finset.sum_bij' (fun e _ => π e) (fun p _ => σ p) ?_ ?_ ?_ ?_ ?_
  · intro e he
    rw [Finset.mem_filter, Finset.mem_range] at he ⊢
    obtain ⟨heE, her⟩ := he
    obtain ⟨a, b, _, _, _, f, _⟩ := h1 e heE
    exact ⟨a, b, by rw [← f, her]⟩
  · intro p hp
    rw [Finset.mem_filter, Finset.mem_range] at hp ⊢
    obtain ⟨hpR, hD, hk⟩ := hp
    obtain ⟨a, b⟩ := h2 p hpR hD
    obtain ⟨_, _, _, _, e', f, _⟩ := h1 (σ p) a
    refine ⟨a, ?_⟩
    apply hinj _ _ e' hr
    rw [f, b, hk]
  · intro e he
    rw [Finset.mem_filter, Finset.mem_range] at he
    exact (h1 e he.1).2.2.2.2.2.2
  · intro p hp
    rw [Finset.mem_filter, Finset.mem_range] at hp
    exact (h2 p hp.1 hp.2.1).2
  · intro e he
    rw [Finset.mem_filter, Finset.mem_range] at he
    obtain ⟨_, _, c, d, _, _, _⟩ := h1 e he.1
    rw [c, d]
