import Mathlib

/-!
Property-level lemmas for C14 (split optimisation is consistent with the unsplit problem): the optimisation meta-theorems behind
"equals the unsplit optimum when nothing couples the intervals, and never exceeds it when the only coupling is through storages whose start
level equals their end level".  What the split problem IS (interval problems on the reference grid's time, concatenation of solutions and
values) is the business of the contracts (C14.discount, C14.split_optimize.*, C14.split_init.*) and of the bounded split scenarios.
-/

/-- Nothing couples the intervals: the unsplit feasible set is the product of the interval feasible sets and the value is additive.  Then
the pair of interval optima is an unsplit optimum and the unsplit optimal value is the sum of the interval optima. -/
theorem uncoupled_split_is_optimal {X Y : Type*} (F₁ : Set X) (F₂ : Set Y) (v₁ : X → ℝ) (v₂ : Y → ℝ)
    (x₁ : X) (x₂ : Y) (h₁ : x₁ ∈ F₁) (h₂ : x₂ ∈ F₂)
    (o₁ : ∀ x ∈ F₁, v₁ x ≤ v₁ x₁) (o₂ : ∀ y ∈ F₂, v₂ y ≤ v₂ x₂) :
    (x₁, x₂) ∈ F₁ ×ˢ F₂ ∧ ∀ z ∈ F₁ ×ˢ F₂, v₁ z.1 + v₂ z.2 ≤ v₁ x₁ + v₂ x₂ := by
  refine ⟨⟨h₁, h₂⟩, ?_⟩
  rintro ⟨a, b⟩ ⟨ha, hb⟩
  exact add_le_add (o₁ a ha) (o₂ b hb)

/-- Coupling through storages with start level = end level: every concatenation of interval solutions is feasible for the unsplit problem
(each interval returns the storage to the level the next one starts from), i.e. the split feasible set is contained in the unsplit one; the
values agree on it.  Then the split optimum never exceeds the unsplit optimum. -/
theorem split_never_exceeds_unsplit {X : Type*} (F G : Set X) (hGF : G ⊆ F) (v : X → ℝ)
    (xF : X) (oF : ∀ x ∈ F, v x ≤ v xF) (xG : X) (hG : xG ∈ G) :
    v xG ≤ v xF :=
  oF xG (hGF hG)
