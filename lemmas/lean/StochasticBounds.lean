import Mathlib

/-!
Property-level lemmas for C17 (stochastic and robust problems respect their defining bounds).  They mechanise the optimisation
meta-theorems that lead from "the problem handed to the solver is the robust / two-stage problem" (proved on the real source for the
robust target: contracts/optimize.py `C17.robust.*`; bounded for `make_slp`) and "the solver returns an optimal point" (A1) to the
inequalities of the statement.

`F` is the feasible set (the same rows and bounds for every scenario: only costs differ), `v s x` the value of point `x` under scenario `s`.
-/

open Finset

/-- Robust target: the solver maximises the worst case `min_s v s x` over `F`.  Then the worst case of the robust solution is at least that
of every feasible point (in particular of every single-scenario solution) and at most the smallest per-scenario optimum `V s`. -/
theorem robust_worst_case_bounds {ι X : Type*} (S : Finset ι) (hS : S.Nonempty) (F : Set X) (v : ι → X → ℝ) (V : ι → ℝ)
    (xr : X) (hxr : xr ∈ F)
    (hopt : ∀ x ∈ F, S.inf' hS (fun s => v s x) ≤ S.inf' hS (fun s => v s xr))
    (hV : ∀ s ∈ S, ∀ x ∈ F, v s x ≤ V s) :
    (∀ x ∈ F, S.inf' hS (fun s => v s x) ≤ S.inf' hS (fun s => v s xr)) ∧
      S.inf' hS (fun s => v s xr) ≤ S.inf' hS V := by
  refine ⟨hopt, ?_⟩
  apply Finset.le_inf'
  intro s hs
  exact le_trans (Finset.inf'_le _ hs) (hV s hs xr hxr)

/-- Two-stage problem: a point is a present decision `p` and one future decision `f s` per scenario, feasible iff `(p, f s) ∈ F` for every
scenario; its value is the mean over the scenarios of `v s (p, f s)`.  Upper bound: the optimum of the two-stage problem is at most the mean of
the per-scenario optima `V s` (wait-and-see). -/
theorem two_stage_at_most_mean_of_scenario_optima {ι P Q : Type*} (S : Finset ι) (F : Set (P × Q)) (v : ι → P × Q → ℝ) (V : ι → ℝ)
    (p : P) (f : ι → Q) (hfeas : ∀ s ∈ S, (p, f s) ∈ F)
    (hV : ∀ s ∈ S, ∀ x ∈ F, v s x ≤ V s) :
    ∑ s ∈ S, v s (p, f s) ≤ ∑ s ∈ S, V s := by
  apply Finset.sum_le_sum
  intro s hs
  exact hV s hs _ (hfeas s hs)

/-- Lower bound: fixing the present to the decision `p0` of any single-scenario solution and re-optimising every scenario gives a feasible
point `(p0, g s)` of the two-stage problem, so its (expected) value is at most the two-stage optimum. -/
theorem two_stage_at_least_value_of_fixed_present {ι P Q : Type*} (S : Finset ι) (F : Set (P × Q)) (v : ι → P × Q → ℝ)
    (p : P) (f : ι → Q)
    (hopt : ∀ (p' : P) (f' : ι → Q), (∀ s ∈ S, (p', f' s) ∈ F) → ∑ s ∈ S, v s (p', f' s) ≤ ∑ s ∈ S, v s (p, f s))
    (p0 : P) (g : ι → Q) (hg : ∀ s ∈ S, (p0, g s) ∈ F) :
    ∑ s ∈ S, v s (p0, g s) ≤ ∑ s ∈ S, v s (p, f s) :=
  hopt p0 g hg

/-- All scenarios coincide: the two-stage optimum is the deterministic optimum (scaled by the number of scenarios in this un-normalised form). -/
theorem two_stage_equals_deterministic_when_scenarios_coincide {ι P Q : Type*} (S : Finset ι) (F : Set (P × Q)) (w : P × Q → ℝ)
    (Vd : ℝ) (xd : P × Q) (hxd : xd ∈ F) (hVd : w xd = Vd) (hmax : ∀ x ∈ F, w x ≤ Vd)
    (p : P) (f : ι → Q) (hfeas : ∀ s ∈ S, (p, f s) ∈ F)
    (hopt : ∀ (p' : P) (f' : ι → Q), (∀ s ∈ S, (p', f' s) ∈ F) → ∑ s ∈ S, w (p', f' s) ≤ ∑ s ∈ S, w (p, f s)) :
    ∑ s ∈ S, w (p, f s) = S.card • Vd := by
  apply le_antisymm
  · calc ∑ s ∈ S, w (p, f s) ≤ ∑ _s ∈ S, Vd := Finset.sum_le_sum (fun s hs => hmax _ (hfeas s hs))
      _ = S.card • Vd := by simp
  · have h := hopt xd.1 (fun _ => xd.2) (fun s _ => by simpa using hxd)
    calc S.card • Vd = ∑ _s ∈ S, w (xd.1, xd.2) := by simp [hVd]
      _ ≤ ∑ s ∈ S, w (p, f s) := h
