import Mathlib

/-!
Property-level lemma for C18 (reported nodal prices are marginal values): from "the multiplier `y` of the nodal row is a Lagrange multiplier
at the optimum" to the supergradient inequality of the statement.

`X` is the set of points satisfying everything but the nodal row in question; `f x` the value; `a x` the left-hand side of the nodal row
(net flow at the node and step), right-hand side `b₀ = 0` in the portfolio, `b₀ + d` after an extra injection `d` (sign convention of the
row).  LP duality (external solver, A1) gives a multiplier `y` with  `f x + y * (b₀ - a x) ≤ V₀`  for all `x ∈ X`  (the Lagrangian is bounded
by the optimal value `V₀`).  Then every point feasible for the perturbed right-hand side has value at most `V₀ + y * d`: the re-optimised
value is at most the original value plus price times injection.  Which of `±dual_value` the price is, and that it is read from the row of
the right (step, node), is what `C18.class_order.*`, `C18.rowmap.*` (proved) and the bounded placement / re-optimisation scenarios check.
-/

theorem multiplier_is_supergradient {X : Type*} (S : Set X) (f a : X → ℝ) (b₀ y V₀ : ℝ)
    (hdual : ∀ x ∈ S, f x + y * (b₀ - a x) ≤ V₀)
    (d : ℝ) (x : X) (hx : x ∈ S) (hfeas : a x = b₀ + d) :
    f x ≤ V₀ + y * d := by
  have h := hdual x hx
  rw [hfeas] at h
  nlinarith [h]

/-- the same for the re-optimised value `Vd` (a least upper bound of the perturbed problem's values) -/
theorem reoptimised_value_at_most_value_plus_price_times_injection {X : Type*} (S : Set X) (f a : X → ℝ) (b₀ y V₀ : ℝ)
    (hdual : ∀ x ∈ S, f x + y * (b₀ - a x) ≤ V₀)
    (d Vd : ℝ) (hVd : ∃ x ∈ S, a x = b₀ + d ∧ f x = Vd) :
    Vd ≤ V₀ + y * d := by
  obtain ⟨x, hx, hfeas, hv⟩ := hVd
  rw [← hv]
  exact multiplier_is_supergradient S f a b₀ y V₀ hdual d x hx hfeas
