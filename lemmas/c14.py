"""C14: bridging lemmas between the contract of the same-frequency restricted grid (C08.window.*: the interval grid's steps are exactly the
steps k of the reference grid with start <= t_k < end) and the form in which contracts/split_setup.py uses it (a block of consecutive steps
[lb(start), lb(end)) with lb(t) = number of instants before t).  Spec side only; instants strictly increasing (WF_TG)."""
import z3
from pyvc.extras import provider, prove

T = z3.Int('T')
tp = z3.Function('tp', z3.IntSort(), z3.IntSort())
lb = z3.Function('lb', z3.IntSort(), z3.IntSort())
i, j, k, t, t1, t2, s, e = z3.Ints('i j k t t1 t2 s e')
WF = [T >= 0, z3.ForAll([i, j], z3.Implies(z3.And(i >= 0, i < j, j < T), tp(i) < tp(j)))]
# definition of lb: 0 <= lb(t) <= T and  k < lb(t)  <=>  tp(k) < t   for the steps k of the grid
DEF = [z3.ForAll([t], z3.And(lb(t) >= 0, lb(t) <= T)),
       z3.ForAll([t, k], z3.Implies(z3.And(k >= 0, k < T), (k < lb(t)) == (tp(k) < t)))]


@provider('C14')
def c14_lemmas(prop, tier, seed):
    obs = []
    # such a function exists for increasing instants: for every t the set {k : tp(k) < t} is downward closed
    obs.append(prove('C14.lemma.steps_before_an_instant_form_a_prefix', WF, z3.ForAll([i, j, t], z3.Implies(z3.And(i >= 0, i <= j, j < T, tp(j) < t), tp(i) < t)),
                     function='lemma:c14'))
    # monotone: an earlier instant has no more steps before it (used as a derived fact in the split harness)
    obs.append(prove('C14.lemma.lb_is_monotone', WF + DEF + [t1 <= t2], lb(t1) <= lb(t2), function='lemma:c14'))
    # the steps with start <= tp(k) < end are exactly the block [lb(start), lb(end))
    obs.append(prove('C14.lemma.window_is_a_block', WF + DEF + [k >= 0, k < T], z3.And(s <= tp(k), tp(k) < e) == z3.And(lb(s) <= k, k < lb(e)), function='lemma:c14'))
    # a grid that starts at its first instant has no step before its start; every step is before its end
    obs.append(prove('C14.lemma.block_of_the_whole_horizon', WF + DEF + [T >= 1, tp(0) == s, z3.ForAll([k], z3.Implies(z3.And(k >= 0, k < T), tp(k) < e))],
                     z3.And(lb(s) == 0, lb(e) == T), function='lemma:c14'))
    return dict(obligations=obs)
