"""Property-level lemmas machine-checked by Lean 4 + Mathlib (lemmas/lean/*.lean):

  C01  NodalRow.lean         from the contract of create_nodal_restr (bijection entries <-> dispatch rows, distinct records) the linear form
                             of every nodal row is the net flow at its recorded (step, node)
  C17  StochasticBounds.lean the optimisation meta-theorems from "the solver returns an optimal point of the robust / two-stage problem" to the
                             inequalities of the statement (robust worst case bounds; EEV <= two-stage <= wait-and-see; = deterministic)
  C13  MinorWeights.lean     from the contract of __extend_mapping_to_minor_grid__ (factor = dt / coarse dt x own factor) and of the coarse grid
                             (coarse dt = sum of minor dt): factors of a coarse step add up to the own factor; constant rate
  C04  ValueAccounting.lean  from the assembly contract (variables of asset a = block [off a, off a + sz a)) and the dcf contract the per-asset
                             cash-flow totals add up to -(c . x), the reported value

quick tier:    the file's sha256 must be the one recorded in lemmas/lean/ACCEPTED.json when Lean last accepted it (and the file is scanned for
               sorry / axiom / admit); a changed file without re-acceptance is a checker error, not a verdict.
thorough tier: Lean re-checks the file (about 10 s CPU each, Mathlib import)."""
import hashlib
import json
import os
import subprocess
import time

from pyvc.extras import provider, lemma_record

HERE = os.path.join(os.path.dirname(os.path.abspath(__file__)), 'lean')
LEMMAS = {'C01': [('NodalRow.lean', 'C01.lemma.nodal_row_is_net_flow_at_recorded_node_and_step', 'lean:NodalRow.nodal_row_is_net_flow')],
          'C04': [('ValueAccounting.lean', 'C04.lemma.asset_cash_flow_totals_add_up_to_the_value', 'lean:ValueAccounting.value_is_sum_of_asset_cash_flows')],
          'C13': [('PeriodicMerge.lean', 'C13.lemma.merged_problem_evaluates_like_fine_problem_with_equalities', 'lean:PeriodicMerge.periodic_merge_evaluates_like_fine_problem_with_equalities'),
                  ('PeriodicMerge.lean', 'C13.lemma.average_of_equal_bounds_is_the_common_bound', 'lean:PeriodicMerge.average_of_equal_bounds'),
                  ('MinorWeights.lean', 'C13.lemma.minor_step_factors_add_up_to_the_rows_own_factor', 'lean:MinorWeights.minor_factors_add_up_to_own_factor'),
                  ('MinorWeights.lean', 'C13.lemma.dispatch_rate_is_constant_within_a_coarse_step', 'lean:MinorWeights.minor_rate_is_constant')],
          'C14': [('SplitBounds.lean', 'C14.lemma.uncoupled_split_is_an_unsplit_optimum_with_the_summed_value', 'lean:SplitBounds.uncoupled_split_is_optimal'),
                  ('SplitBounds.lean', 'C14.lemma.split_never_exceeds_unsplit_when_coupled_by_storages_only', 'lean:SplitBounds.split_never_exceeds_unsplit')],
          'C18': [('Supergradient.lean', 'C18.lemma.lagrange_multiplier_of_the_nodal_row_is_a_supergradient', 'lean:Supergradient.reoptimised_value_at_most_value_plus_price_times_injection')],
          'C17': [('StochasticBounds.lean', 'C17.lemma.robust_worst_case_between_single_scenario_solutions_and_smallest_optimum', 'lean:StochasticBounds.robust_worst_case_bounds'),
                  ('StochasticBounds.lean', 'C17.lemma.two_stage_at_most_mean_of_scenario_optima', 'lean:StochasticBounds.two_stage_at_most_mean_of_scenario_optima'),
                  ('StochasticBounds.lean', 'C17.lemma.two_stage_at_least_value_of_fixed_present', 'lean:StochasticBounds.two_stage_at_least_value_of_fixed_present'),
                  ('StochasticBounds.lean', 'C17.lemma.two_stage_equals_deterministic_when_scenarios_coincide', 'lean:StochasticBounds.two_stage_equals_deterministic_when_scenarios_coincide')]}


def _sha(path):
    return hashlib.sha256(open(path, 'rb').read()).hexdigest()


def _one(fname, name, fn, tier):
    path = os.path.join(HERE, fname)
    src = open(path).read()
    banned = [w for w in ('sorry', 'admit', 'axiom ', 'native_decide', 'unsafe') if w in src.split('-/', 1)[-1]]
    if banned:
        return dict(obligations=[lemma_record(name, 'UNDECIDED', 'lean', note='file contains ' + ', '.join(banned), function=fn)])
    acc = json.load(open(os.path.join(HERE, 'ACCEPTED.json')))
    t0 = time.time()
    if tier == 'thorough' or os.environ.get('PYVC_RUN_LEAN') == '1':
        try:
            r = subprocess.run(['lean', path], capture_output=True, text=True, timeout=1500)
        except (subprocess.TimeoutExpired, FileNotFoundError) as e:
            return dict(obligations=[lemma_record(name, 'UNDECIDED', 'lean', time.time() - t0, note=f'lean not run to completion: {type(e).__name__}', function=fn)])
        ok = r.returncode == 0 and 'error' not in (r.stdout + r.stderr) and 'sorry' not in (r.stdout + r.stderr)
        return dict(obligations=[lemma_record(name, 'DISCHARGED' if ok else 'UNDECIDED', 'lean 4 + Mathlib (re-checked)', time.time() - t0,
                                              note=None if ok else (r.stdout + r.stderr)[-600:], function=fn)])
    if acc.get(fname) != _sha(path):
        return dict(errors=[f'lemmas/lean/{fname} differs from the version Lean accepted (ACCEPTED.json): run the thorough tier / tools/accept_lean.sh'])
    return dict(obligations=[lemma_record(name, 'DISCHARGED', 'lean 4 + Mathlib (acceptance of this exact file recorded in lemmas/lean/ACCEPTED.json; re-checked in the thorough tier)',
                                          0.0, function=fn)])


@provider('C01', 'C04', 'C13', 'C14', 'C17', 'C18')
def lean_lemmas(prop, tier, seed):
    out = dict(obligations=[], errors=[])
    for (fname, name, fn) in LEMMAS.get(prop, []):
        r = _one(fname, name, fn, tier)
        out['obligations'] += r.get('obligations', [])
        out['errors'] += r.get('errors', [])
    return out
