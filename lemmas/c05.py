"""C05: from the storage rows proved on the real source (contracts/assets_storage.py, C05.storage.rows.*) to the physical statement.

Variables: x_in[j] <= 0 (charging), x_out[j] >= 0 (discharging).  Net charged volume up to step r:
    net_r = sum_{j<=r} (-eff x x_in[j] - x_out[j])          (= eff x charged - discharged)
Physical level  L_r = start + net_r + Q_r  (Q_r = accumulated inflow).  The proved rows have left-hand side  lhs_r = -sum_{j<=r}(eff x x_in[j] +
x_out[j]) = net_r  and right-hand sides  U_r: <= size - start - Q_r,  L_r: >= -start - Q_r,  last row: both  end - start - Q_{n-1}.
The lemmas are the (linear) steps from a feasible point of those rows to the statement, per step, with the prefix sum as a free real (the sum
itself is the contract's business), and the converse (the rows demand no more than the statement)."""
import z3
from pyvc.extras import provider, prove

net, Q, start, size, end, lhs = z3.Reals('net_r Q_r start size end lhs_r')


@provider('C05')
def c05_lemmas(prop, tier, seed):
    L = start + net + Q
    hy = [lhs == net]
    obs = [
        prove('C05.lemma.upper_row_gives_level_at_most_size', hy + [lhs <= size - start - Q], L <= size, function='lemma:c05'),
        prove('C05.lemma.lower_row_gives_level_at_least_zero', hy + [lhs >= -start - Q], L >= 0, function='lemma:c05'),
        prove('C05.lemma.last_rows_give_end_level', hy + [lhs <= end - start - Q, lhs >= end - start - Q], L == end, function='lemma:c05'),
        prove('C05.lemma.rows_demand_no_more_than_the_statement', hy + [L >= 0, L <= size], z3.And(lhs <= size - start - Q, lhs >= -start - Q), function='lemma:c05'),
    ]
    # rate limits (one-variable form): bounds -cap_in x dt <= x <= cap_out x dt  <=>  charged <= cap_in x dt and discharged <= cap_out x dt
    x, ci, co, dt = z3.Reals('x cap_in cap_out dt')
    ch, dis = z3.If(x < 0, -x, 0), z3.If(x > 0, x, 0)
    obs.append(prove('C05.lemma.bounds_are_the_rate_limits_one_variable', [ci >= 0, co >= 0, dt > 0],
                     z3.And(x >= -ci * dt, x <= co * dt) == z3.And(ch <= ci * dt, dis <= co * dt), function='lemma:c05'))
    return dict(obligations=obs)
