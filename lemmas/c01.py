"""C01 property-level lemma, machine-checked by Lean 4 + Mathlib (lemmas/lean/NodalRow.lean):
from the contract of create_nodal_restr (bijection entries <-> dispatch rows, distinct records) the linear form of every
nodal row is the net flow at its recorded (step, node).

quick tier:    the file's sha256 must be the one recorded in lemmas/lean/ACCEPTED.json when Lean last accepted it (and the file
               is scanned for sorry / axiom / admit);  a changed file without re-acceptance is a checker error, not a verdict.
thorough tier: Lean re-checks the file (about 10 s CPU, Mathlib import)."""
import hashlib
import json
import os
import subprocess
import time

from pyvc.extras import provider, lemma_record

HERE = os.path.join(os.path.dirname(os.path.abspath(__file__)), 'lean')
NAME = 'C01.lemma.nodal_row_is_net_flow_at_recorded_node_and_step'


def _sha(path):
    return hashlib.sha256(open(path, 'rb').read()).hexdigest()


@provider('C01')
def lean_nodal_row(prop, tier, seed):
    path = os.path.join(HERE, 'NodalRow.lean')
    src = open(path).read()
    banned = [w for w in ('sorry', 'admit', 'axiom ', 'native_decide', 'unsafe') if w in src.split('-/', 1)[-1]]
    if banned:
        return dict(obligations=[lemma_record(NAME, 'UNDECIDED', 'lean', note='file contains ' + ', '.join(banned), function='lean:NodalRow.nodal_row_is_net_flow')])
    acc = json.load(open(os.path.join(HERE, 'ACCEPTED.json')))
    t0 = time.time()
    if tier == 'thorough' or os.environ.get('PYVC_RUN_LEAN') == '1':
        try:
            r = subprocess.run(['lean', path], capture_output=True, text=True, timeout=1500)
        except (subprocess.TimeoutExpired, FileNotFoundError) as e:
            return dict(obligations=[lemma_record(NAME, 'UNDECIDED', 'lean', time.time() - t0, note=f'lean not run to completion: {type(e).__name__}', function='lean:NodalRow.nodal_row_is_net_flow')])
        ok = r.returncode == 0 and 'error' not in (r.stdout + r.stderr) and 'sorry' not in (r.stdout + r.stderr)
        rec = lemma_record(NAME, 'DISCHARGED' if ok else 'UNDECIDED', 'lean 4 + Mathlib (re-checked)', time.time() - t0,
                           note=None if ok else (r.stdout + r.stderr)[-600:], function='lean:NodalRow.nodal_row_is_net_flow')
        return dict(obligations=[rec])
    if acc.get('NodalRow.lean') != _sha(path):
        return dict(errors=['lemmas/lean/NodalRow.lean differs from the version Lean accepted (ACCEPTED.json): run the thorough tier / tools/accept_lean.sh'])
    return dict(obligations=[lemma_record(NAME, 'DISCHARGED', 'lean 4 + Mathlib (acceptance of this exact file recorded in lemmas/lean/ACCEPTED.json; re-checked in the thorough tier)',
                                          0.0, function='lean:NodalRow.nodal_row_is_net_flow')])
