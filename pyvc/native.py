"""pyvc.native -- run-time twin: real EAO objects <-> model values.

* `wrap(value)` converts real numpy / scipy / pandas / eaopack results into the value domain of
  pyvc.sym with Python-number elements, so that a contract's `post` (written with pyvc.spec
  helpers) can be evaluated on what the real code returned.
* `Params` holds a concrete assignment of a contract's symbols (from a z3 model, an enumerated
  corpus, or a random draw).
* `synthetic_grid` builds a real `Timegrid` whose step lengths are prescribed.
"""
import math
import z3

from . import sym
from .sym import Arr, Mat, Obj, DF


def wrap(v, depth=0):
    import numpy as np
    import pandas as pd
    import scipy.sparse as sp
    if v is None or isinstance(v, (bool, int, float, str)):
        return v
    if isinstance(v, (np.bool_,)):
        return bool(v)
    if isinstance(v, np.integer):
        return int(v)
    if isinstance(v, np.floating):
        return float(v)
    if isinstance(v, pd.Timestamp):
        return sym.TS(int(v.value), str(v.tz) if v.tz is not None else None)
    if isinstance(v, np.ndarray):
        if v.ndim == 1:
            vals = [wrap(x) for x in v.tolist()]
            return Arr(len(vals), lambda i, vals=vals: vals[int(i)])
        if v.ndim == 2:
            d = v.tolist()
            return Mat(v.shape[0], v.shape[1], lambda r, c, d=d: wrap(d[int(r)][int(c)]), sparse=False)
    if sp.issparse(v):
        d = v.toarray().tolist()
        return Mat(v.shape[0], v.shape[1], lambda r, c, d=d: float(d[int(r)][int(c)]))
    if isinstance(v, pd.DatetimeIndex):
        vals = [wrap(x) for x in v]
        return Arr(len(vals), lambda i, vals=vals: vals[int(i)])
    if isinstance(v, pd.Index):
        vals = [wrap(x) for x in v.tolist()]
        return Arr(len(vals), lambda i, vals=vals: vals[int(i)])
    if isinstance(v, pd.Series):
        return wrap(v.values)
    if isinstance(v, pd.DataFrame):
        out = DF()
        out.n = len(v)
        out.index = wrap(v.index)
        for c in v.columns:
            col = v[c].tolist()
            col = [None if (isinstance(x, float) and math.isnan(x)) else wrap(x) for x in col]
            out.cols[c] = Arr(len(col), lambda i, col=col: col[int(i)])
        return out
    if isinstance(v, (list, tuple)):
        return type(v)(wrap(x, depth + 1) for x in v)
    if isinstance(v, dict):
        return {k: wrap(x, depth + 1) for k, x in v.items()}
    if hasattr(v, '__dict__') and depth < 3:
        o = Obj(type(v).__name__)
        for k, x in v.__dict__.items():
            try:
                o.set(k, wrap(x, depth + 1))
            except Exception:
                o.set(k, x)
        o.attrs['__real__'] = v
        return o
    return v


class NotRealisable(Exception):
    """the model cannot be turned into real objects (replay reports no-failing-input-found)"""


class Params(dict):
    """concrete values of a contract's symbols.  Functions are lists indexed from 0."""

    def fun(self, name, default=0.0):
        vals = self.get(name, [])

        def f(i):
            i = int(i)
            return vals[i] if 0 <= i < len(vals) else default
        return f


def model_value(model, term):
    v = model.eval(term, model_completion=True)
    if z3.is_int_value(v):
        return v.as_long()
    if z3.is_rational_value(v):
        return float(v.numerator_as_long()) / float(v.denominator_as_long())
    if z3.is_algebraic_value(v):
        return float(v.approx(12).numerator_as_long()) / float(v.approx(12).denominator_as_long())
    if z3.is_true(v):
        return True
    if z3.is_false(v):
        return False
    return str(v)


def params_from_model(model, schema):
    """schema: list of (name, kind, size) with kind in int|real|bool|int_fun|real_fun|bool_fun and
    size the name of the int parameter giving the number of entries (for *_fun)."""
    P = Params()
    for (name, kind, size) in schema:
        if kind == 'int':
            P[name] = model_value(model, z3.Int(name))
        elif kind == 'real':
            P[name] = model_value(model, z3.Real(name))
        elif kind == 'bool':
            P[name] = model_value(model, z3.Bool(name))
    for (name, kind, size) in schema:
        if kind.endswith('_fun'):
            n = P[size] if isinstance(size, str) else int(size)
            n = max(0, min(int(n), 64))
            rs = {'int_fun': z3.IntSort(), 'real_fun': z3.RealSort(), 'bool_fun': z3.BoolSort()}[kind]
            f = z3.Function(name, z3.IntSort(), rs)
            P[name] = [model_value(model, f(z3.IntVal(k))) for k in range(n)]
    return P


def synthetic_grid(T, dt=None, tz=None, unit='h'):
    """a real eaopack Timegrid with T steps; if dt is given (list of positive floats, in main time
    units) the time points are placed accordingly and dt / Dt are recomputed the way the constructor
    does.  Returns (timegrid, synthetic?)"""
    import numpy as np
    import pandas as pd
    import eaopack as eao
    T = int(T)
    start = pd.Timestamp(2021, 1, 1)
    if T <= 0:
        raise ValueError('empty root grid is not constructible (assert start < end)')
    end = start + pd.Timedelta(T, 'h')
    tg = eao.assets.Timegrid(start, end, freq='h', main_time_unit=unit, timezone=tz)
    synthetic = False
    if dt is not None and any(abs(float(x) - 1.0) > 1e-12 for x in dt):
        synthetic = True
        one = pd.Timedelta(1, unit)
        pts = [tg.start]
        for x in dt:
            pts.append(pts[-1] + one * float(x))
        pts = pd.DatetimeIndex(pts)
        tg.timepoints = pts[:-1]
        tg.end = pts[-1]
        d = (pts[1:] - pts[:-1]) / one
        tg.dt = np.asarray(d.values, dtype=float)
        tg.Dt = np.cumsum(tg.dt)
    return tg, synthetic


def realisable_wacc(P):
    """discount factors are a transcendental function of wacc and elapsed time, so a model's g_df values are
    not realisable directly: if the model needs factors different from 1, replay uses a non-zero wacc (the real
    factors are then recomputed from the real grid on both sides of the comparison)"""
    P = Params(P)
    w = float(P.get('wacc', 0.0) or 0.0)
    if any(abs(float(x) - 1.0) > 1e-9 for x in P.get('g_df', [])) and abs(w) < 1e-9:
        w = 0.5
    if w <= -1.0:
        w = 0.5
    P['wacc'] = w
    return P


# ------------------------------------------------------------------------------- random small instances
VALUES = [-2.0, -1.0, -0.5, 0.0, 0.0, 0.5, 1.0, 1.0, 2.0, 3.0]
POS = [0.25, 0.5, 1.0, 1.0, 1.0, 1.5, 2.0]


def sample_params(schema, rng, max_size=4, hooks=None):
    """a random small assignment for a contract schema.  Conventions: int parameters are sizes in
    [0, max_size] (g_T >= 1); r_I is a contiguous window inside [0, g_T); g_dt positive; other real
    functions / scalars from a small menu of values (incl. 0 and negative numbers)."""
    hooks = hooks or {}
    P = Params()
    for (name, kind, size) in schema:
        if name in hooks:
            continue
        if kind == 'int':
            if name == 'g_T':
                P[name] = rng.randint(1, max_size)
            elif name == 'r_n':
                P[name] = None
            else:
                P[name] = rng.randint(0, max_size)
        elif kind == 'real':
            P[name] = rng.choice(VALUES)
        elif kind == 'bool':
            P[name] = rng.random() < 0.5
    if 'r_n' in P:
        T = P.get('g_T', max_size)
        n = rng.choice([T, T, rng.randint(0, T)])
        a = rng.randint(0, T - n)
        P['r_n'] = n
        P['r_I'] = list(range(a, a + n))
    for (name, kind, size) in schema:
        if name in hooks:
            P[name] = hooks[name](P, rng)
    for (name, kind, size) in schema:
        if not kind.endswith('_fun') or name in P:
            continue
        n = P[size] if isinstance(size, str) else int(size)
        if name == 'g_dt':
            P[name] = [rng.choice(POS) for _ in range(n)] if rng.random() < 0.6 else [1.0] * n
        elif name == 'g_df':
            P[name] = [1.0] * n
        elif name == 'g_tp':
            P[name] = [10 * k for k in range(n)]
        elif kind == 'int_fun':
            P[name] = [rng.randint(0, max_size) for _ in range(n)]
        elif kind == 'bool_fun':
            P[name] = [rng.random() < 0.6 for _ in range(n)]
        else:
            P[name] = [rng.choice(VALUES) for _ in range(n)]
    return P
