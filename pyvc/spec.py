"""pyvc.spec -- polymorphic helpers for writing contracts once and evaluating them two ways:

  * on z3 terms (verification conditions), and
  * on Python floats / ints / bools (run-time twin on real numpy results; replay).

A spec is ordinary Python code over these helpers; arrays are `Arr` closures in both modes (the
native mode wraps numpy arrays with `from_numpy`).  Equality of reals is exact on terms and
within a relative tolerance natively.
"""
import math
import z3

from . import sym
from .sym import Arr, lift, is_z3, concrete_int

TOL = 1e-7
concrete_int = sym.concrete_int


def _sym(*xs):
    return any(is_z3(x) for x in xs)


def add(a, b):
    return sym.binop('Add', a, b)


def sub(a, b):
    return sym.binop('Sub', a, b)


def mul(a, b):
    return sym.binop('Mult', a, b)


def div(a, b):
    return sym.binop('Div', a, b)


def neg(a):
    return sym.neg(a)


def ite(c, a, b):
    """a and b may be thunks: natively only the selected branch is evaluated (guarded index expressions)"""
    if isinstance(c, (bool,)):
        r = a if c else b
        return r() if callable(r) else r
    if callable(a):
        a = a()
    if callable(b):
        b = b()
    return sym.ite(c, a, b)


def eq(a, b):
    if _sym(a, b):
        return sym.cmpop('Eq', a, b)
    if isinstance(a, str) or isinstance(b, str) or a is None or b is None:
        return a == b
    if isinstance(a, bool) or isinstance(b, bool):
        return bool(a) == bool(b)
    a, b = float(a), float(b)
    if math.isnan(a) or math.isnan(b):
        return False
    return abs(a - b) <= TOL * (1.0 + abs(a) + abs(b))


def le(a, b):
    if _sym(a, b):
        return sym.cmpop('LtE', a, b)
    return float(a) <= float(b) + TOL * (1.0 + abs(float(a)) + abs(float(b)))


def lt(a, b):
    if _sym(a, b):
        return sym.cmpop('Lt', a, b)
    return a < b


def ge(a, b):
    return le(b, a)


def gt(a, b):
    return lt(b, a)


def and_(*xs):
    if _sym(*xs):
        return z3.And(*[sym.to_bool(x) for x in xs])
    return all(bool(x) for x in xs)


def or_(*xs):
    if _sym(*xs):
        return z3.Or(*[sym.to_bool(x) for x in xs])
    return any(bool(x) for x in xs)


def not_(x):
    if is_z3(x):
        return z3.Not(sym.to_bool(x))
    return not x


def implies(a, b):
    """a -> b ; b may be a thunk (evaluated natively only when a holds, so that guarded index
    expressions are not evaluated out of range)"""
    if callable(b):
        if not is_z3(a):
            if not a:
                return True
            return b()
        b = b()
    if _sym(a, b):
        return z3.Implies(sym.to_bool(a), sym.to_bool(b))
    return (not a) or bool(b)


def iff(a, b):
    if _sym(a, b):
        return sym.to_bool(a) == sym.to_bool(b)
    return bool(a) == bool(b)


def min_(a, b):
    if _sym(a, b):
        return sym.s_min(a, b)
    return min(a, b)


def max_(a, b):
    if _sym(a, b):
        return sym.s_max(a, b)
    return max(a, b)


def forall(n, pred):
    """forall i in [0,n): pred(i)"""
    cn = concrete_int(n)
    if cn is not None and not is_z3(n):
        vals = [pred(k) for k in range(cn)]
        if not _sym(*vals):
            return all(bool(v) for v in vals)
        return z3.And(*[sym.to_bool(v) for v in vals]) if vals else z3.BoolVal(True)
    i = z3.Int(sym.fresh_name('s'))
    sym.SCOPE.append(i)
    try:
        body = sym.to_bool(pred(i))
    finally:
        sym.SCOPE.pop()
    return z3.ForAll([i], z3.Implies(z3.And(i >= 0, i < lift(n)), body))


def exists(n, pred):
    cn = concrete_int(n)
    if cn is not None and not is_z3(n):
        vals = [pred(k) for k in range(cn)]
        if not _sym(*vals):
            return any(bool(v) for v in vals)
        return z3.Or(*[sym.to_bool(v) for v in vals]) if vals else z3.BoolVal(False)
    i = z3.Int(sym.fresh_name('s'))
    sym.SCOPE.append(i)
    try:
        body = sym.to_bool(pred(i))
    finally:
        sym.SCOPE.pop()
    return z3.Exists([i], z3.And(i >= 0, i < lift(n), body))


def psum(g, lo, hi, ctx=None):
    """sum_{lo <= j < hi} g(j)"""
    if not is_z3(lo) and not is_z3(hi):
        vals = [g(j) for j in range(int(lo), int(hi))]
        if not _sym(*vals):
            return float(sum(vals)) if vals else 0.0
    P = sym.SUMS.prefix(g, ctx)
    return P(lift(hi)) - P(lift(lo))


def from_numpy(a):
    """wrap a real 1-D numpy array / list as an Arr with Python-number elements"""
    import numpy as np
    a = np.asarray(a)
    vals = a.tolist()
    return Arr(len(vals), lambda i: vals[int(i)])


def fresh_index(n, name='i'):
    """a fresh index constant together with its range formula"""
    i = z3.Int(sym.fresh_name(name))
    return i, z3.And(i >= 0, i < lift(n))


def char_at(ct, r):
    """letter r of a constraint-type string (Python str natively; Seg of letters symbolically)"""
    from .interp import Seg, RepStr, Family, FnStr
    if isinstance(ct, str):
        return ct[int(r)]
    if isinstance(ct, RepStr):
        return ct.ch
    if isinstance(ct, FnStr):
        return ct.f(r)
    if isinstance(ct, Seg):
        offs = 0
        pieces = []
        for sg in ct.segs:
            if isinstance(sg, Family):
                raise sym.Unsupported('char_at into a loop-built family')
            ln = sg.n if isinstance(sg, (RepStr, FnStr)) else len(sg)
            pieces.append((offs, ln, sg))
            offs = add(offs, ln)
        out = None
        for (o, ln, sg) in reversed(pieces):
            if isinstance(sg, RepStr):
                val = sg.ch
            elif isinstance(sg, FnStr):
                val = sg.f(sub(r, o))
            else:
                # explicit string: pick by position
                val = None
                for k in range(len(sg) - 1, -1, -1):
                    val = sg[k] if val is None else sym.ite(eq(r, add(o, k)), sg[k], val)
            out = val if out is None else sym.ite(lt(r, add(o, ln)), val, out)
        return out
    raise sym.Unsupported('char_at of ' + type(ct).__name__)


def str_len(ct):
    from .interp import Seg, RepStr, FnStr
    if isinstance(ct, str):
        return len(ct)
    if isinstance(ct, (RepStr, FnStr)):
        return ct.n
    if isinstance(ct, Seg):
        return ct.total()
    raise sym.Unsupported('str_len')
