"""pyvc.engine -- path exploration, obligation generation, back ends, verdicts.

Verdicts (DESIGN.md 2.5):
  DISCHARGED   some solver answered unsat (negated VC) and none answered sat
  REFUTED      sat on a havoc-free VC  -> goes to replay
  UNDECIDED    unknown / timeout / VC mentions a havoc symbol / goal could not be formed
  ERROR        generator exception
`unknown`, time-outs and tracebacks are never mapped to a violation.
"""
import os
import subprocess
import tempfile
import time
import traceback
import multiprocessing as mp

import z3

from . import sym, libmodel
from .sym import Havoc, Unsupported, PyRaise
from .interp import Interp, Repo, CheckerError, free_funcs, free_consts, LoopCheckEnd

Z3_TIMEOUT_MS = int(os.environ.get('PYVC_Z3_TIMEOUT_MS', '20000'))
CVC5_TIMEOUT_MS = int(os.environ.get('PYVC_CVC5_TIMEOUT_MS', '30000'))


class Model:
    """facade handed to the interpreter (name resolution and library model)"""
    global_name = staticmethod(libmodel.global_name)
    value_attr = staticmethod(libmodel.value_attr)
    obj_attr = staticmethod(libmodel.obj_attr)
    hasattr_ = staticmethod(libmodel.hasattr_)
    construct = staticmethod(libmodel.construct)
    df_setitem = staticmethod(libmodel.df_setitem)
    df_getitem = staticmethod(libmodel.df_getitem)
    df_setattr = staticmethod(libmodel.df_setattr)
    mask_select = staticmethod(libmodel.mask_select)
    obj_getitem = staticmethod(libmodel.obj_getitem)
    seg_get = staticmethod(libmodel.seg_get)
    matmul = staticmethod(libmodel.matmul)


class Obligation:
    def __init__(self, name, qualname, case, path, hyps, goal, kind='post', line=None, note=None, undecided=None,
                 replay=None):
        self.name, self.qualname, self.case, self.path = name, qualname, case, path
        self.hyps, self.goal, self.kind, self.line = hyps, goal, kind, line
        self.note = note
        self.undecided = undecided      # reason string if the VC could not be formed
        self.replay = replay            # dict with what is needed to replay a model natively
        self.verdict = None
        self.backend = None
        self.seconds = 0.0
        self.model_text = None
        self.smt2 = None

    def ident(self):
        return f'{self.name}@{self.qualname}[{self.case}]#{self.path}'


class Harness:
    """symbol factory + assumptions for one path run"""

    def __init__(self):
        self.assumptions = []
        self.symbols = {}
        self.protect = {}

    def assume(self, f):
        self.assumptions.append(f)

    def real(self, name):
        return self.symbols.setdefault(name, z3.Real(name))

    def int(self, name):
        return self.symbols.setdefault(name, z3.Int(name))

    def bool(self, name):
        return self.symbols.setdefault(name, z3.Bool(name))

    def str(self, name):
        return self.symbols.setdefault(name, z3.Const(name, sym.Str))

    def fun(self, name, *sorts):
        return self.symbols.setdefault(name, z3.Function(name, *sorts))

    def real_arr(self, name, n):
        f = self.fun(name, z3.IntSort(), z3.RealSort())
        return sym.Arr(n, lambda i: f(sym.lift(i)))

    def int_arr(self, name, n):
        f = self.fun(name, z3.IntSort(), z3.IntSort())
        return sym.Arr(n, lambda i: f(sym.lift(i)))

    def forall_idx(self, n, pred, name='h'):
        i = z3.Int(sym.fresh_name(name))
        return z3.ForAll([i], z3.Implies(z3.And(i >= 0, i < sym.lift(n)), pred(i)))


def reset_globals():
    sym.reset_counter()
    sym.reset_sums()
    sym.reset_compress()
    sym.DEPTH[0] = 0
    del sym.SCOPE[:]
    del sym.EXTRA[:]


class PathRun:
    def __init__(self, decisions, interp, outcome, harness, ctx):
        self.decisions, self.interp, self.outcome, self.harness, self.ctx = decisions, interp, outcome, harness, ctx


def explore(repo, contract, case, max_paths=400):
    """Run the function under `contract` for configuration `case` along every feasible path."""
    mod, node, cls = repo.get(contract.qualname)
    stack = [[]]
    runs = []
    while stack:
        dec = stack.pop()
        reset_globals()
        H = Harness()
        ctx = contract.harness(H, case)        # dict: args, kwargs, self_obj, plus whatever post needs
        I = Interp(repo, contract.callees(case, ctx), dec, model=Model)
        I.inline_ok = set(getattr(contract, 'inline', ()))
        I.flags = dict(ctx.get('flags', {}))
        I.protect = dict(H.protect)
        I.loop_specs = contract.loops(case, ctx) if hasattr(contract, 'loops') else {}
        I.closure = dict(ctx.get('closure', {}))
        I.pc.extend(H.assumptions)
        I.assumptions.extend(H.assumptions)
        n0 = len(dec)
        try:
            ret = I.run_function(mod, node, ctx.get('args', []), ctx.get('kwargs', {}), self_obj=ctx.get('self_obj'),
                                 defcls=cls)
            outcome = ('return', ret)
        except PyRaise as e:
            outcome = ('raise', e.exc, e.msg)
        except LoopCheckEnd as e:
            outcome = ('loopcheck', str(e))
        except Unsupported as e:
            outcome = ('havoc', str(e))
        for k in range(n0, len(I.dec)):
            if I.forkable[k]:
                stack.append(I.dec[:k] + [False])
        pr = PathRun(list(I.dec), I, outcome, H, ctx)
        pr.state = sym.save_state()
        I.extra_axioms = list(sym.EXTRA)
        runs.append(pr)
        if len(runs) > max_paths:
            raise CheckerError(f'path explosion in {contract.qualname} case {case}')
    return runs


def background_axioms(I):
    return sym.SUMS.axioms() + sym.COMP.axioms() + sym.lit_axioms() + list(I.extra_axioms) + (sym.rpow_axioms() if getattr(I, 'uses_pow', True) else [])


def obligations_for(repo, contract, case):
    """All obligations (safety + postconditions) of one contract case, as Obligation objects whose
    formulas live in the current z3 context; they are serialised to SMT-LIB text immediately."""
    out = []
    runs = explore(repo, contract, case)
    info = dict(paths=len(runs), havocs=[], dropped=set(), outcomes=[])
    for pid, run in enumerate(runs):
        I = run.interp
        sym.restore_state(run.state)
        I.extra_axioms = sym.EXTRA
        info['havocs'].extend((ln, why) for (ln, why) in I.havocs)
        info['dropped'] |= I.dropped
        info['outcomes'].append(run.outcome[0] + (':' + run.outcome[1] if run.outcome[0] != 'return' else ''))
        if not I.feasible(z3.BoolVal(True)):
            info['outcomes'][-1] += ' (infeasible)'
            continue
        # the post may register further sums/compress symbols; run it first, then collect axioms
        posts = []
        try:
            # a path that only checks one iteration of a loop against its invariant ends there: no postcondition
            for item in (contract.post(run.harness, case, run.outcome, I, run.ctx) if run.outcome[0] != 'loopcheck' else ()):
                posts.append(item)
        except Unsupported as e:
            posts.append(('post-unformed', Havoc(str(e)), None))
        except PyRaise as e:
            posts.append(('post-unformed', Havoc('spec raised ' + e.exc), None))
        bg = background_axioms(I)
        hyps = list(I.pc) + bg
        if run.outcome[0] == 'loopcheck':
            # vacuity guard: the hypotheses of an invariant step (assumed invariant, ghost definitions, path condition)
            # must not be contradictory -- a refutable `False` here would discharge every step obligation for free
            sv = z3.Solver()
            sv.set('smt.mbqi', False)
            sv.set('timeout', 4000)
            sv.add(*hyps)
            if sv.check() == z3.unsat:
                raise CheckerError(f'vacuous loop invariant: the step hypotheses of {run.outcome[1]} in {contract.qualname} case {case} are contradictory')
        for sob in I.safety:
            if sob['kind'] in getattr(contract, 'ignore_safety', ()):
                continue
            out.append(mk_obl(f"{contract.prefix}.safe.{sob['kind']}:{sob['name']}", contract, case, pid,
                              (sob['hyps'] + bg) if 'hyps' in sob else hyps, sob['formula'], kind=sob['kind'], line=sob['line']))
        for item in posts:
            name, goal = item[0], item[1]
            replay = item[2] if len(item) > 2 else None
            if isinstance(goal, Havoc):
                out.append(Obligation(name, contract.qualname, case_id(case), pid, None, None, undecided=f'{goal.why}@{goal.line}', replay=replay))
                continue
            if goal is True:
                goal = z3.BoolVal(True)
            if goal is False:
                goal = z3.BoolVal(False)
            out.append(mk_obl(name, contract, case, pid, hyps, goal, replay=replay))
    return out, info


def case_id(case):
    if isinstance(case, dict):
        return ','.join(f'{k}={v}' for k, v in sorted(case.items()))
    return str(case)


def _to_text(fs):
    s = z3.Solver()
    s.add(*fs)
    return s.to_smt2()


_HYP_CACHE = {}


def mk_obl(name, contract, case, pid, hyps, goal, kind='post', line=None, replay=None):
    ob = Obligation(name, contract.qualname, case_id(case), pid, hyps, goal, kind=kind, line=line, replay=replay)
    key = tuple(h.get_id() for h in hyps)
    if key not in _HYP_CACHE:
        _HYP_CACHE.clear()
        _HYP_CACHE[key] = _to_text(hyps)
    ob.hyps_smt2 = _HYP_CACHE[key]
    ob.goal_smt2 = _to_text([goal])
    allf = z3.And(*hyps, goal)
    ob.havoc_syms = sorted(n for n in (free_consts(allf) | free_funcs(allf)) if 'havoc!' in n)
    ob.hyps = ob.goal = None       # z3 objects are not kept (not picklable); the text is the VC
    return ob


def full_smt2(ob):
    """the complete negated VC of one obligation as a single SMT-LIB benchmark"""
    hy = list(z3.parse_smt2_string(ob.hyps_smt2))
    gl = list(z3.parse_smt2_string(ob.goal_smt2))
    s = z3.Solver()
    s.add(*hy)
    s.add(z3.Not(z3.And(*gl)))
    return s.to_smt2()


# ------------------------------------------------------------------------------------ back ends
def _solve_z3(smt2, timeout_ms):
    """z3 with explicit instantiation first (pyvc.quant); returns (result, model text, reason, seconds)"""
    from . import quant
    t0 = time.time()
    try:
        assertions = list(z3.parse_smt2_string(smt2))
        res, stage, model = quant.check_qf_first(assertions, timeout_ms)
        mt = None
        if res == 'sat' and model is not None:
            try:
                mt = model.sexpr()
            except Exception:
                mt = None
        reason = stage
    except z3.Z3Exception as e:
        res, mt, reason = 'error', None, str(e)
    return res, mt, reason, time.time() - t0


def _solve_cvc5(smt2, timeout_ms):
    t0 = time.time()
    # cvc5 does not know z3's (check-sat) trailing commands format differences: the text is plain SMT-LIB 2
    text = '(set-logic ALL)\n' + smt2
    with tempfile.NamedTemporaryFile('w', suffix='.smt2', delete=False) as f:
        f.write(text)
        path = f.name
    try:
        p = subprocess.run(['/usr/bin/cvc5', '--lang=smt2', f'--tlimit={timeout_ms}', '--strings-exp', path],
                           capture_output=True, text=True, timeout=timeout_ms / 1000 + 10)
        outp = (p.stdout or '').strip().splitlines()
        res = outp[0].strip() if outp else 'error'
        if res not in ('sat', 'unsat', 'unknown'):
            res = 'error' if 'rror' in (p.stdout + p.stderr) else 'unknown'
        reason = (p.stderr or '')[:200]
    except subprocess.TimeoutExpired:
        res, reason = 'unknown', 'timeout'
    finally:
        os.unlink(path)
    return res, None, reason, time.time() - t0


def _work(job):
    """one bundle = all obligations of one path (shared hypotheses): the hypotheses are instantiated once
    on the ground terms of hypotheses and all goals, then every goal is checked incrementally; goals that
    do not fall to that get an individual attempt (own instantiation, full quantified query, cvc5)."""
    from . import quant
    hyps_text, goals, both, z3_ms, cvc5_ms = job[:5]
    fast = job[5] if len(job) > 5 else False
    out = []
    try:
        hyps = list(z3.parse_smt2_string(hyps_text))
        gls = [z3.And(*list(z3.parse_smt2_string(g))) for (_, g) in goals]
    except z3.Z3Exception as e:
        return [(idx, [('z3', 'error', 0.0, str(e))], None) for (idx, _) in goals]
    t0 = time.time()
    # negated goals, skolemised; those that become quantifier-free can share one incremental solver
    negs = []
    for g in gls:
        try:
            ng = quant.split_conj(quant.nnf_skolem([z3.Not(g)]))
        except z3.Z3Exception:
            ng = None
        negs.append(ng if ng is not None and not any(quant.has_quant(x) for x in ng) else None)
    # stage 1: z3 with E-matching only (MBQI off) on the quantified hypotheses -- fast and goal directed
    solver = None
    try:
        solver = z3.Solver()
        solver.set('timeout', max(3000, z3_ms // 3))
        solver.set('smt.mbqi', False)
        solver.add(*hyps)
    except z3.Z3Exception:
        solver = None
    shared = time.time() - t0
    for (idx, gtext), g, ng in zip(goals, gls, negs):
        t1 = time.time()
        res = None
        if solver is not None:
            solver.push()
            solver.add(z3.Not(g))
            try:
                r = solver.check()
            except z3.Z3Exception:
                r = z3.unknown
            solver.pop()
            if r == z3.unsat:
                res = [('z3', 'unsat', time.time() - t1 + shared / max(1, len(goals)), 'e-matching')]
        model = None
        if res is None and fast:
            res = [('z3', 'unknown', time.time() - t1, 'e-matching only (fast stage)')]
        elif res is None:
            r, model, reason, secs = _solve_z3_assertions(hyps + [z3.Not(g)], z3_ms)
            res = [('z3', r, secs, reason)]
            if r in ('unknown', 'error') or both:
                s = z3.Solver()
                s.add(*hyps)
                s.add(z3.Not(g))
                r2, _, reason2, secs2 = _solve_cvc5(s.to_smt2(), cvc5_ms)
                res.append(('cvc5', r2, secs2, reason2))
        elif both:
            s = z3.Solver()
            s.add(*hyps)
            s.add(z3.Not(g))
            r2, _, reason2, secs2 = _solve_cvc5(s.to_smt2(), cvc5_ms)
            res.append(('cvc5', r2, secs2, reason2))
        out.append((idx, res, model))
    return out


def _solve_z3_assertions(assertions, timeout_ms):
    """complete quantified query with the z3 command line binary under a hard wall-clock limit (the in-process
    timeout is not always honoured on non-linear problems)"""
    t0 = time.time()
    s = z3.Solver()
    s.add(*assertions)
    text = s.to_smt2()
    with tempfile.NamedTemporaryFile('w', suffix='.smt2', delete=False) as f:
        f.write(text)
        path = f.name
    secs = max(2, int(timeout_ms / 1000))
    try:
        p = subprocess.run(['z3-new', f'-T:{secs}', '-smt2', path], capture_output=True, text=True, timeout=secs + 10)
        outp = (p.stdout or '').strip().splitlines()
        res = outp[0].strip() if outp else 'unknown'
        if res not in ('sat', 'unsat', 'unknown'):
            res = 'unknown'
        reason = 'full (z3 cli)' + ('' if res != 'unknown' else ' ' + ' '.join(outp[:1])[:80])
    except subprocess.TimeoutExpired:
        res, reason = 'unknown', 'full (z3 cli) wall-clock limit'
    finally:
        os.unlink(path)
    return res, None, reason, time.time() - t0


def discharge(obls, both=False, procs=None, z3_ms=None, cvc5_ms=None, fast=False, only=None):
    z3_ms = z3_ms or Z3_TIMEOUT_MS
    cvc5_ms = cvc5_ms or CVC5_TIMEOUT_MS
    bundles = {}
    for i, ob in enumerate(obls):
        if only is not None and i not in only:
            continue
        if ob.undecided is not None and not getattr(ob, 'hyps_smt2', None):
            ob.verdict, ob.backend = 'UNDECIDED', 'none'
            continue
        bundles.setdefault((ob.qualname, ob.case, ob.path, hash(ob.hyps_smt2)), [ob.hyps_smt2, []])[1].append((i, ob.goal_smt2))
    jobs = [(h, goals, both and not fast, z3_ms, cvc5_ms, fast) for (h, goals) in bundles.values()]
    jobs.sort(key=lambda j: -len(j[1]))
    procs = procs or min(16, max(1, len(jobs)))
    if jobs:
        if procs > 1 and len(jobs) > 1:
            with mp.get_context('fork').Pool(procs) as pool:
                results = pool.map(_work, jobs, chunksize=1)
        else:
            results = [_work(j) for j in jobs]
        for bundle in results:
            for idx, res, model in bundle:
                ob = obls[idx]
                answers = {b: r for (b, r, _, _) in res}
                ob.seconds = sum(s for (_, _, s, _) in res)
                ob.detail = res
                if 'unsat' in answers.values() and 'sat' not in answers.values():
                    ob.verdict = 'DISCHARGED'
                    ob.backend = next(b for b, r in answers.items() if r == 'unsat')
                elif 'sat' in answers.values() and 'unsat' not in answers.values():
                    if ob.havoc_syms:
                        ob.verdict = 'UNDECIDED'
                        ob.undecided = 'sat but VC mentions havoc symbols ' + ','.join(ob.havoc_syms[:3])
                    else:
                        ob.verdict = 'REFUTED'
                    ob.backend = next(b for b, r in answers.items() if r == 'sat')
                    ob.model_text = model
                else:
                    ob.verdict = 'UNDECIDED'
                    ob.backend = '+'.join(answers)
                    ob.undecided = 'solver: ' + '; '.join(f'{b}={r} {why}'.strip() for (b, r, _, why) in res)
    return obls
