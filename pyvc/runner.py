"""pyvc.runner -- the check driver behind /verif/check.

    check <Cxx> [--tier quick|thorough]     decide one property
    check --replay <file>                  re-run a replay file natively

Exit codes: 0 held / 1 violation (VIOLATION line printed) / 2 undecided / 3 checker error.
"""
import argparse
import importlib
import json
import multiprocessing as mp
import os
import sys
import time
import traceback

ROOT = os.path.dirname(os.path.dirname(os.path.abspath(__file__)))
REPO = os.environ.get('PYVC_REPO', '/repo')

CONTRACT_MODULES = ['assets_contract', 'assets_storage', 'assets_transport', 'assets_orderbook', 'assets_report', 'basic_grid', 'portfolio_asm', 'optimize', 'chp_helpers', 'assets_scaled', 'grid_values', 'nodal_restr', 'split_optimize', 'assets_take', 'chp_driver', 'minor_grid', 'split_setup', 'structured', 'io_output', 'take_restr', 'cost_samples', 'slp', 'date_dict', 'time_units']


def load_contracts():
    import contracts.common as cc
    for m in CONTRACT_MODULES:
        importlib.import_module('contracts.' + m)
    return cc.REGISTRY


def _case_job(job):
    """worker: generate, discharge and (for failures) try to refute the obligations of one contract case"""
    ci, case, both, prop = job
    sys.path.insert(0, ROOT)
    if REPO not in sys.path:
        sys.path.insert(0, REPO)
    from pyvc import engine, refute
    from pyvc.interp import Repo
    t0 = time.time()
    out = dict(ci=ci, case=case, obligations=[], info={}, error=None)
    try:
        reg = load_contracts()
        c = reg[ci]
        repo = Repo(REPO)
        obs, info = engine.obligations_for(repo, c, case)
        out['info'] = dict(paths=info['paths'], outcomes=info['outcomes'],
                           havocs=sorted(set(f'{ln}:{why}' for ln, why in info['havocs'])),
                           dropped=sorted(info['dropped']))
        # stage 1: shared instantiation only (fast).  stage 2 for the rest: counterexample search with native
        # replay first, then the complete quantified query on both solvers.
        engine.discharge(obs, both=False, procs=1, fast=True)
        refuted = {}
        left = []
        cache = []
        budget = float(os.environ.get('PYVC_CASE_BUDGET_S', '600' if both else '110'))
        deadline = time.time() + budget
        failing = [k for k, ob in enumerate(obs) if ob.verdict != 'DISCHARGED']
        failing.sort(key=lambda k: (obs[k].kind != 'post', k))
        # stage 1b: cheap random small real instances (decides most genuinely false obligations at once)
        if failing and hasattr(c, 'native'):
            try:
                for P, nat in refute.random_natives(c, case, n=int(os.environ.get('PYVC_RANDOM_REFUTE', '120')), seed=1):
                    cache.append((P, nat, 'random'))
            except Exception:
                pass
            for k in list(failing):
                ob = obs[k]
                for (P0, nat0, b0) in cache:
                    hit, fl = refute.is_hit(ob.name, ob.kind, nat0, strict=not getattr(ob, 'hyps_smt2', None))
                    if hit:
                        refuted[k] = dict(status='reproduced', params=P0, native=nat0, bound=b0, failing=fl, note='random small instance')
                        failing.remove(k)
                        break
        # stage 1c: the complete quantified query (z3 / cvc5 command line, short limits) before the expensive
        # bounded-expansion model search: obligations that only need model-based instantiation end here
        for k in list(failing):
            ob = obs[k]
            if not getattr(ob, 'hyps_smt2', None) or getattr(ob, 'havoc_syms', None):
                continue
            if deadline - time.time() < 30:
                break
            engine.discharge(obs, both=True, procs=1, only={k}, z3_ms=12000, cvc5_ms=8000)
            if ob.verdict == 'DISCHARGED':
                failing.remove(k)
        for k in failing:
            ob = obs[k]
            if not getattr(ob, 'hyps_smt2', None) or getattr(ob, 'havoc_syms', None):
                # no VC could be formed (unmodelled construct): only a failing input on the real code can decide it
                if hasattr(c, 'native'):
                    if not any(x[2] == 'random' for x in cache):
                        for P, nat in refute.random_natives(c, case, n=int(os.environ.get('PYVC_RANDOM_REFUTE', '120')), seed=1):
                            cache.append((P, nat, 'random'))
                    for (P0, nat0, b0) in cache:
                        hit, fl = refute.is_hit(ob.name, ob.kind, nat0, strict=True)
                        if hit:
                            refuted[k] = dict(status='reproduced', params=P0, native=nat0, bound=b0, failing=fl,
                                              note='random small instance (the VC itself was not formed: ' + str(ob.undecided)[:80] + ')')
                            break
                if not getattr(ob, 'hyps_smt2', None):
                    continue
                if k in refuted:
                    continue
                left.append(k)
                continue
            if True:
                remaining = deadline - time.time()
                if remaining > 3:
                    try:
                        r = refute.try_refute(c, case, ob.name, ob.kind, ob.hyps_smt2, ob.goal_smt2, cache=cache,
                                              budget_s=max(3, min(30, remaining / 2)))
                    except Exception as e:
                        r = dict(status='error', note=f'{type(e).__name__}: {e}', trace=traceback.format_exc(limit=4))
                else:
                    r = dict(status='skipped', note='time budget of the case exhausted')
                    for (P0, nat0, b0) in cache:
                        hit, fl = refute.is_hit(ob.name, ob.kind, nat0)
                        if hit:
                            r = dict(status='reproduced', params=P0, native=nat0, bound=b0, failing=fl, note='model shared')
                            break
                refuted[k] = r
                if r.get('status') == 'reproduced':
                    continue
            left.append(k)
        # complete quantified query on both solvers for what is still open (hard wall-clock limits)
        for k in left:
            obs[k].undecided = None
            remaining = deadline - time.time()
            if remaining < 4:
                obs[k].verdict, obs[k].backend = 'UNDECIDED', 'none'
                obs[k].undecided = 'time budget of the case exhausted before the complete query'
                continue
            ms = int(max(3000, min(20000, remaining * 1000 / 3)))
            engine.discharge(obs, both=True, procs=1, only={k}, z3_ms=ms, cvc5_ms=ms)
        if both:
            # thorough tier: every discharged query is cross-checked by the second solver as well
            dis = {k for k, ob in enumerate(obs) if ob.verdict == 'DISCHARGED' and k not in left and getattr(ob, 'hyps_smt2', None)}
            engine.discharge(obs, both=True, procs=1, only=dis)
        for k, ob in enumerate(obs):
            rec = dict(name=ob.name, function=ob.qualname, case=ob.case, path=ob.path, verdict=ob.verdict,
                       backend=ob.backend, seconds=round(ob.seconds, 4), kind=ob.kind, line=ob.line,
                       note=ob.undecided)
            if k in refuted:
                r = refuted[k]
                rec['refute'] = r
                if r.get('status') == 'reproduced':
                    rec['verdict'] = 'REFUTED'
                    rec['reproduced'] = True
                    rec['backend'] = 'z3 (bounded expansion) + native replay'
                elif ob.verdict == 'REFUTED':
                    rec['reproduced'] = False
            if rec['verdict'] != 'DISCHARGED' and getattr(ob, 'hyps_smt2', None):
                rec['smt2'] = engine.full_smt2(ob)
            out['obligations'].append(rec)
        # ---- bounded run-time twin (never counted as proved): random small real instances through the same post
        if hasattr(c, 'native'):
            nb = int(os.environ.get('PYVC_TWIN_N', '400' if both else '40'))
            seed = int(os.environ.get('VERIF_SEED', '0')) + 17
            have = [x for x in cache if x[2] == 'random'] if seed == 18 and False else []
            ev = 0
            nontrivial = set()
            fails = {}
            sample = None
            for P, nat in refute.random_natives(c, case, n=nb, seed=seed):
                ev += 1
                key = json.dumps(P, sort_keys=True, default=str)
                if nat['outcome'].startswith('return') and any(v is True for v in nat['posts'].values()):
                    nontrivial.add(key)
                if sample is None:
                    sample = dict(params=P, outcome=nat['outcome'], posts=len(nat['posts']))
                for k2, v in nat['posts'].items():
                    if v is False and k2 not in fails:
                        fails[k2] = dict(name=k2, function=c.qualname, case=engine.case_id(case), params=P, native=nat,
                                         detail='run-time twin predicate false on a random small real instance')
                if '__post_error__' in nat['posts'] and '__post_error__' not in fails:
                    fails['__post_error__'] = dict(name=c.prefix + '.twin_error', function=c.qualname, case=engine.case_id(case), params=P,
                                                   native=nat, detail=nat['posts']['__post_error__'][:400], error=True)
            out['bounded'] = dict(evaluations=ev, distinct_nontrivial=len(nontrivial), failures=list(fails.values()), sample=sample)
    except Exception as e:
        out['error'] = f'{type(e).__name__}: {e}\n{traceback.format_exc()}'
    out['seconds'] = round(time.time() - t0, 2)
    return out


def run_proofs(prop, tier, procs=16):
    reg = load_contracts()
    jobs = []
    for ci, c in enumerate(reg):
        if prop not in c.properties:
            continue
        for case in c.cases():
            jobs.append((ci, case, tier == 'thorough', prop))
    results = []
    if jobs:
        with mp.get_context('fork').Pool(min(procs, len(jobs))) as pool:
            results = pool.map(_case_job, jobs, chunksize=1)
    return reg, results


def belongs(prop, name):
    return name.startswith(prop + '.')


def main(argv=None):
    ap = argparse.ArgumentParser()
    ap.add_argument('prop', nargs='?')
    ap.add_argument('--tier', default=os.environ.get('VERIF_TIER', 'quick'))
    ap.add_argument('--replay')
    ap.add_argument('--verbose', action='store_true')
    args = ap.parse_args(argv)
    sys.path.insert(0, ROOT)
    if REPO not in sys.path:
        sys.path.insert(0, REPO)
    if args.replay:
        from pyvc import report
        return report.replay_file(args.replay)
    from pyvc import report
    return report.check_property(args.prop, args.tier, verbose=args.verbose)


if __name__ == '__main__':
    sys.exit(main())
