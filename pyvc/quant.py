"""pyvc.quant -- explicit quantifier instantiation in front of the SMT solvers.

VCs carry universally quantified hypotheses (well-formedness of grids, `all(...)` path facts,
compress and prefix-sum axioms).  z3's MBQI is unreliable on them in combination with non-linear
real arithmetic, so every query is first attacked in a quantifier-free form:

  1. the assertion set (hypotheses + negated goal) is put into NNF with skolemised existentials
     (z3 tactic `nnf`);
  2. top-level universal conjuncts are instantiated with the ground Int terms of the problem
     (arguments of uninterpreted functions, free constants, 0, bounds), for a fixed number of rounds;
  3. the ground part + instances is checked.  `unsat` is a proof (instances are consequences).
     `sat` proves nothing here; the full quantified query is then tried (see engine).

For counterexample search `bounded_expand` replaces each range-guarded universal by its finite
expansion under a size bound -- a candidate generator whose models are only believed after native
replay.
"""
import itertools
import z3


def nnf_skolem(assertions, ctx=None):
    g = z3.Goal(ctx=ctx)
    for a in assertions:
        g.add(a)
    t = z3.Tactic('nnf', ctx=ctx)
    res = t(g)
    out = []
    for sub in res:
        for f in sub:
            out.append(f)
    return out


def split_conj(fs):
    out = []
    stack = list(fs)
    while stack:
        f = stack.pop()
        if z3.is_and(f):
            stack.extend(f.children())
        else:
            out.append(f)
    return out


_HQ = {}


def has_quant(f, _cache=None):
    k = f.get_id()
    ent = _HQ.get(k)
    r = ent[1] if ent is not None else None
    if r is None:
        if z3.is_quantifier(f):
            r = True
        else:
            sx = f.sexpr()
            r = ('(forall ' in sx) or ('(exists ' in sx) or ('(lambda ' in sx)
        if len(_HQ) > 200000:
            _HQ.clear()
        _HQ[k] = (f, r)       # keep the AST alive: ids are recycled after GC
    return r


class TermHarvest:
    """incremental collection of candidate instantiation terms (Int-sorted ground subterms that are
    arguments / results of uninterpreted functions, free constants, sides of integer comparisons)"""

    def __init__(self):
        self.terms = {}
        self.seen = set()

    def add_formulas(self, fs):
        terms, seen = self.terms, self.seen

        def add(t):
            if z3.is_int(t) and t.get_id() not in terms and not contains_var(t):
                terms[t.get_id()] = t
        stack = list(fs)
        while stack:
            x = stack.pop()
            i = x.get_id()
            if i in seen:
                continue
            seen.add(i)
            if z3.is_quantifier(x):
                stack.append(x.body())
                continue
            if z3.is_app(x):
                k = x.decl().kind()
                ch = x.children()
                if k == z3.Z3_OP_UNINTERPRETED:
                    if not ch:
                        add(x)
                    else:
                        for c in ch:
                            add(c)
                        add(x)
                elif k in (z3.Z3_OP_LE, z3.Z3_OP_GE, z3.Z3_OP_LT, z3.Z3_OP_GT, z3.Z3_OP_EQ):
                    for c in ch:
                        if z3.is_int(c):
                            add(c)
                stack.extend(ch)

    def sorted_terms(self, limit):
        out = list(self.terms.values())
        out.sort(key=lambda t: (len(t.sexpr()), t.sexpr()))
        return out[:limit]


def ground_int_terms(fs, limit=60):
    h = TermHarvest()
    h.add_formulas(fs)
    return h.sorted_terms(limit)


_CV = {}


def contains_var(t):
    k0 = t.get_id()
    if k0 in _CV:
        return _CV[k0][1]
    r = _contains_var(t)
    if len(_CV) > 200000:
        _CV.clear()
    _CV[k0] = (t, r)
    return r


def _contains_var(t):
    seen = set()
    stack = [t]
    while stack:
        x = stack.pop()
        if x.get_id() in seen:
            continue
        seen.add(x.get_id())
        if z3.is_var(x):
            return True
        if z3.is_quantifier(x):
            stack.append(x.body())
        elif z3.is_app(x):
            stack.extend(x.children())
    return False


def instantiate(q, terms, max_inst):
    nv = q.num_vars()
    sorts = [q.var_sort(k) for k in range(nv)]
    if any(s.kind() != z3.Z3_INT_SORT for s in sorts):
        return []
    out = []
    if nv == 1:
        combos = [(t,) for t in terms]
    else:
        combos = itertools.product(terms, repeat=nv)
    for n, combo in enumerate(combos):
        if n >= max_inst:
            break
        # de Bruijn: var 0 is the innermost (last) bound variable
        out.append(z3.substitute_vars(q.body(), *reversed(combo)))
    return out


def qf_instances_with_terms(hyps, term_sources, rounds=2, max_terms=60, max_inst=1600):
    """instantiate the universals of `hyps` with ground terms harvested from hyps *and* from
    `term_sources` (formulas that are not themselves asserted)"""
    return qf_instances(hyps, rounds=rounds, max_terms=max_terms, max_inst=max_inst, extra_term_sources=term_sources)


def qf_instances(assertions, rounds=2, max_terms=40, max_inst=1600, extra_term_sources=()):
    """returns (ground formulas incl. instances, remaining quantified formulas)"""
    fs = split_conj(nnf_skolem(assertions))
    ground = [f for f in fs if not has_quant(f)]
    quants = [f for f in fs if z3.is_quantifier(f) and f.is_forall()]
    other = [f for f in fs if has_quant(f) and not (z3.is_quantifier(f) and f.is_forall())]
    done = set()
    harvest = TermHarvest()
    harvest.add_formulas(ground + quants + other + list(extra_term_sources))
    body_hq = {}
    for r in range(rounds):
        terms = harvest.sorted_terms(max_terms)
        new = []
        for q in list(quants):
            nv = q.num_vars()
            if q.get_id() not in body_hq:
                body_hq[q.get_id()] = has_quant(q.body())
            tt = terms if nv == 1 else terms[:max(6, min(14, int(max_inst ** (1.0 / nv))))]
            for inst in instantiate(q, tt, max_inst):
                key = inst.get_id()
                if key in done:
                    continue
                done.add(key)
                if body_hq[q.get_id()]:
                    inst = z3.simplify(inst)
                    if z3.is_true(inst):
                        continue
                    for sub in split_conj(nnf_skolem([inst])):
                        if z3.is_quantifier(sub) and sub.is_forall():
                            if sub.get_id() not in done:
                                done.add(sub.get_id())
                                quants.append(sub)
                        elif not has_quant(sub):
                            new.append(sub)
                        else:
                            other.append(sub)
                else:
                    new.append(inst)
        if not new:
            break
        ground.extend(new)
        if r + 1 < rounds:
            harvest.add_formulas(new)
    return ground, quants + other


def check_qf_first(assertions, timeout_ms, rounds=2):
    """(result, stage) with result in 'unsat' | 'sat' | 'unknown'.
    stage 'inst'  : unsat of the instantiated ground problem (a proof)
    stage 'full'  : answer of z3 on the complete quantified problem"""
    ground, rest = qf_instances(assertions, rounds=rounds)
    s = z3.Solver()
    s.set('timeout', max(1000, timeout_ms // 2))
    s.add(*ground)
    r = s.check()
    if r == z3.unsat:
        return 'unsat', 'inst', None
    if not rest and r == z3.sat:
        return 'sat', 'inst', s.model()
    s2 = z3.Solver()
    s2.set('timeout', max(1000, timeout_ms // 2))
    s2.add(*assertions)
    r2 = s2.check()
    if r2 == z3.unsat:
        return 'unsat', 'full', None
    if r2 == z3.sat:
        return 'sat', 'full', s2.model()
    return 'unknown', 'full', None


def expand_all(f, terms, cache=None):
    """replace every quantifier inside f by its finite expansion over `terms`"""
    if cache is None:
        cache = {}
    k = f.get_id()
    if k in cache:
        return cache[k][1]
    if not has_quant(f):
        r = f
    elif z3.is_quantifier(f):
        nv = f.num_vars()
        body = f.body()
        if any(f.var_sort(i).kind() != z3.Z3_INT_SORT for i in range(nv)):
            r = f
        else:
            insts = [expand_all(z3.substitute_vars(body, *reversed(combo)), terms, cache)
                     for combo in itertools.product(terms, repeat=nv)]
            r = z3.And(*insts) if f.is_forall() else z3.Or(*insts)
    elif z3.is_app(f):
        r = f.decl()(*[expand_all(c, terms, cache) for c in f.children()])
    else:
        r = f
    cache[k] = (f, r)
    return r


def bounded_expand(assertions, size_syms, bound):
    """candidate-model search: constrain every size symbol to <= bound and expand all quantifiers (also
    nested ones) over -1..bound+1; range guards inside the bodies take care of the rest."""
    fs = split_conj(nnf_skolem(assertions))
    terms = [z3.IntVal(k) for k in range(-1, bound + 2)]
    out = []
    cache = {}
    for f in fs:
        g = z3.simplify(expand_all(f, terms, cache))
        if not z3.is_true(g):
            out.append(g)
    for sname in size_syms:
        out.append(z3.Int(sname) <= bound)
    return out


# ------------------------------------------------------------------------------- non-linear abstraction
_MULR = z3.Function('nl!mul', z3.RealSort(), z3.RealSort(), z3.RealSort())
_MULI = z3.Function('nl!muli', z3.IntSort(), z3.IntSort(), z3.IntSort())
_DIVR = z3.Function('nl!div', z3.RealSort(), z3.RealSort(), z3.RealSort())


def _is_num(t):
    return z3.is_int_value(t) or z3.is_rational_value(t)


def _nl_terms(fs):
    """innermost non-linear products / quotients (no non-linear operator strictly inside)"""
    found = {}
    seen = {}

    def visit(x):
        """returns True iff x contains a non-linear operator (at or below x)"""
        i = x.get_id()
        if i in seen:
            return seen[i]
        if z3.is_quantifier(x):
            r = visit(x.body())
            seen[i] = r
            return r
        inner = False
        if z3.is_app(x):
            for c in x.children():
                if visit(c):
                    inner = True
            k = x.decl().kind()
            here = False
            if k == z3.Z3_OP_MUL:
                nn = [c for c in x.children() if not _is_num(c)]
                here = len(nn) >= 2
            elif k == z3.Z3_OP_DIV:
                here = not _is_num(x.arg(1))
            if here and not inner:
                found[i] = x
            inner = inner or here
        seen[i] = inner
        return inner
    for f in fs:
        visit(f)
    return list(found.values())


def _abstract_one(t):
    k = t.decl().kind()
    if k == z3.Z3_OP_DIV:
        return _DIVR(t.arg(0), t.arg(1))
    nums = [c for c in t.children() if _is_num(c)]
    nn = sorted([c for c in t.children() if not _is_num(c)], key=lambda c: c.sexpr())
    M = _MULI if z3.is_int(t) else _MULR
    acc = nn[0]
    for c in nn[1:]:
        acc = M(acc, c)
    for c in nums:
        acc = c * acc
    return acc


def abstract_nonlinear(fs, max_rounds=6):
    """replace non-linear products/quotients by uninterpreted applications (commutativity normalised by
    argument order) and add sign lemmas for them.  Every model of the original is a model of the
    abstraction, so `unsat` of the abstraction is a proof."""
    fs = list(fs)
    for _ in range(max_rounds):
        terms = _nl_terms(fs)
        if not terms:
            break
        pairs = [(t, _abstract_one(t)) for t in terms]
        fs = [z3.substitute(f, *pairs) for f in fs]
    # sign lemmas on the abstracted products
    lem = []
    seen = set()
    stack = list(fs)
    apps = []
    while stack:
        x = stack.pop()
        i = x.get_id()
        if i in seen:
            continue
        seen.add(i)
        if z3.is_quantifier(x):
            continue
        if z3.is_app(x):
            if x.decl().name() in ('nl!mul', 'nl!muli'):
                apps.append(x)
            stack.extend(x.children())
    for t in apps:
        a, b = t.arg(0), t.arg(1)
        lem += [z3.Implies(z3.And(a >= 0, b >= 0), t >= 0), z3.Implies(z3.And(a <= 0, b <= 0), t >= 0),
                z3.Implies(z3.And(a >= 0, b <= 0), t <= 0), z3.Implies(z3.And(a <= 0, b >= 0), t <= 0),
                z3.Implies(z3.And(a > 0, b > 0), t > 0), z3.Implies(z3.Or(a == 0, b == 0), t == 0),
                z3.Implies(a == 1, t == b), z3.Implies(b == 1, t == a)]
    # monotonicity between products sharing one factor:  c >= 0 & a <= b  =>  a*c <= b*c
    byarg = {}
    for t in apps:
        for (x, y) in ((t.arg(0), t.arg(1)), (t.arg(1), t.arg(0))):
            byarg.setdefault(y.get_id(), []).append((x, y, t))
    for lst in byarg.values():
        if 2 <= len(lst) <= 6:
            for p in range(len(lst)):
                for q in range(len(lst)):
                    if p != q:
                        (a, c, ta), (b, _, tb) = lst[p], lst[q]
                        lem.append(z3.Implies(z3.And(c >= 0, a <= b), ta <= tb))
                        lem.append(z3.Implies(z3.And(c <= 0, a <= b), ta >= tb))
    return fs + lem


# ------------------------------------------------------------------------------- incremental instantiation
class Instantiator:
    """Hypotheses are processed once (NNF, skolemisation, base instances on their own ground terms); each
    goal then only pays for the instances that involve its own new ground terms."""

    def __init__(self, hyps, rounds=2, max_terms=48):
        fs = split_conj(nnf_skolem(hyps))
        self.ground = [f for f in fs if not has_quant(f)]
        self.quants = [f for f in fs if z3.is_quantifier(f) and f.is_forall()]
        self.other = [f for f in fs if has_quant(f) and not (z3.is_quantifier(f) and f.is_forall())]
        self.done = set()
        self.harvest = TermHarvest()
        self.harvest.add_formulas(self.ground + self.quants + self.other)
        self.body_hq = {}
        self.max_terms = max_terms
        self.base_terms = []
        for r in range(rounds):
            terms = self.harvest.sorted_terms(max_terms)
            fresh = [t for t in terms if t.get_id() not in {x.get_id() for x in self.base_terms}]
            if not fresh and r > 0:
                break
            new = self._instances(fresh, self.base_terms + fresh)
            self.base_terms = self.base_terms + fresh
            if not new:
                break
            self.ground.extend(new)
            self.harvest.add_formulas(new)

    def _instances(self, new_terms, all_terms, cap2=14):
        out = []
        for q in list(self.quants):
            nv = q.num_vars()
            qid = q.get_id()
            if qid not in self.body_hq:
                self.body_hq[qid] = has_quant(q.body())
            if any(q.var_sort(k).kind() != z3.Z3_INT_SORT for k in range(nv)):
                continue
            if nv == 1:
                combos = [(t,) for t in new_terms]
            elif nv == 2:
                a = all_terms[:cap2 * 2]
                combos = [(x, y) for x in new_terms[:cap2] for y in a] + [(y, x) for x in new_terms[:cap2] for y in a]
            else:
                a = all_terms[:6]
                combos = list(itertools.product(a, repeat=nv)) if new_terms else []
            for combo in combos:
                inst = z3.substitute_vars(q.body(), *reversed(combo))
                key = inst.get_id()
                if key in self.done:
                    continue
                self.done.add(key)
                if self.body_hq[qid]:
                    inst = z3.simplify(inst)
                    if z3.is_true(inst):
                        continue
                    for sub in split_conj(nnf_skolem([inst])):
                        if z3.is_quantifier(sub) and sub.is_forall():
                            if sub.get_id() not in self.done:
                                self.done.add(sub.get_id())
                                self.quants.append(sub)
                        elif not has_quant(sub):
                            out.append(sub)
                        else:
                            self.other.append(sub)
                else:
                    out.append(inst)
        return out

    def for_goal(self, neg_goal_fs, rounds=2, max_new=40):
        """instances needed in addition to self.ground for one (skolemised, quantifier-free) negated goal"""
        h = TermHarvest()
        h.terms = dict(self.harvest.terms)
        h.seen = set(self.harvest.seen)
        before = set(h.terms)
        h.add_formulas(neg_goal_fs)
        extra = []
        known = list(self.base_terms)
        known_ids = {t.get_id() for t in known}
        saved_done = set(self.done)
        saved_quants = list(self.quants)
        for r in range(rounds):
            fresh = [t for i, t in h.terms.items() if i not in before and i not in known_ids]
            fresh.sort(key=lambda t: (len(t.sexpr()), t.sexpr()))
            fresh = fresh[:max_new]
            if not fresh:
                break
            new = self._instances(fresh, known + fresh)
            known = known + fresh
            known_ids |= {t.get_id() for t in fresh}
            if not new:
                break
            extra.extend(new)
            h.add_formulas(new)
        # goal-specific instances must not suppress the same instances for the next goal
        self.done = saved_done
        self.quants = saved_quants
        return extra
