"""pyvc.refute -- from an undischarged obligation to a replayed counterexample.

An obligation that is not discharged is a *candidate*.  It becomes a violation only through one of

  (a) the complete quantified VC is `sat` (engine), or
  (b) a model of the size-bounded expansion of the VC (pyvc.quant.bounded_expand) is materialised as
      real EAO objects, the real function is called natively, and the run-time twin of the same
      postcondition fails on the real result.

(b) is a failing input on the real code by construction.  If neither happens the obligation stays
UNDECIDED (exit 2), never a violation.
"""
import json
import os
import traceback
import z3

from . import quant, native, sym
from .sym import Havoc


def run_native(contract, case, P):
    """call the real function on the materialised parameters and evaluate the contract's post
    natively.  Returns dict(outcome=..., posts={name: bool|str}, synthetic=bool)"""
    call, ctx = contract.native(case, P)
    try:
        res = call()
        outcome = ('return', native.wrap(res))
        desc = 'return'
    except Exception as e:      # the real code raised
        outcome = ('raise', type(e).__name__, str(e)[:200])
        desc = f'raise {type(e).__name__}: {str(e)[:160]}'
    posts = {}
    try:
        for item in contract.post(None, case, outcome, None, ctx):
            name, val = item[0], item[1]
            if isinstance(val, Havoc):
                posts[name] = 'not-evaluable: ' + val.why
            elif z3.is_expr(val):
                posts[name] = 'not-evaluable: symbolic residue'
            else:
                posts[name] = bool(val)
    except Exception as e:
        posts['__post_error__'] = f'{type(e).__name__}: {e}\n' + traceback.format_exc(limit=3)
    return dict(outcome=desc, posts=posts, synthetic=bool(ctx.get('synthetic', False)))


def search_model(fs, schema, timeout_ms):
    """z3 on the bounded expansion in a helper process that is killed at the deadline"""
    import subprocess
    import sys
    import tempfile
    sol = z3.Solver()
    sol.add(*fs)
    job = dict(smt2=sol.to_smt2(), schema=[list(x) for x in schema], timeout_ms=timeout_ms)
    with tempfile.NamedTemporaryFile('w', suffix='.json', delete=False) as f:
        json.dump(job, f)
        path = f.name
    try:
        root = os.path.dirname(os.path.dirname(os.path.abspath(__file__)))
        env = dict(os.environ, PYTHONPATH=root + ':' + os.environ.get('PYTHONPATH', ''))
        p = subprocess.run([sys.executable, '-m', 'pyvc.modelsearch', path], capture_output=True, text=True,
                           timeout=timeout_ms / 1000.0 + 6, env=env, cwd=root)
        out = (p.stdout or '').strip().splitlines()
        if not out:
            return None
        r = json.loads(out[-1])
        if r.get('result') != 'sat':
            return None
        return native.Params(r['params'])
    except (subprocess.TimeoutExpired, ValueError):
        return None
    finally:
        try:
            os.unlink(path)
        except OSError:
            pass


def candidate_models(contract, case, hyps, goal, bounds=(3, 2, 4), timeout_ms=6000, deadline=None):
    """yield (bound, used_menu, Params) for satisfiable bounded expansions"""
    from .engine import Harness, reset_globals
    # menu constraints are formulas over the harness symbols (names are deterministic)
    H = Harness()
    try:
        ctx = contract.harness(H, case)
        menu = contract.menu(case, H, ctx) if hasattr(contract, 'menu') else []
        menu = menu if isinstance(menu, tuple) else list(menu)
    except Exception:
        menu = []
    schema = contract.schema(case)
    size_syms = list(getattr(contract, 'size_syms', ()))
    base = list(hyps) + [z3.Not(goal)]
    seen = set()
    # menu() returns (hard, soft): hard = what real objects can realise at all (e.g. a contiguous window),
    # soft = readable values (unit steps, no discounting).  Tried in the order hard+soft, hard, none.
    if isinstance(menu, tuple):
        hard, soft = list(menu[0]), list(menu[1])
    else:
        hard, soft = [], list(menu)
    tiers = []
    if hard or soft:
        tiers.append(hard + soft)
    if hard and soft:
        tiers.append(hard)
    tiers.append([])
    import time as _t
    for extra in tiers:
        for b in bounds:
            if deadline is not None and _t.time() > deadline:
                return
            try:
                fs = quant.bounded_expand(base + extra, size_syms, b)
            except z3.Z3Exception:
                continue
            P = search_model(fs, schema, timeout_ms)
            if P is None:
                continue
            key = json.dumps(P, sort_keys=True, default=str)
            if key in seen:
                continue
            seen.add(key)
            yield b, bool(extra), P


def random_natives(contract, case, n, seed):
    """n random small realisable instances, run natively; yields (params, native result)"""
    import random
    rng = random.Random(seed * 7919 + hash(str(sorted(case.items()))) % 100000 if isinstance(case, dict) else seed)
    schema = contract.schema(case)
    made = 0
    attempts = 0
    while made < n and attempts < 6 * n:
        attempts += 1
        if hasattr(contract, 'sample'):
            P = contract.sample(case, rng)
        else:
            P = native.sample_params(schema, rng)
        try:
            nat = run_native(contract, case, P)
        except native.NotRealisable:
            continue
        except Exception as e:
            nat = dict(outcome='materialisation error', posts={'__post_error__': f'{type(e).__name__}: {e}'}, synthetic=False)
        made += 1
        yield P, nat


def is_hit(ob_name, ob_kind, nat, strict=False):
    failing = [k for k, v in nat['posts'].items() if v is False]
    hit = ob_name in failing
    if not hit and nat['posts'].get(ob_name) is True:
        # the twin evaluated this very clause on the instance and it holds there: another clause failing on the same
        # instance is reported under its own name, not under this one
        return False, failing
    if strict:
        # for obligations without a VC: any failing native predicate of the same property counts, but a generic
        # "modelled" placeholder obligation is attributed to whatever fails
        prop = ob_name.split('.')[0]
        return (hit or any(k.split('.')[0] == prop for k in failing)), failing
    if not hit and ob_kind != 'post':
        # safety obligation: natively it shows as an exception the contract does not allow
        hit = nat['outcome'].startswith('raise') and any('no_spurious_raise' in k or 'refuses_only' in k for k in failing)
    if not hit and ob_kind == 'index' and not nat['outcome'].startswith('raise'):
        # an index / key obligation that fails shows natively as an exception; the call returned normally here
        return False, failing
    if not hit:
        # the run-time twin may phrase a clause set-based where the VC is structural (e.g. mapping rows):
        # a failing native predicate of the same property on this model is the same violation
        prop = ob_name.split('.')[0]
        hit = any(k.split('.')[0] == prop for k in failing)
    return hit, failing


def try_refute(contract, case, ob_name, ob_kind, hyps_smt2, goal_smt2, cache=None, budget_s=45):
    """returns dict(status='reproduced'|'not-reproduced'|'no-model', params, native, note).
    cache: list of (params, native result) of earlier searches for the same case -- a model that already
    falsifies this obligation natively is reused."""
    import time as _t
    if not hasattr(contract, 'native'):
        return dict(status='no-twin', note='contract has no run-time twin')
    for (P0, nat0, b0) in (cache or []):
        hit, failing = is_hit(ob_name, ob_kind, nat0)
        if hit:
            return dict(status='reproduced', params=P0, native=nat0, bound=b0, failing=failing, note='model shared with another obligation of this case')
    # cheap first: random small instances on the real code (each a potential failing input)
    if cache is not None and not any(x[2] == 'random' for x in cache):
        for P, nat in random_natives(contract, case, n=int(os.environ.get('PYVC_RANDOM_REFUTE', '120')), seed=1):
            cache.append((P, nat, 'random'))
        for (P0, nat0, b0) in cache:
            hit, failing = is_hit(ob_name, ob_kind, nat0)
            if hit:
                return dict(status='reproduced', params=P0, native=nat0, bound=b0, failing=failing, note='random small instance')
    hyps = list(z3.parse_smt2_string(hyps_smt2))
    goal = z3.And(*list(z3.parse_smt2_string(goal_smt2)))
    last = None
    tried = 0
    deadline = _t.time() + budget_s
    for b, used_menu, P in candidate_models(contract, case, hyps, goal, deadline=deadline):
        tried += 1
        try:
            nat = run_native(contract, case, P)
        except native.NotRealisable as e:
            last = dict(status='not-reproduced', params=P, note=f'model not realisable: {e}', bound=b)
            continue
        except Exception as e:
            last = dict(status='not-reproduced', params=P, note=f'materialisation failed: {type(e).__name__}: {e}', bound=b)
            continue
        if cache is not None:
            cache.append((P, nat, b))
        hit, failing = is_hit(ob_name, ob_kind, nat)
        if hit:
            return dict(status='reproduced', params=P, native=nat, bound=b, menu=used_menu, failing=failing)
        last = dict(status='not-reproduced', params=P, native=nat, bound=b, menu=used_menu, failing=failing,
                    note='real call satisfied the predicate on this model')
        if tried >= 9:
            break
    return last or dict(status='no-model', note='no model of the bounded expansion within the size bounds / time budget')
