"""pyvc.libmodel -- axioms (A2) for the numpy / scipy.sparse / pandas primitives EAO uses, plus the
Python builtins of the modelled subset.  One function per primitive; each is differential-tested
against the installed library in selftest/axioms.py.

Every function takes the interpreter as first argument (for safety obligations and havoc
bookkeeping) followed by the evaluated arguments of the call.
"""
import z3

from . import sym
from .sym import (Arr, Mat, Obj, DF, Havoc, Opt, TS, TD, SymMap, Unsupported, PyRaise, lift, ite, binop, cmpop,
                  concrete_bool, concrete_int, to_bool, is_z3, fresh_name, const_arr)
from .interp import (TypeTok, ModelNS, SymRange, SymEnum, SymZip, Seg, Family, RepStr, FnStr, as_seg, _MISSING, _sz,
                     RepoClass, RepoFunc, BoundMethod)

R0, R1 = z3.RealVal(0), z3.RealVal(1)


def _shape2(shape):
    if isinstance(shape, (tuple, list)) and len(shape) == 2:
        return shape[0], shape[1]
    return None


# ----------------------------------------------------------------------------- numpy
def np_zeros(I, shape, dtype=None, **kw):
    s2 = _shape2(shape)
    if s2:
        return Mat(s2[0], s2[1], lambda r, c: R0, sparse=False)
    if isinstance(shape, (tuple, list)):
        shape = shape[0]
    return const_arr(shape, R0)


def np_ones(I, shape, dtype=None, **kw):
    s2 = _shape2(shape)
    if s2:
        return Mat(s2[0], s2[1], lambda r, c: R1, sparse=False)
    if isinstance(shape, (tuple, list)):
        shape = shape[0]
    return const_arr(shape, R1)


def np_empty(I, shape=None, dtype=None, **kw):
    """np.empty: contents unspecified -> fresh uninterpreted elements (any use before a write is
    then visible as an unconstrained symbol)."""
    if shape is None:
        shape = kw.get('shape')
    if isinstance(shape, (tuple, list)):
        if len(shape) == 2:
            f = z3.Function(fresh_name('empty'), z3.IntSort(), z3.IntSort(), z3.RealSort())
            return Mat(shape[0], shape[1], lambda r, c: f(lift(r), lift(c)), sparse=False)
        shape = shape[0]
    f = z3.Function(fresh_name('empty'), z3.IntSort(), z3.RealSort())
    return Arr(shape, lambda i: f(lift(i)))


def np_full(I, shape, fill_value, dtype=None, **kw):
    """np.full(n, v) / np.full((r, c), v): every entry is v"""
    if isinstance(fill_value, (Arr, Mat, Havoc, list, tuple, dict)):
        raise Unsupported('np.full with a non-scalar fill value')
    if fill_value is None:
        # np.nan: every entry undefined (kept as an optional value so that later writes / isnan tests work like for np.empty + fill)
        und = z3.Function(fresh_name('full_nan'), z3.IntSort(), z3.RealSort())
        if isinstance(shape, (tuple, list)) and len(shape) == 2:
            raise Unsupported('np.full((r, c), nan)')
        n_ = shape[0] if isinstance(shape, (tuple, list)) else shape
        return Arr(n_, lambda i: sym.Opt(z3.BoolVal(True), und(lift(i))))
    if isinstance(shape, (tuple, list)):
        if len(shape) == 2:
            return Mat(shape[0], shape[1], lambda r, c: fill_value, sparse=False)
        shape = shape[0]
    return Arr(shape, lambda i: fill_value)


def _as_arr(I, v):
    if isinstance(v, Arr):
        return v
    if isinstance(v, (list, tuple)):
        if v and all(isinstance(x, Arr) for x in v):
            return sym.mat_vstack(list(v))
        return sym.arr_from_list(list(v))
    if isinstance(v, Seg) and v.kind in ('list', 'arr'):
        return seg_to_arr(I, v)
    if isinstance(v, (Mat, Havoc)):
        return v
    if isinstance(v, range):
        return sym.arr_from_list(list(v))
    if isinstance(v, SymRange):
        return Arr(_sz(binop('Sub', v.hi, v.lo)), lambda i: binop('Add', v.lo, i))
    raise Unsupported(f'asarray of {type(v).__name__}')


def np_asarray(I, v, dtype=None, **kw):
    a = _as_arr(I, v)
    if isinstance(a, Arr) and a.kind == 'list':
        a = a.copy()
        a.kind = None
    return a


def np_array(I, v, dtype=None, **kw):
    a = np_asarray(I, v)
    return a.copy() if isinstance(a, (Arr, Mat)) else a


def np_hstack(I, parts, **kw):
    parts = list(parts)
    if any(isinstance(p, Seg) for p in parts):
        acc = parts[0]
        if not isinstance(acc, Seg):
            raise Unsupported('hstack with accumulator not first')
        for p in parts[1:]:
            acc = I.seg_append(acc, p)
        return acc
    return sym.arr_concat(parts)


def np_concatenate(I, parts, axis=None, **kw):
    return sym.arr_concat(list(parts))


def np_append(I, a, b, **kw):
    return sym.arr_concat([a, b])


def np_vstack(I, parts, **kw):
    return sym.mat_vstack([(_as_arr(I, p) if not isinstance(p, (Arr, Mat)) else p) for p in parts])


def np_tile(I, a, reps):
    if isinstance(reps, (tuple, list)) and len(reps) == 2 and concrete_int(reps[1]) == 1:
        r = reps[0]
        if isinstance(a, Arr):
            return Mat(r, a.n, lambda i, j, _f_a=a.f: _f_a(j), sparse=False)
        # scalar / name tiled to a column block: (T,1)
        return Mat(r, 1, lambda i, j: a, sparse=False)
    if not isinstance(reps, (tuple, list)):
        if isinstance(a, Arr):
            n = a.n
            cn = concrete_int(n)
            return Arr(_sz(binop('Mult', n, reps)), lambda i, _f_a=a.f: _f_a(sym.s_mod(i, n) if cn is None or True else i))
        return const_arr(reps, a)
    raise Unsupported('np.tile form')


def np_minimum(I, a, b):
    return sym.ew(_minmax(min, sym.s_min), a, b)


def np_maximum(I, a, b):
    return sym.ew(_minmax(max, sym.s_max), a, b)


def _minmax(py, s):
    def f(x, y):
        if isinstance(x, TS) and isinstance(y, TS):
            # later / earlier of two instants (both naive or both zone-aware: a mixed pair raises in pandas, excluded
            # by the harnesses); the zone tag of the first operand stands for both
            t = s(x.t, y.t) if (is_z3(x.t) or is_z3(y.t)) else py(x.t, y.t)
            return TS(t, x.tz)
        if not is_z3(x) and not is_z3(y):
            return py(x, y)
        return s(x, y)
    return f


def np_cumsum(I, a, **kw):
    return sym.arr_cumsum(_as_arr(I, a), I.pc)


def np_sum(I, a, **kw):
    return sym.arr_sum(_as_arr(I, a), I.pc)


def np_isnan(I, a):
    return sym.ew(lambda x: sym.is_null(x), a)


def np_all(I, a, **kw):
    if isinstance(a, (bool,)) or is_z3(a):
        return a
    a = _as_arr(I, a)
    if isinstance(a, Havoc):
        return a
    return sym.forall_arr(a)


def np_any(I, a, **kw):
    if isinstance(a, (bool,)) or is_z3(a):
        return a
    a = _as_arr(I, a)
    if isinstance(a, Havoc):
        return a
    return sym.exists_arr(a)


def np_arange(I, a, b=None, **kw):
    lo, hi = (0, a) if b is None else (a, b)
    return Arr(_sz(binop('Sub', hi, lo)), lambda i: binop('Add', lo, i))


def np_reshape(I, a, shape, **kw):
    if isinstance(a, Arr) and isinstance(shape, (tuple, list)) and len(shape) == 2 and concrete_int(shape[1]) == 1:
        I.require('reshape', cmpop('Eq', a.n, shape[0]), kind='shape')
        return Mat(shape[0], 1, lambda r, c, _f_a=a.f: _f_a(r), sparse=False)
    raise Unsupported('np.reshape form')


def np_delete(I, a, idx, **kw):
    raise Unsupported('np.delete')


def np_unique(I, a, **kw):
    raise Unsupported('np.unique')


def np_where(I, *a, **kw):
    raise Unsupported('np.where')


def np_ceil(I, x):
    if isinstance(x, (int, float)):
        import math
        return float(math.ceil(x))
    x = lift(x)
    if z3.is_int(x):
        return x
    return z3.ToReal(-z3.ToInt(-x))


def np_floor(I, x):
    if isinstance(x, (int, float)):
        import math
        return float(math.floor(x))
    x = lift(x)
    if z3.is_int(x):
        return x
    return z3.ToReal(z3.ToInt(x))


NP = ModelNS('numpy', dict(
    zeros=np_zeros, ones=np_ones, empty=np_empty, full=np_full, asarray=np_asarray, array=np_array, hstack=np_hstack,
    concatenate=np_concatenate, append=np_append, vstack=np_vstack, tile=np_tile, minimum=np_minimum,
    maximum=np_maximum, cumsum=np_cumsum, sum=np_sum, isnan=np_isnan, all=np_all, any=np_any, arange=np_arange,
    reshape=np_reshape, delete=np_delete, unique=np_unique, where=np_where, ceil=np_ceil, floor=np_floor,
    nan=None, ndarray=TypeTok('ndarray'), int64=TypeTok('int64'), float64=TypeTok('float'),
))


# ----------------------------------------------------------------------------- scipy.sparse
def sp_lil_matrix(I, shape, **kw):
    if isinstance(shape, Mat):
        return shape.copy()
    nr, nc = shape
    return Mat(nr, nc, lambda r, c: R0, sparse=True)


def sp_tril(I, m, k=0, **kw):
    if not isinstance(m, Mat):
        raise Unsupported('tril of non-matrix')
    f = m.f
    return Mat(m.nr, m.nc, lambda r, c: ite(cmpop('LtE', c, binop('Add', r, k)), f(r, c), R0), sparse=True)


def sp_eye(I, n, **kw):
    return Mat(n, n, lambda r, c: ite(cmpop('Eq', r, c), R1, R0), sparse=True)


def sp_diags(I, v, k=0, **kw):
    if concrete_int(k) != 0:
        raise Unsupported('diags offset')
    v = _as_arr(I, v)
    return Mat(v.n, v.n, lambda r, c, _f_v=v.f: ite(cmpop('Eq', r, c), _f_v(r), R0), sparse=True)


def _to_mat(I, p, like=None):
    if isinstance(p, Mat):
        return p
    if isinstance(p, Arr):
        return Mat(1, p.n, lambda r, c, _f_p=p.f: _f_p(c), sparse=False)
    raise Unsupported('not a matrix')


def sp_hstack(I, parts, **kw):
    parts = list(parts)
    if any(isinstance(p, Seg) for p in parts):
        return seg_hstack(I, parts)
    return sym.mat_hstack([_to_mat(I, p) for p in parts])


def sp_vstack(I, parts, **kw):
    parts = list(parts)
    if any(isinstance(p, Seg) for p in parts):
        acc = parts[0]
        if not isinstance(acc, Seg):
            if isinstance(acc, Mat):
                acc = as_seg('mat', acc)
            else:
                raise Unsupported('vstack accumulator not first')
        for p in parts[1:]:
            acc = I.seg_append(acc, p)
        return acc
    return sym.mat_vstack([_to_mat(I, p) for p in parts])


def sp_csr_matrix(I, arg, shape=None, **kw):
    """csr_matrix(M) copies; csr_matrix((vals, (rows, cols)), shape) sums duplicate entries (A2):
    entry (r, c) = sum_e [rows_e = r and cols_e = c] vals_e"""
    if isinstance(arg, Mat):
        return arg.copy()
    if isinstance(arg, tuple) and len(arg) == 2 and isinstance(arg[1], tuple) and shape is not None:
        vals, (rows, cols) = arg
        vals, rows, cols = _as_arr(I, vals), _as_arr(I, rows), _as_arr(I, cols)
        E = vals.n
        vf, rf, cf = vals.f, rows.f, cols.f

        def entry(r, c):
            pr, pcn = z3.Int(fresh_name('coo_r')), z3.Int(fresh_name('coo_c'))
            sym.SCOPE.extend([pr, pcn])
            try:
                P = sym.SUMS.prefix(lambda e: ite(z3.And(to_bool(cmpop('Eq', rf(e), pr)), to_bool(cmpop('Eq', cf(e), pcn))), vf(e), R0), I.pc)
            finally:
                del sym.SCOPE[-2:]
            t = lift(P(E))
            return z3.substitute(t, (pr, lift(r)), (pcn, lift(c))) if is_z3(t) else t
        return Mat(shape[0], shape[1], entry, sparse=True)
    raise Unsupported('csr_matrix form')


def sp_coo_matrix(I, arg, **kw):
    if isinstance(arg, Mat):
        return arg.copy()
    raise Unsupported('coo_matrix form')


SP = ModelNS('scipy.sparse', dict(
    lil_matrix=sp_lil_matrix, tril=sp_tril, eye=sp_eye, identity=sp_eye, diags=sp_diags, hstack=sp_hstack,
    vstack=sp_vstack, csr_matrix=sp_csr_matrix, coo_matrix=sp_coo_matrix,
))


def seg_hstack(I, parts):
    """sp.hstack((A_acc, zero block)): add zero columns to every segment of an accumulator."""
    acc = parts[0]
    if not isinstance(acc, Seg) or acc.kind != 'mat' or len(parts) != 2 or not isinstance(parts[1], Mat):
        raise Unsupported('hstack on accumulator (form)')
    z = parts[1]
    probe = z.f(z3.Int('probe!r'), z3.Int('probe!c'))
    if not (is_z3(probe) and z3.is_true(z3.simplify(probe == 0)) or probe == 0):
        raise Unsupported('hstack on accumulator with non-zero block')
    I.require('hstack-rows', cmpop('Eq', acc.total(), z.nr), kind='shape')
    old_nc = acc.nc
    new_nc = _sz(binop('Add', old_nc, z.nc))
    segs = []
    for s in acc.segs:
        if isinstance(s, Family):
            it = s.item
            item = Mat(it.nr, new_nc, lambda r, c, it=it, _f_it=it.f: ite(cmpop('Lt', c, old_nc), _f_it(r, c), R0))
            segs.append(Family(s.fid, s.vars, s.dom, item, s.count))
        else:
            segs.append(Mat(s.nr, new_nc, lambda r, c, s=s, _f_s=s.f: ite(cmpop('Lt', c, old_nc), _f_s(r, c), R0)))
    return Seg('mat', segs, nc=new_nc)


def seg_to_arr(I, s):
    fams = [x for x in s.segs if isinstance(x, Family)]
    if len(fams) == 1 and len(s.segs) == 1 and s.kind == 'list' and len(fams[0].vars) == 1:
        # a list built by exactly one unconditional append per iteration of `for k in range(lo, hi)`:
        # element i is the appended item of iteration lo + i
        from .interp import loop_bounds, subst_value
        fam = fams[0]
        k = fam.vars[0]
        lo, hi, rest = loop_bounds(fam.dom, k, with_rest=True)
        rest = [r for r in rest if not z3.is_true(z3.simplify(r))]
        if lo is not None and hi is not None and not rest and isinstance(fam.item, list) and len(fam.item) == 1:
            item = fam.item[0]
            n = z3.simplify(hi - lo)
            n = ite(n >= 0, n, 0)
            return Arr(_sz(n), lambda i: subst_value(item, k, lo + lift(i)), kind='list')
    if fams:
        raise Unsupported('array view of a loop-built sequence')
    if s.kind == 'list':
        out = []
        for x in s.segs:
            out.extend(x)
        return sym.arr_from_list(out)
    return sym.arr_concat(s.segs)


class SegColumn:
    """one column of a loop-built frame (frame['name']): refers to the frame, no copy"""

    def __init__(self, seg, name):
        self.seg, self.name = seg, name

    def items(self):
        return [(sg.item if isinstance(sg, Family) else sg).cols[self.name] for sg in self.seg.segs]


def seg_get(I, s, idx, what):
    if s.kind == 'list':
        return I.arr_get(seg_to_arr(I, s), idx, what)
    if s.kind == 'df' and isinstance(idx, str):
        if not s.segs:
            raise PyRaise('KeyError', idx)         # a frame without rows and columns
        for sg in s.segs:
            if idx not in (sg.item if isinstance(sg, Family) else sg).cols:
                raise Unsupported('column missing in a part of a loop-built frame')
        return SegColumn(s, idx)
    raise Unsupported('subscript of accumulator')


# ----------------------------------------------------------------------------- pandas
class Freq:
    """a pandas frequency / unit string as an abstract positive duration"""

    def __init__(self, name, ns):
        self.name, self.ns = name, ns


_freq_ns = {}


def freq_ns(I, f):
    """duration (ns, Int term > 0) of a pandas frequency string; concrete strings map to one
    uninterpreted positive constant each ('h', 'd', ...), symbolic Str terms through freq_len."""
    if isinstance(f, Obj) and f.cls == 'Freq':
        return f.get('ns')
    if isinstance(f, str):
        key = f
        if key not in _freq_ns:
            _freq_ns[key] = z3.Int('freq_ns:' + key)
        I.extra_axioms.append(_freq_ns[key] > 0)
        return _freq_ns[key]
    if is_z3(f) and f.sort() == sym.Str:
        I.extra_axioms.append(freq_len(f) > 0)
        return freq_len(f)
    raise Unsupported('frequency value')


freq_len = z3.Function('freq_len', sym.Str, z3.IntSort())


def pd_Timedelta(I, a, unit=None, **kw):
    if unit is None:
        # pd.Timedelta('15min')
        return TD(freq_ns(I, a))
    k = lift(a)
    if not z3.is_int(k):
        raise Unsupported('Timedelta(real, unit)')
    return TD(k * freq_ns(I, unit))


def pd_to_offset(I, f):
    """pandas.tseries.frequencies.to_offset(frequency string): the frequency itself (only its length is ever used)"""
    if isinstance(f, (str,)) or (is_z3(f) and f.sort() == sym.Str) or (isinstance(f, Obj) and f.cls == 'Freq'):
        return Obj('Offset', freq=f)
    raise Unsupported('to_offset of ' + type(f).__name__)


def pd_to_timedelta(I, v, **kw):
    """pd.to_timedelta(offset): the fixed duration of a tick frequency (A4: the harness gives tick frequencies)"""
    if isinstance(v, Obj) and v.cls == 'Offset':
        return TD(freq_ns(I, v.get('freq')))
    if isinstance(v, TD):
        return v
    raise Unsupported('to_timedelta of ' + type(v).__name__)


def pd_Timestamp(I, v, tz=None, **kw):
    if isinstance(v, TS):
        if tz is None:
            return TS(v.t, v.tz)
        # pd.Timestamp(naive, tz=z) localises (A4: uninterpreted localisation per zone)
        if v.tz is None:
            return TS(localize(v.t, tz), tz)
        return TS(v.t, v.tz)
    raise Unsupported('Timestamp of ' + type(v).__name__)


loc_fn = z3.Function('tz_localize', z3.IntSort(), sym.Str, z3.IntSort())


def localize(t, tz):
    if tz is None:
        return t
    return loc_fn(lift(t), lift(tz))


def pd_DataFrame(I, data=None, index=None, columns=None, **kw):
    if isinstance(data, DF):
        return data.copy()
    if data is None and index is None:
        d = DF()
        if columns:
            d.n = 0
            d.index = sym.empty_arr()
            for c in columns:
                d.cols[c] = sym.empty_arr()
        return d
    if isinstance(data, list) and len(data) == 1 and index is None and columns is None and type(data[0]).__name__ in ('Row', 'RowCopy'):
        # pd.DataFrame([series]): one row, labelled with the series' name (the label of the row it was taken from),
        # columns = the series' fields
        r = data[0]
        vals = {k: r.getitem(I, k) for k in r.fields()}
        for k, v in vals.items():
            if isinstance(v, Havoc):
                raise Unsupported(f'frame from a row with an unknown field {k}: {v.why}')
        lab = r.label()
        return DF(1, Arr(1, lambda i, lab=lab: lab), {k: Arr(1, lambda i, v=v: v) for k, v in vals.items()})
    if data is None and isinstance(index, Arr) and not columns:
        # pd.DataFrame(index=labels): no column yet, one row per label
        d = DF(index.n, index, {})
        return d
    raise Unsupported('DataFrame(...) form')


def pd_DataFrame_from_dict(I, data, orient='columns', **kw):
    """pd.DataFrame.from_dict(d, orient='index') of a dictionary with literal keys and scalar values: one row per key (label = key),
    a single column labelled 0"""
    if orient != 'index' or kw:
        raise Unsupported('DataFrame.from_dict form')
    items = list(data.items) if isinstance(data, SymMap) else (list(data.items()) if isinstance(data, dict) else None)
    if items is None or any(not isinstance(k, str) for k, _ in items) or any(isinstance(v, (Arr, Mat, DF, dict, list, tuple, SymMap, Havoc)) for _, v in items):
        raise Unsupported('DataFrame.from_dict of this dictionary')
    seen = {}
    for k, v in items:
        seen[k] = v
    keys = list(seen)
    return DF(len(keys), sym.arr_from_list(keys), {0: sym.arr_from_list([seen[k] for k in keys])})


def pd_concat(I, parts, **kw):
    parts = [p for p in parts]
    if parts and isinstance(parts[0], Seg) and parts[0].kind == 'df':
        acc = parts[0]
        for p in parts[1:]:
            acc = I.seg_append(acc, p)
        return acc
    if any(isinstance(p, Havoc) for p in parts):
        return next(p for p in parts if isinstance(p, Havoc))
    parts = [p for p in parts if isinstance(p, DF)]
    ne = [p for p in parts if p.n is not None and not (concrete_int(p.n) == 0 and not p.cols)]
    if not ne:
        return DF()
    if len(ne) == 1:
        return ne[0].copy()
    names = []
    for p in ne:
        for c in p.cols:
            if c not in names:
                names.append(c)
    out = DF()
    out.index = sym.arr_concat([p.index for p in ne])
    out.n = out.index.n
    for c in names:
        out.cols[c] = sym.arr_concat([(p.cols[c] if c in p.cols else const_arr(p.n, None)) for p in ne])
    return out


def pd_date_range(I, start=None, end=None, freq=None, tz=None, **kw):
    """A4.  Tick (fixed-length) frequency: p_k = start + k*delta for all k with p_k <= end.
    Anchored / calendar frequency: some strictly increasing sequence inside [start, end] (nothing more).
    Which of the two applies is a case flag of the contract under proof (I.flags['date_range'])."""
    if not isinstance(start, TS) or not isinstance(end, TS):
        raise Unsupported('date_range without start/end timestamps')
    kind = getattr(I, 'flags', {}).get('date_range', 'tick')
    tzres = tz if tz is not None else start.tz
    m = z3.Int(fresh_name('dr_m'))
    s0, e0 = lift(start.t), lift(end.t)
    if kind == 'tick':
        d = freq_ns(I, freq)
        I.assume(z3.Implies(s0 <= e0, z3.And(m >= 1, s0 + (m - 1) * d <= e0, e0 < s0 + m * d)))
        I.assume(z3.Implies(s0 > e0, m == 0))
        out = Arr(m, lambda k: TS(s0 + lift(k) * d, tzres), kind='dtindex')
    else:
        pf = z3.Function(fresh_name('dr_p'), z3.IntSort(), z3.IntSort())
        i, j = z3.Int(fresh_name('dr_i')), z3.Int(fresh_name('dr_j'))
        cnt = getattr(I, 'flags', {}).get('date_range_count')
        if cnt is not None:
            # harness bound: the sequence has exactly cnt points (the loops over it are unrolled)
            m = int(cnt)
        I.assume(lift(m) >= 0)
        I.assume(z3.ForAll([i], z3.Implies(z3.And(i >= 0, i < m), z3.And(s0 <= pf(i), pf(i) <= e0)), patterns=[pf(i)]))
        I.assume(z3.ForAll([i, j], z3.Implies(z3.And(i >= 0, i < j, j < m), pf(i) < pf(j)), patterns=[z3.MultiPattern(pf(i), pf(j))]))
        out = Arr(m, lambda k: TS(pf(lift(k)), tzres), kind='dtindex')
    out.tz = tzres
    return out


def pd_to_datetime(I, v, **kw):
    if isinstance(v, TS):
        return v
    if isinstance(v, (list, tuple)) and v and all(isinstance(x, TS) for x in v):
        v = sym.arr_from_list(list(v))
    if isinstance(v, Arr) and concrete_int(v.n) != 0:
        probe = v.f(z3.Int('probe!dt'))
        if isinstance(probe, TS):
            # DatetimeIndex of the same instants; one zone for all elements (the zone tag of the element closure)
            out = Arr(v.n, v.f, kind='dtindex')
            out.tz = probe.tz
            return out
    raise Unsupported('pd.to_datetime')


def pd_merge(I, *a, **kw):
    raise Unsupported('pd.merge')


PD = ModelNS('pandas', dict(
    Timedelta=pd_Timedelta, Timestamp=TypeTok('Timestamp'), DataFrame=TypeTok('DataFrame', attrs=dict(from_dict=pd_DataFrame_from_dict)), concat=pd_concat,
    date_range=pd_date_range, to_datetime=pd_to_datetime, to_timedelta=pd_to_timedelta, merge=pd_merge, Series=TypeTok('Series'),
    DatetimeIndex=TypeTok('DatetimeIndex'),
))

DT = ModelNS('datetime', dict(datetime=TypeTok('datetime'), date=TypeTok('date')))


def construct(I, tok, args, kwargs):
    if tok.name == 'DataFrame':
        return pd_DataFrame(I, *args, **kwargs)
    if tok.name == 'Timestamp':
        return pd_Timestamp(I, *args, **kwargs)
    if tok.name in ('float', 'int'):
        return builtin_number(I, tok.name, *args)
    if tok.name == 'str':
        return b_str(I, *args)
    if tok.name == 'list':
        if len(args) == 1 and isinstance(args[0], Obj) and args[0].cls == 'list':
            return args[0]          # list(L) of an opaque list: same elements (lists are values in the model)
        return b_list(I, *args)
    if tok.name == 'dict':
        return dict(*args, **kwargs)
    if tok.name == 'tuple':
        return tuple(b_list(I, *args))
    if tok.name == 'set':
        items = b_list(I, *args)
        if any(is_z3(x) for x in items):
            return SymSet(items)       # elements that may or may not be equal: the size is the number of distinct VALUES, not of distinct terms
        return set(items)
    raise Unsupported('construct ' + tok.name)


# ----------------------------------------------------------------------------- builtins
class SymSet:
    """set built from a list of symbolic elements (e.g. names): only its size is modelled"""

    def __init__(self, items):
        self.items = list(items)

    def size(self):
        tot = z3.IntVal(0)
        for i, x in enumerate(self.items):
            first = z3.And(*[z3.Not(to_bool(cmpop('Eq', x, y))) for y in self.items[:i]]) if i else z3.BoolVal(True)
            tot = tot + z3.If(first, 1, 0)
        return z3.simplify(tot)


def b_len(I, v):
    if isinstance(v, Havoc):
        return v
    if type(v).__name__ == 'RowSel':
        # number of selected rows: only "is it zero" is characterised (that is what the code asks)
        # (a function of the enclosing loop variables, so that a test on it is recognised as depending on the iteration)
        lv = [lc.var for lc in I.loops]
        cnt = z3.Function(sym.fresh_name('rowsel!len'), *([z3.IntSort()] * (len(lv) + 1)))(*lv) if lv else z3.Int(sym.fresh_name('rowsel!len'))
        q = z3.Int(sym.fresh_name('rowsel!q'))
        n = lift(v.n if v.parts else 0)
        I.assume_silent(z3.And(cnt >= 0, (cnt == 0) == z3.Not(z3.Exists([q], z3.And(q >= 0, q < n, v.pred(q))))))
        return cnt
    if isinstance(v, SymSet):
        return v.size()
    if isinstance(v, SymMap):
        return len(v)
    if isinstance(v, (list, tuple, dict, str, set)):
        return len(v)
    if isinstance(v, Arr):
        return v.n
    if isinstance(v, Mat):
        return v.nr
    if isinstance(v, DF):
        return v.n if v.n is not None else 0
    if isinstance(v, Seg):
        return _sz(v.total())
    if isinstance(v, (RepStr, FnStr)):
        return v.n
    if isinstance(v, Obj) and v.has('__len__'):
        return v.get('__len__')
    raise Unsupported(f'len of {type(v).__name__}')


def b_range(I, a, b=None, step=None):
    if step is not None and concrete_int(step) != 1:
        raise Unsupported('range step')
    lo, hi = (0, a) if b is None else (a, b)
    cl, ch = concrete_int(lo), concrete_int(hi)
    if cl is not None and ch is not None:
        return range(cl, ch)
    return SymRange(lo, hi)


def b_enumerate(I, a, start=0):
    if isinstance(a, (list, tuple)):
        return list(enumerate(a, start))
    return SymEnum(_as_arr(I, a), start)


def b_zip(I, *arrs):
    if all(isinstance(a, (list, tuple)) for a in arrs):
        return list(zip(*arrs))
    return SymZip([_as_arr(I, a) for a in arrs])


def b_isinstance(I, v, types):
    if isinstance(v, Havoc):
        return v
    if not isinstance(types, tuple):
        types = (types,)
    return any(_isinst(I, v, t) for t in types)


def _isinst(I, v, t):
    name = t.name if isinstance(t, (TypeTok, RepoClass)) else None
    if name is None:
        raise Unsupported('isinstance type')
    if isinstance(v, Obj):
        if v.cls == name:
            return True
        if v.cls in I.repo.classes and name in I.repo.classes:
            return I.repo.is_subclass(v.cls, name)
        return False
    if isinstance(v, TS):
        return name in ('Timestamp', 'datetime', 'date')
    if isinstance(v, bool):
        return name in ('bool', 'int')
    if isinstance(v, int):
        return name == 'int'
    if isinstance(v, float):
        return name == 'float'
    if isinstance(v, str):
        return name == 'str'
    if isinstance(v, list):
        return name == 'list'
    if isinstance(v, tuple):
        return name == 'tuple'
    if isinstance(v, (dict, SymMap)):
        return name in ('dict', 'Dict')
    if v is None:
        return False
    if is_z3(v):
        if v.sort() == sym.Str:
            return name == 'str'
        if z3.is_int(v):
            return name == 'int'
        if z3.is_real(v):
            return name == 'float'
        if z3.is_bool(v):
            return name in ('bool', 'int')
    if isinstance(v, Arr):
        if v.kind == 'list':
            return name == 'list'
        if v.kind == 'series':
            return name == 'Series'
        if v.kind == 'dtindex':
            return name == 'DatetimeIndex'
        return name == 'ndarray'
    if isinstance(v, Mat):
        return name == 'ndarray' and not v.sparse
    if isinstance(v, DF):
        return name == 'DataFrame'
    return False


def hasattr_(I, o, name):
    if isinstance(o, Havoc):
        return o
    if isinstance(o, Obj):
        if o.has(name):
            return True
        if o.cls in I.repo.classes and I.repo.find_method(o.cls, name):
            return True
        return False
    raise Unsupported('hasattr on ' + type(o).__name__)


def b_getattr(I, o, name, default=_MISSING):
    if isinstance(o, Obj) and not o.has(name) and default is not _MISSING:
        if not (o.cls in I.repo.classes and I.repo.find_method(o.cls, name)):
            return default
    return I.get_attr(o, name)


def b_type(I, v):
    if isinstance(v, Obj):
        return Obj('type', __name__=v.cls)
    raise Unsupported('type()')


def b_str(I, v=''):
    if isinstance(v, str):
        return v
    if isinstance(v, (int, float, bool)) or v is None:
        return str(v)
    if is_z3(v) and v.sort() == sym.Str:
        return v
    if is_z3(v) and z3.is_int(v):
        return sym.int_to_str(v)
    return I.havoc('str() of symbolic')


def builtin_number(I, kind, v=0):
    if isinstance(v, (int, float, str)):
        return int(v) if kind == 'int' else float(v)
    if is_z3(v):
        if kind == 'float':
            return sym.to_real(v)
        if z3.is_int(v):
            return v
        if z3.is_bool(v):
            return sym.to_int(v)
        return z3.ToInt(v)      # int() truncates; equal to floor for the non-negative values it is used on
    raise Unsupported(kind + '()')


def b_list(I, v=()):
    if isinstance(v, SymMap):
        return v.keys()
    if isinstance(v, (list, tuple, range, set, dict)):
        return list(v)
    if isinstance(v, Arr):
        a = v.copy()
        a.kind = 'list'
        cn = concrete_int(a.n)
        if cn is not None and cn <= 16:
            return [a.f(k) for k in range(cn)]
        return a
    if isinstance(v, SymZip) or isinstance(v, SymEnum) or isinstance(v, SymRange):
        c = I.concrete_iter(v)
        if c is not None:
            return c
    raise Unsupported('list() of ' + type(v).__name__)


def _reduce(py, s):
    def f(I, *args, **kw):
        if len(args) == 1:
            a = args[0]
            if isinstance(a, (list, tuple)):
                if all(not sym.is_sym(x) for x in a):
                    return py(a)
                out = a[0]
                for x in a[1:]:
                    out = _minmax(py2(py), s)(out, x)
                return out
            if isinstance(a, Arr):
                cn = concrete_int(a.n)
                if cn is not None and 0 < cn <= 8:
                    out = a.f(0)
                    for k in range(1, cn):
                        out = _minmax(py2(py), s)(out, a.f(k))
                    return out
                return arr_extreme(I, a, py is max)
            raise Unsupported('min/max of ' + type(a).__name__)
        out = args[0]
        for x in args[1:]:
            out = sym.ew(_minmax(py2(py), s), out, x)
        return out
    return f


def py2(py):
    return (lambda x, y: py(x, y))


def arr_extreme(I, a, is_max):
    """max(a) / min(a) over a symbolic-length array: fresh value m with  forall i: a[i] <= m  and
    exists i: a[i] = m  (for n > 0; on n = 0 Python raises ValueError -> safety obligation)."""
    I.require('max-of-empty', cmpop('Gt', a.n, 0), kind='index')
    if a.comp is not None:
        base, mask = a.comp
        pb = z3.Int('probe!id')
        try:
            ident = z3.is_true(z3.simplify(lift(base.f(pb)) == pb))
        except Exception:
            ident = False
        if ident:
            # selection from the identity index: strictly increasing, so min / max are the first / last selected position
            cnt, sel, rank = sym.COMP.get(mask)
            return sel(lift(cnt) - 1) if is_max else sel(z3.IntVal(0))
    if I.loops:
        raise Unsupported('min/max of a general array inside a symbolic loop')
    probe = lift(a.f(z3.Int('probe!m')))
    m = z3.Const(fresh_name('extreme'), probe.sort())
    i = z3.Int(fresh_name('q'))
    w = z3.Int(fresh_name('wit'))
    rng = z3.And(i >= 0, i < lift(a.n))
    I.assume(z3.ForAll([i], z3.Implies(rng, (lift(a.f(i)) <= m) if is_max else (lift(a.f(i)) >= m))))
    I.assume(z3.And(w >= 0, w < lift(a.n), lift(a.f(w)) == m))
    return m


def b_sum(I, a, start=0):
    if isinstance(a, (list, tuple)):
        out = start
        for x in a:
            out = binop('Add', out, x)
        return out
    if isinstance(a, Arr):
        return binop('Add', start, sym.arr_sum(a, I.pc)) if start != 0 else sym.arr_sum(a, I.pc)
    raise Unsupported('sum of ' + type(a).__name__)


def b_any(I, a):
    if isinstance(a, (list, tuple)):
        if all(isinstance(x, bool) for x in a):
            return any(a)
        return z3.Or(*[to_bool(x) for x in a]) if a else False
    if isinstance(a, Arr):
        return sym.exists_arr(a)
    if isinstance(a, Havoc):
        return a
    raise Unsupported('any of ' + type(a).__name__)


def b_all(I, a):
    if isinstance(a, (list, tuple)):
        if all(isinstance(x, bool) for x in a):
            return all(a)
        return z3.And(*[to_bool(x) for x in a]) if a else True
    if isinstance(a, Arr):
        return sym.forall_arr(a)
    if isinstance(a, Havoc):
        return a
    raise Unsupported('all of ' + type(a).__name__)


def b_abs(I, a):
    return sym.ew(lambda x: abs(x) if not is_z3(x) else sym.s_abs(x), a)


def b_print(I, *a, **k):
    return None


def b_set(I, v=()):
    if isinstance(v, (list, tuple)):
        if all(not sym.is_sym(x) for x in v):
            return set(v)
        return SymSet(list(v))
    raise Unsupported('set()')


def b_int(I, v=0):
    return builtin_number(I, 'int', v)


def b_float(I, v=0.0):
    return builtin_number(I, 'float', v)


BUILTINS = dict(len=b_len, range=b_range, enumerate=b_enumerate, zip=b_zip, isinstance=b_isinstance,
                getattr=b_getattr, type=b_type, str=TypeTok('str'), int=TypeTok('int'), float=TypeTok('float'),
                list=TypeTok('list'), dict=TypeTok('dict'), tuple=TypeTok('tuple'), set=b_set,
                min=_reduce(min, sym.s_min), max=_reduce(max, sym.s_max), sum=b_sum, any=b_any, all=b_all, abs=b_abs,
                print=b_print, bool=TypeTok('bool'), True_=True, Dict=TypeTok('dict'), ValueError='ValueError',
                NotImplementedError='NotImplementedError', Exception='Exception', TypeError='TypeError',
                IndexError='IndexError', KeyError='KeyError', AssertionError='AssertionError')


def deepcopy_(I, v):
    if isinstance(v, (Arr, Mat, DF)):
        return v.copy()
    if isinstance(v, Obj):
        o = Obj(v.cls, **{k: deepcopy_(I, x) for k, x in v.attrs.items()})
        return o
    if isinstance(v, list):
        return [deepcopy_(I, x) for x in v]
    if isinstance(v, dict):
        return {k: deepcopy_(I, x) for k, x in v.items()}
    return v


# ----------------------------------------------------------------------------- name resolution
class RepoModule:
    """`from eaopack import <module>`: only its classes are reachable (as type tokens for isinstance / constructors)"""

    def __init__(self, name):
        self.name = name


def global_name(I, mod, name):
    """module-level names of a repo module: import aliases resolve to model namespaces"""
    tree = I.repo.modules[mod][0]
    for node in tree.body:
        if isinstance(node, ast_Import):
            for al in node.names:
                if (al.asname or al.name.split('.')[0]) == name:
                    m = MODULES.get(al.name)
                    if m is None:
                        raise Unsupported('module ' + al.name)
                    return m
        elif isinstance(node, ast_ImportFrom):
            for al in node.names:
                if (al.asname or al.name) == name:
                    full = (node.module or '') + '.' + al.name
                    if full in FROM_IMPORTS:
                        return FROM_IMPORTS[full]
                    if al.name in I.repo.classes:
                        return RepoClass(al.name)
                    for (m, n), fn in I.repo.functions.items():
                        if n == al.name and node.module and node.module.endswith(m):
                            return RepoFunc(m, fn)
                    if node.module in ('eaopack', None) and al.name in I.repo.modules:
                        return RepoModule(al.name)
                    if node.module == 'typing':
                        return TypeTok(al.name.lower() if al.name in ('Dict', 'List') else al.name)
                    raise Unsupported('from-import ' + full)
    if name in BUILTINS:
        return BUILTINS[name]
    return _MISSING


import ast as _ast
ast_Import, ast_ImportFrom = _ast.Import, _ast.ImportFrom

MODULES = {'numpy': NP, 'pandas': PD, 'scipy.sparse': SP, 'datetime': DT, 'abc': ModelNS('abc', {}),
           'copy': ModelNS('copy', dict(deepcopy=deepcopy_, copy=deepcopy_)), 'json': ModelNS('json', {}),
           'pytz': ModelNS('pytz', {})}
FROM_IMPORTS = {'copy.deepcopy': deepcopy_, 'pandas.tseries.frequencies.to_offset': pd_to_offset}


# ----------------------------------------------------------------------------- attributes / methods of values
def value_attr(I, o, attr):
    if isinstance(o, Arr):
        return arr_attr(I, o, attr)
    if isinstance(o, Mat):
        return mat_attr(I, o, attr)
    if isinstance(o, DF):
        return df_attr(I, o, attr)
    if isinstance(o, Seg):
        return seg_attr(I, o, attr)
    if isinstance(o, TS):
        if attr == 'tzinfo' or attr == 'tz':
            return o.tz
        if attr in ('tz_localize',):
            return lambda I_, tz: TS(localize(o.t, tz), tz) if tz is not None else TS(o.t, None)
        raise Unsupported('Timestamp.' + attr)
    if isinstance(o, SymMap):
        if attr == 'copy':
            return lambda I_: o.copy()
        if attr == 'keys':
            return lambda I_: o.keys()
        if attr == 'values':
            return lambda I_: [v for _, v in o.items]
        if attr == 'items':
            return lambda I_: list(o.items)
        raise Unsupported('dict.' + attr)
    if isinstance(o, dict):
        if attr == 'copy':
            return lambda I_: dict(o)
        if attr == 'keys':
            return lambda I_: list(o.keys())
        if attr == 'values':
            return lambda I_: list(o.values())
        if attr == 'items':
            return lambda I_: list(o.items())
        if attr == 'get':
            return lambda I_, k, d=None: o.get(k, d)
        if attr == 'pop':
            def pop(I_, k, *d):
                if id(o) in I.protect:
                    I.require(f'frame:{I.protect[id(o)]}.pop', z3.BoolVal(False), kind='frame')
                return o.pop(k, *d)
            return pop
        raise Unsupported('dict.' + attr)
    if isinstance(o, list):
        if attr == 'append':
            def app(I_, x):
                if I.loops or I.guards:
                    raise Unsupported('list.append in symbolic loop (use accumulator)')
                o.append(x)
            return app
        if attr == 'extend':
            def ext(I_, xs):
                if I.loops or I.guards:
                    raise Unsupported('list.extend in symbolic loop')
                o.extend(b_list(I, xs))
            return ext
        if attr == 'copy':
            return lambda I_: list(o)
        if attr == 'index':
            return lambda I_, x: o.index(x)
        raise Unsupported('list.' + attr)
    if isinstance(o, str):
        if attr == 'lower':
            return lambda I_: o.lower()
        if attr == 'upper':
            return lambda I_: o.upper()
        raise Unsupported('str.' + attr)
    if isinstance(o, (int, float)):
        if attr == 'is_integer':
            return lambda I_: float(o).is_integer()
        raise Unsupported('number.' + attr)
    if is_z3(o):
        if attr == 'is_integer':
            return lambda I_: (True if z3.is_int(o) else z3.IsInt(o))
        if attr == 'T':
            return o
        if attr == 'lower' and o.sort() == sym.Str:
            return lambda I_: o
        if attr == 'sum':
            return lambda I_: o
        raise Unsupported('scalar.' + attr)
    if isinstance(o, (TypeTok,)):
        if o.name == 'Timestamp' and attr == 'max':
            return TS(z3.Int('Timestamp.max'), None)
        if attr == '__name__':
            return o.name
        if attr in getattr(o, 'attrs', {}):
            return o.attrs[attr]
        raise Unsupported(f'{o.name}.{attr}')
    if isinstance(o, RepStr):
        raise Unsupported('RepStr.' + attr)
    raise Unsupported(f'attribute {attr} of {type(o).__name__}')


def arr_attr(I, a, attr):
    if attr in ('values', 'T'):
        return a
    if attr == 'shape':
        return (a.n,)
    if attr == 'size':
        return a.n
    if attr == 'copy':
        return lambda I_, **kw: a.copy()
    if attr == 'sum':
        return lambda I_, **kw: sym.arr_sum(a, I.pc)
    if attr == 'cumsum':
        return lambda I_, **kw: sym.arr_cumsum(a, I.pc)
    if attr == 'mean':
        def mean(I_, **kw):
            I.require('mean-of-empty', cmpop('Gt', a.n, 0), kind='index')
            return sym.s_div(sym.arr_sum(a, I.pc), a.n)
        return mean
    if attr == 'all':
        return lambda I_, **kw: sym.forall_arr(a)
    if attr == 'any':
        return lambda I_, **kw: sym.exists_arr(a)
    if attr == 'min':
        return lambda I_, **kw: arr_extreme(I, a, False)
    if attr == 'max' and a.index is not None and concrete_int(a.n) is None:
        # pandas Series.max(): NaN for an empty series (no exception), otherwise the largest entry
        def series_max(I_, **kw):
            pv = a.f(z3.Int('probe!m'))
            if isinstance(pv, Opt) or pv is None:
                # entries that may be NaN themselves (skipped by pandas): some value or NaN, nothing more is claimed
                return Opt(z3.Bool(fresh_name('smax_null')), z3.Real(fresh_name('smax')))
            probe = lift(pv)
            m = z3.Const(fresh_name('smax'), probe.sort())
            if not I.loops:
                i, w = z3.Int(fresh_name('q')), z3.Int(fresh_name('wit'))
                I.assume(z3.ForAll([i], z3.Implies(z3.And(i >= 0, i < lift(a.n)), lift(a.f(i)) <= m)))
                I.assume(z3.Implies(lift(a.n) > 0, z3.And(w >= 0, w < lift(a.n), lift(a.f(w)) == m)))
            return sym.mk_opt(lift(a.n) == 0, m)
        return series_max
    if attr == 'max':
        return lambda I_, **kw: arr_extreme(I, a, True)
    if attr == 'flatten':
        return lambda I_, *x, **kw: a.copy()
    if attr == 'tolist' or attr == 'to_list':
        def tolist(I_):
            b = a.copy()
            b.kind = 'list'
            return b
        return tolist
    if attr == 'astype':
        def astype(I_, t, **kw):
            name = t.name if isinstance(t, TypeTok) else t
            if name == 'str':
                return Arr(a.n, lambda i, _f_a=a.f: _to_str_elem(_f_a(i)), kind=a.kind)
            if name in ('int', 'int64'):
                return Arr(a.n, lambda i, _f_a=a.f: _to_int_elem(_f_a(i)), kind=a.kind)
            if name in ('float',):
                return Arr(a.n, lambda i, _f_a=a.f: sym.to_real(_f_a(i)), kind=a.kind)
            raise Unsupported('astype ' + str(name))
        return astype
    if attr == 'fill':
        def fill(I_, v):
            I.mutate_whole(a, const_arr(a.n, v))
        return fill
    if attr == 'fillna':
        def fillna(I_, v, **kw):
            if kw.get('inplace'):
                raise Unsupported('fillna inplace')
            return Arr(a.n, lambda i, _f_a=a.f: _fillna(_f_a(i), v), kind=a.kind)
        return fillna
    if attr == 'isnull' or attr == 'isna':
        return lambda I_, _f_a=a.f: Arr(a.n, lambda i: sym.is_null(_f_a(i)))
    if attr == 'notnull':
        return lambda I_, _f_a=a.f: Arr(a.n, lambda i: sym.s_not(sym.is_null(_f_a(i))) if not isinstance(sym.is_null(_f_a(i)), bool) else (not sym.is_null(_f_a(i))))
    if attr == 'map':
        def smap(I_, mp):
            if isinstance(mp, SymMap):
                j = z3.Int(fresh_name('mp'))
                probe = mp.has_key(a.f(j), I.resolve_bool)
                if probe is not True:
                    I.require('map-key-present', z3.ForAll([j], z3.Implies(z3.And(j >= 0, j < lift(a.n)), to_bool(probe))), kind='index')
                return Arr(a.n, lambda i, _f=a.f: mp.lookup(_f(i)), kind=a.kind)
            if isinstance(mp, dict):
                return Arr(a.n, lambda i, _f=a.f: mp[_f(i)], kind=a.kind)
            raise Unsupported('Series.map of ' + type(mp).__name__)
        return smap
    if attr == 'isin':
        def isin(I_, other):
            other = _as_arr(I, other)
            return Arr(a.n, lambda i, _f_a=a.f: sym.exists_arr(other, lambda x: cmpop('Eq', x, _f_a(i))))
        return isin
    if attr == 'index':
        if a.index is not None:
            return a.index
        raise Unsupported('Series.index unknown')
    if attr == 'name':
        return None
    if attr == 'append' and a.kind == 'list':
        def append(I_, item):
            # list of symbolic length, outside summarised loops: in-place extension by one element
            if I_.loops or I_.guards:
                raise Unsupported('append to symbolic list under a guard / in a summarised loop')
            n0, f0 = a.n, a.f
            a.f = lambda i: ite(lift(i) == lift(n0), item, f0(i))
            a.n = binop('Add', n0, 1)
            a.view = a.comp = None
            return None
        return append
    if attr == 'append' and a.kind == 'dtindex':
        def dt_append(I_, other):
            other = _as_arr(I, other)
            out = sym.arr_concat([a, other])
            out.kind = 'dtindex'
            out.tz = getattr(a, 'tz', None)
            return out
        return dt_append
    if attr == 'insert' and a.kind == 'dtindex':
        def dt_insert(I_, pos, item):
            if concrete_int(pos) != 0 or not isinstance(item, TS):
                raise Unsupported('DatetimeIndex.insert form')
            out = sym.arr_concat([Arr(1, lambda i, item=item: item), a])
            out.kind = 'dtindex'
            out.tz = getattr(a, 'tz', None)
            return out
        return dt_insert
    if attr == 'get_indexer':
        raise Unsupported('get_indexer')
    if attr == 'unique':
        def unique(I_):
            # pandas unique(): values in order of first appearance = the elements that are not duplicates of an earlier one
            out = sym.compress(a, sym.invert(sym.duplicated_first(a, 'first')))
            try:
                probe = lift(a.f(z3.Int('probe!u')))
            except Unsupported:
                return out
            # consequences of that definition (A2; they need induction over the array, so they are stated with it):
            # every entry occurs in the result (at position upos), the result's entries are pairwise different and each
            # is an entry of the array (at usrc)
            pos = z3.Function(fresh_name('upos'), z3.IntSort(), z3.IntSort())
            src = z3.Function(fresh_name('usrc'), z3.IntSort(), z3.IntSort())
            i, k1, k2 = z3.Int(fresh_name('ui')), z3.Int(fresh_name('uk')), z3.Int(fresh_name('ul'))
            n, m = lift(a.n), lift(out.n)
            uf = z3.Function(fresh_name('uval'), z3.IntSort(), probe.sort())
            I.assume(z3.ForAll([k1], z3.Implies(z3.And(k1 >= 0, k1 < m), uf(k1) == lift(out.f(k1))), patterns=[uf(k1)]))
            I.assume(z3.ForAll([i], z3.Implies(z3.And(i >= 0, i < n), z3.And(pos(i) >= 0, pos(i) < m, uf(pos(i)) == lift(a.f(i)))), patterns=[pos(i)]))
            I.assume(z3.ForAll([k1, k2], z3.Implies(z3.And(k1 >= 0, k1 < k2, k2 < m), uf(k1) != uf(k2)), patterns=[z3.MultiPattern(uf(k1), uf(k2))]))
            I.assume(z3.ForAll([k1], z3.Implies(z3.And(k1 >= 0, k1 < m), z3.And(src(k1) >= 0, src(k1) < n, lift(a.f(src(k1))) == uf(k1), pos(src(k1)) == k1)), patterns=[src(k1)]))
            res = Arr(out.n, lambda k, uf=uf: uf(lift(k)), kind=out.kind)
            res.comp = out.comp
            res.upos, res.usrc, res.uval = pos, src, uf
            return res
        return unique
    if attr == 'tz':
        return getattr(a, 'tz', None)
    if attr == 'tz_localize' and a.kind == 'dtindex' and getattr(a, 'tz', None) is None:
        def tz_localize(I_, tz):
            if tz is None:
                return a
            out = Arr(a.n, lambda i, _f=a.f: TS(localize(_f(i).t, tz), tz), kind='dtindex')
            out.tz = tz
            return out
        return tz_localize
    if attr == 'duplicated':
        def duplicated(I_, keep='first'):
            if keep not in ('first', 'last'):
                raise Unsupported("duplicated(keep=False)")
            return sym.duplicated_first(a, keep)
        return duplicated
    raise Unsupported('ndarray.' + attr)


def _to_str_elem(v):
    if v is None:
        return 'nan'
    if isinstance(v, str):
        return v
    if is_z3(v) and v.sort() == sym.Str:
        return v
    if is_z3(v) and z3.is_int(v):
        return sym.int_to_str(v)
    raise Unsupported('astype(str) of number')


def _to_int_elem(v):
    if isinstance(v, int):
        return v
    if is_z3(v) and z3.is_int(v):
        return v
    raise Unsupported('astype(int) of non-int')


def _fillna(v, d):
    n, val = sym.null_parts(v)
    if val is None:
        return d
    return ite(n, d, val)


def mat_attr(I, m, attr):
    if attr == 'shape':
        return (m.nr, m.nc)
    if attr in ('tolil', 'tocsr', 'tocoo', 'toarray', 'todense', 'copy'):
        return lambda I_, **kw: (m if attr in ('tolil', 'tocsr', 'tocoo') else m.copy())
    if attr == 'T':
        return Mat(m.nc, m.nr, lambda r, c, _f_m=m.f: _f_m(c, r), sparse=m.sparse)
    if attr == 'flatten':
        return lambda I_, order='C': sym.flatten_c(m)
    if attr == 'sum':
        def msum(I_, axis=None):
            if axis is None:
                # total of all entries: sum over rows of row sums (only for single-row matrices here)
                if concrete_int(m.nr) == 1:
                    return sym.arr_sum(Arr(m.nc, lambda c, _f_m=m.f: _f_m(0, c)), I.pc)
                raise Unsupported('matrix total sum')
            raise Unsupported('matrix axis sum')
        return msum
    if attr == 'rows' or attr == 'data':
        raise Unsupported('lil internals')
    raise Unsupported('matrix.' + attr)


def seg_attr(I, s, attr):
    if attr == 'shape' and s.kind == 'mat':
        return (_sz(s.total()), s.nc)
    if attr in ('tolil', 'tocsr') and s.kind == 'mat':
        return lambda I_: s
    if attr == 'copy':
        return lambda I_: s.copy()
    if attr == 'append' and s.kind == 'list':
        raise Unsupported('list accumulator append (use +=)')
    raise Unsupported(f'accumulator.{attr}')


# ----------------------------------------------------------------------------- DataFrame
class _ILoc:
    def __init__(self, df):
        self.df = df

    def setitem(self, I, idx, v):
        df = self.df
        if not (isinstance(idx, tuple) and len(idx) == 2):
            raise Unsupported('iloc store form')
        r, c = idx
        cc = concrete_int(c)
        if cc is None:
            raise Unsupported('iloc symbolic column')
        name = list(df.cols)[cc]
        col = df.cols[name]
        I.arr_set(col, r, v, f'iloc[..,{name}]')

    def getitem(self, I, idx, what):
        df = self.df
        if isinstance(idx, tuple):
            raise Unsupported('iloc 2-D read')
        k = I.bounds_check(idx, df.n, what)
        return Row(df, k)


def label_position(I, index, label):
    """position of `label` in a pandas index with pairwise different labels.  Supported: the label was read from the same index
    (index[k] for an in-range k, syntactically) -- then the position is k; the uniqueness of the labels is an obligation (pandas would
    address several rows otherwise).  Literal labels in a literal index are looked up directly."""
    n = index.n
    cn = concrete_int(n)
    if isinstance(label, str) and cn is not None:
        labs = [index.f(k) for k in range(cn)]
        if all(isinstance(x, str) for x in labs):
            if labs.count(label) != 1:
                raise PyRaise('KeyError', label) if label not in labs else Unsupported('duplicate literal label')
            return labs.index(label)
    if isinstance(label, TS):
        probe = z3.Int('probe!label')
        pt = index.f(probe)
        if isinstance(pt, TS) and is_z3(pt.t) and is_z3(label.t) and pt.t.num_args() == 1 and label.t.num_args() == 1 and \
                pt.t.decl().eq(label.t.decl()) and pt.t.arg(0).eq(probe):
            k = label.t.arg(0)
            i, j = z3.Ints('lab!i lab!j')
            fi, fj = index.f(i).t, index.f(j).t
            I.require('label-unique', z3.ForAll([i, j], z3.Implies(z3.And(i >= 0, i < j, j < lift(n)), fi != fj),
                                                patterns=[z3.MultiPattern(fi, fj)]), kind='shape')
            return I.bounds_check(k, n, 'loc[label]')
    raise Unsupported('loc[label]: label not recognisably taken from the index')


def _positional(index):
    probe = z3.Int('probe!positional')
    v = index.f(probe)
    return is_z3(v) and lift(v).eq(probe)


class SelColumn:
    """frame.loc[list of row positions, column]: the column's values at the selected rows (RowSel)"""

    def __init__(self, rows, col):
        self.rows, self.col = rows, col


class UniqueVals:
    """SelColumn.unique(): the distinct values -- as a set predicate  v in U  <=>  exists selected row q: col[q] == v"""

    def __init__(self, sel):
        self.sel = sel

    def member(self, v):
        q = z3.Int(sym.fresh_name('uniq!q'))
        rs, col = self.sel.rows, self.sel.col
        return z3.Exists([q], z3.And(q >= 0, q < lift(rs.n if rs.parts else 0), rs.pred(q), lift(col.f(q)) == lift(v)))


class PickedByUnique:
    """arr[UniqueVals]: the entries of arr at the distinct (integer) values; only its sum is modelled:
    sum_t [t in U] arr[t]  (every value of U must be a valid position: obligation)"""

    def __init__(self, arr, uniq):
        self.arr, self.uniq = arr, uniq


class _Loc:
    def __init__(self, df):
        self.df = df

    def cell(self, I, idx):
        """(column array, position) addressed by loc[row label, literal column label], or None"""
        df = self.df
        if isinstance(idx, tuple) and len(idx) == 2 and isinstance(idx[1], str) and isinstance(idx[0], (TS, str)) and \
                isinstance(df.cols.get(idx[1]), Arr):
            _df_frame(I, df, 'loc[...] +=')
            return df.cols[idx[1]], label_position(I, df.index, idx[0])
        return None

    def getitem(self, I, idx, what):
        df = self.df
        if isinstance(idx, tuple) and len(idx) == 2 and isinstance(idx[1], str) and type(idx[0]).__name__ == 'RowSel':
            if idx[1] not in df.cols or not isinstance(df.cols[idx[1]], Arr):
                raise PyRaise('KeyError', idx[1])
            if not z3.is_true(z3.simplify(lift(df.n) == lift(idx[0].n if idx[0].parts else df.n))):
                raise Unsupported('rows of another frame')
            return SelColumn(idx[0], df.cols[idx[1]])
        if isinstance(idx, tuple) and len(idx) == 2 and isinstance(idx[1], str) and is_z3(idx[0]) and z3.is_int(idx[0]) and _positional(df.index):
            # frame with a positional index (after reset_index): label = position
            if idx[1] not in df.cols:
                raise PyRaise('KeyError', idx[1])
            k = I.bounds_check(idx[0], df.n, 'loc[row number]')
            col = df.cols[idx[1]]
            return col if isinstance(col, Havoc) else col.f(k)
        if isinstance(idx, tuple) and len(idx) == 2 and isinstance(idx[1], str) and isinstance(idx[0], (TS, str)):
            if idx[1] not in df.cols:
                raise PyRaise('KeyError', idx[1])
            k = label_position(I, df.index, idx[0])
            col = df.cols[idx[1]]
            if isinstance(col, Havoc):
                return col
            return col.f(k)
        if isinstance(idx, tuple) and len(idx) == 2 and isinstance(idx[1], slice) and idx[1].start is None:
            idx = idx[0]
        if isinstance(idx, tuple) and len(idx) == 2 and isinstance(idx[1], str):
            sel = df_getitem(I, df, idx[0]) if isinstance(idx[0], Arr) else None
            if sel is None:
                raise Unsupported('loc[label, col]')
            return sel.cols[idx[1]]
        if isinstance(idx, Arr):
            return df_getitem(I, df, idx)
        raise Unsupported('loc read form')

    def setitem(self, I, idx, v):
        df = self.df
        _df_frame(I, df, 'loc[...] =')
        if isinstance(idx, tuple) and len(idx) == 2 and isinstance(idx[1], str) and isinstance(idx[0], (TS, str)) and idx[1] in df.cols \
                and isinstance(df.cols[idx[1]], Arr):
            k = label_position(I, df.index, idx[0])
            I.arr_set(df.cols[idx[1]], k, v, f'loc[label,{idx[1]}]')
            return
        if isinstance(idx, tuple) and len(idx) == 2 and isinstance(idx[1], str) and isinstance(idx[0], slice) and \
                idx[0].start is None and idx[0].stop is None and idx[0].step is None and isinstance(v, Arr) and idx[1] in df.cols:
            # df.loc[:, col] = array : the whole column (lengths must agree)
            I.require(f'column-length:{idx[1]}', cmpop('Eq', df.n, v.n), kind='shape')
            df.cols[idx[1]] = Arr(v.n, v.f)
            return
        if isinstance(idx, tuple) and len(idx) == 2 and isinstance(idx[0], TS) and is_z3(idx[1]):
            # df.loc[label, computed column label] = v : scattered cell of a column addressed by a computed name
            k = label_position(I, df.index, idx[0])
            if getattr(df, 'keyed', None) is None:
                df.keyed = KeyedCells()
            df.keyed.write(I, k, idx[1], v)
            return
        if isinstance(idx, tuple) and len(idx) == 2 and isinstance(idx[0], Arr) and isinstance(idx[1], str):
            mask, name = idx
            if name not in df.cols:
                df.cols[name] = const_arr(df.n, None)
            I.arr_set(df.cols[name], mask, v, f'loc[mask,{name}]')
            return
        if isinstance(v, dict) and not isinstance(idx, (tuple, Arr, slice)):
            # df.loc[new_label] = {col: value}  : append one row
            newcols = {}
            for c, col in df.cols.items():
                newcols[c] = sym.arr_concat([col, Arr(1, lambda i, x=v.get(c, None): x)])
            for c in v:
                if c not in df.cols:
                    newcols[c] = sym.arr_concat([const_arr(df.n, None), Arr(1, lambda i, x=v[c]: x)])
            df.index = sym.arr_concat([df.index, Arr(1, lambda i: idx)])
            df.cols = newcols
            df.n = df.index.n
            return
        raise Unsupported('loc store form')


def _concat_cancel_axiom():
    """a + b == a + c  =>  b == c  for strings (left cancellation); registered once per path"""
    a, b, c = z3.Consts('cc!a cc!b cc!c', sym.Str)
    ax = z3.ForAll([a, b, c], z3.Implies(sym.str_concat(a, b) == sym.str_concat(a, c), b == c),
                   patterns=[z3.MultiPattern(sym.str_concat(a, b), sym.str_concat(a, c))])
    if not any(x.eq(ax) for x in sym.EXTRA):
        sym.EXTRA.append(ax)


class KeyedCells:
    """cells of a frame written as df.loc[row label, computed column label] = value (the nodal price table).  A cell that was never
    written is NaN (pandas creates the column with NaN when the label is new); a later write to the same (row, label) wins.
    Writes inside ONE symbolic loop are kept as a family  k -> (row(k), label(k), value(k)) over the loop's domain."""

    def __init__(self):
        self.writes = []        # ('one', row, key, val) | ('family', var, dom, row, key, val)

    def write(self, I, row, key, val):
        if isinstance(val, (Arr, Mat, DF, Havoc, dict, list, tuple)):
            raise Unsupported('keyed cell value')
        if I.guards and not I.loops:
            raise Unsupported('keyed cell store under a symbolic guard')
        if not I.loops:
            self.writes.append(('one', row, key, val))
            return
        if len(I.loops) != 1:
            raise Unsupported('keyed cell store in nested symbolic loops')
        lc = I.loops[0]
        self.writes.append(('family', lc.var, I.guard_formula(), row, key, val))

    def read(self, row, key):
        """optional value (None-able) at (row, key): the value of the last write addressing the cell.  For a family the LAST index with
        that address is characterised by a fresh witness: cell is set iff some index addresses it; the value is the one of an index
        addressing it after which no later index does."""
        out = None          # never written: NaN
        for w in self.writes:
            if w[0] == 'one':
                _, r, k, v = w
                out = sym.ite(z3.And(lift(r) == lift(row), k == key), v, out)
            else:
                _, var, dom, r, k, v = w
                hit = lambda kk: z3.And(z3.substitute(dom, (var, kk)), z3.substitute(lift(r), (var, kk)) == lift(row),
                                        z3.substitute(k, (var, kk)) == key)
                j = z3.Int(sym.fresh_name('cellw'))
                j2 = z3.Int(sym.fresh_name('cellw2'))
                some = z3.Exists([j2], hit(j2))
                # witness: the last index addressing the cell
                sym.EXTRA.append(z3.Implies(some, z3.And(hit(j), z3.ForAll([j2], z3.Implies(hit(j2), j2 <= j)))))
                _concat_cancel_axiom()
                vj = v
                if is_z3(vj):
                    vj = z3.substitute(vj, (var, j))
                out = sym.ite(some, vj, out)
        return out


class SymRows:
    """DataFrame.iterrows(): pairs (index label, row)"""

    def __init__(self, df):
        self.df = df


class Row:
    """one row of a DataFrame (iterrows / iloc[k])"""

    def __init__(self, df, k):
        self.df, self.k = df, k

    def getitem(self, I, key, what=None):
        if key not in self.df.cols:
            raise PyRaise('KeyError', key)
        return self.df.cols[key].f(self.k)

    def contains(self, I, key):
        if not isinstance(key, str):
            raise Unsupported('membership of a symbolic key in a row')
        return key in self.df.cols

    def label(self):
        return self.df.index.f(self.k)

    def fields(self):
        return list(self.df.cols)


class RowCopy:
    """r.copy() of a frame row: a mutable Series -- the row's fields with overrides, same label.
    Fields stored inside a symbolic loop that is deeper than the copy's creation are marked stale at the loop's
    entry and exit (Interp.symbolic_for), so a read sees either this iteration's store or a Havoc."""

    def __init__(self, row):
        self.row, self.over = row, {}

    def getitem(self, I, key, what=None):
        if key in self.over:
            return self.over[key]
        return self.row.getitem(I, key, what)

    def setitem(self, I, key, v):
        if not isinstance(key, str):
            raise Unsupported('row store with a symbolic key')
        if I.guards:
            raise Unsupported('row store under a symbolic guard')
        self.over[key] = v

    def contains(self, I, key):
        if not isinstance(key, str):
            raise Unsupported('membership of a symbolic key in a row')
        return key in self.over or key in self.row.df.cols

    def label(self):
        return self.row.label()

    def fields(self):
        return self.row.fields() + [k for k in self.over if k not in self.row.df.cols]


def df_attr(I, df, attr):
    if attr == 'index':
        if df.index is None:
            return sym.empty_arr()
        return df.index
    if attr == 'columns':
        return Columns(df)
    if attr == 'iloc':
        return _ILoc(df)
    if attr == 'loc':
        return _Loc(df)
    if attr == 'copy':
        return lambda I_, **kw: df.copy()
    if attr == 'reset_index':
        def reset_index(I_, inplace=False, drop=False, **kw):
            if inplace:
                _df_frame(I, df, 'reset_index')
            target = df if inplace else df.copy()
            n = target.n if target.n is not None else 0
            if not drop:
                newcols = {'index': target.index if target.index is not None else Arr(0, lambda i: None)}
                newcols.update(target.cols)
                target.cols = newcols
            target.index = Arr(n, lambda i: i)
            target.n = n
            return None if inplace else target
        return reset_index
    if attr == 'rename':
        def rename(I_, columns=None, inplace=False, **kw):
            if inplace:
                _df_frame(I, df, 'rename')
            target = df if inplace else df.copy()
            target.cols = {columns.get(k, k): v for k, v in target.cols.items()}
            return None if inplace else target
        return rename
    if attr == 'drop':
        def drop(I_, columns=None, inplace=False, **kw):
            if inplace:
                _df_frame(I, df, 'drop')
            target = df if inplace else df.copy()
            for c in columns:
                target.cols.pop(c, None)
            return None if inplace else target
        return drop
    if attr == 'set_index':
        def set_index(I_, name, inplace=False, **kw):
            if inplace:
                _df_frame(I, df, 'set_index')
            target = df if inplace else df.copy()
            target.index = target.cols.pop(name)
            return None if inplace else target
        return set_index
    if attr == 'iterrows':
        return lambda I_: SymRows(df)
    if attr == 'keys':
        return lambda I_: list(df.cols)
    if attr in df.cols:
        c = df.cols[attr]
        c.index = df.index
        return c
    raise Unsupported('DataFrame.' + attr)


class Columns:
    def __init__(self, df):
        self.df = df

    def contains(self, I, item):
        return item in self.df.cols


def obj_attr(I, o, attr):
    return _MISSING


def _columns_attr(I, cols, attr):
    if attr == 'get_indexer':
        def gi(I_, names):
            lst = list(cols.df.cols)
            return [lst.index(n) if n in lst else -1 for n in names]
        return gi
    raise Unsupported('columns.' + attr)


_old_value_attr = value_attr


def value_attr(I, o, attr):      # noqa: F811  (extends the dispatcher above)
    if isinstance(o, SelColumn):
        if attr == 'unique':
            return lambda I_: UniqueVals(o)
        raise Unsupported('selected column.' + attr)
    if isinstance(o, PickedByUnique):
        if attr == 'sum':
            def _sum(I_):
                t = z3.Int(sym.fresh_name('uniq!t'))
                arr, U = o.arr, o.uniq
                return sym.SUMS.prefix(lambda j: sym.ite(U.member(lift(j)), arr.f(lift(j)), 0.0), I.pc)(lift(arr.n))
            return _sum
        raise Unsupported('entries at distinct values.' + attr)
    if isinstance(o, RepoModule):
        if attr in I.repo.classes:
            return RepoClass(attr)
        raise Unsupported(f'module attribute {o.name}.{attr}')
    if isinstance(o, Columns):
        return _columns_attr(I, o, attr)
    if isinstance(o, SegColumn):
        if attr == 'astype':
            def _astype(I_, t, o=o):
                # int64 of a column whose entries are integers already: the same column
                if t not in ('int64', 'int', int):
                    raise Unsupported('astype of a loop-built column to ' + str(t))
                for a in o.items():
                    probe = a.f(z3.Int('probe!astype'))
                    if not (isinstance(probe, int) and not isinstance(probe, bool)) and not (is_z3(probe) and z3.is_int(probe)):
                        raise Unsupported('astype(int) of a column with non-integer entries')
                return o
            return _astype
        raise Unsupported('loop-built column.' + attr)
    if isinstance(o, RowCopy):
        if attr == 'copy':
            def _copy(I_, o=o):
                c = RowCopy(o.row)
                c.over = dict(o.over)
                return c
            return _copy
        raise Unsupported('row.' + attr)
    if isinstance(o, Row):
        if attr == 'copy':
            return lambda I_: RowCopy(o)
        if attr in o.df.cols:
            return o.df.cols[attr].f(o.k)
        raise Unsupported('row.' + attr)
    if isinstance(o, (_ILoc, _Loc)):
        raise Unsupported('iloc/loc attribute')
    return _old_value_attr(I, o, attr)


def df_setattr(I, df, attr, v):
    _df_frame(I, df, attr)
    if attr == 'index':
        v = _as_arr(I, v)
        if df.n is not None:
            I.require('index-length', cmpop('Eq', df.n, v.n), kind='shape')
        df.index = v
        df.n = v.n
        return
    raise Unsupported('DataFrame.%s = ' % attr)


def _df_frame(I, df, what):
    if id(df) in I.protect:
        I.require(f'frame:{I.protect[id(df)]}.{what}', z3.BoolVal(False), kind='frame')


def df_setitem(I, df, key, v):
    """mapping[col] = scalar | array"""
    _df_frame(I, df, f'[{key}]')
    if not isinstance(key, str):
        raise Unsupported('DataFrame store key')
    if isinstance(v, (list, tuple)):
        v = sym.arr_from_list(list(v))
    if isinstance(v, Mat):
        # column given as (n,1) block (np.vstack of np.tile(name,(T,1)))
        if concrete_int(v.nc) == 1:
            v = Arr(v.nr, lambda i, _f_m=v.f: _f_m(i, 0))
        else:
            raise Unsupported('2-D column')
    if isinstance(v, Arr):
        if df.n is None:
            df.n = v.n
            df.index = Arr(v.n, lambda i: i)
        else:
            I.require(f'column-length:{key}', cmpop('Eq', df.n, v.n), kind='shape')
        df.cols[key] = Arr(v.n, v.f)
        return
    if isinstance(v, Havoc):
        df.cols[key] = v
        return
    if df.n is None:
        # scalar into an empty frame: pandas creates an empty column
        df.n = 0
        df.index = sym.empty_arr()
    df.cols[key] = const_arr(df.n, v)


def df_getitem(I, df, key):
    if isinstance(key, str):
        if key not in df.cols:
            raise PyRaise('KeyError', key)
        c = df.cols[key]
        if isinstance(c, Arr):
            c.index = df.index
        return c
    if isinstance(key, Arr):
        # boolean row selection
        cnt, sel, rank = sym.COMP.get(key)
        out = DF()
        out.index = sym.compress(df.index, key)
        out.n = out.index.n
        for c, col in df.cols.items():
            out.cols[c] = sym.compress(col, key) if isinstance(col, Arr) else col
        return out
    raise Unsupported('DataFrame[...] form')


def mask_select(I, a, mask):
    if not (z3.is_true(z3.simplify(lift(a.n) == lift(mask.n)))):
        I.require('mask-length', cmpop('Eq', a.n, mask.n), kind='shape')
    out = sym.compress(a, mask)
    out.kind = a.kind
    return out


def obj_getitem(I, o, idx, what):
    if hasattr(o, 'getitem'):
        return o.getitem(I, idx, what)
    raise Unsupported('subscript of object ' + repr(o))


def matmul(I, a, b):
    raise Unsupported('@')


# ----------------------------------------------------------------------------- cvxpy (uninterpreted constructors)
class Cvx:
    """a cvxpy expression / constraint / problem as an uninterpreted constructor term: kind + arguments.
    The solver behind Problem.solve is external (A1); what is verified is which problem is handed to it."""

    def __init__(self, kind, *args, **kw):
        self.kind, self.args, self.kw = kind, args, kw

    def __repr__(self):
        return f"Cvx<{self.kind}>"


def cvx_binop(name, a, b):
    if name == 'MatMult':
        return Cvx('matmul', a, b)
    return Cvx(name, a, b)


def cvx_cmp(name, a, b):
    op = {'LtE': '<=', 'GtE': '>=', 'Eq': '=='}.get(name)
    if op is None:
        raise Unsupported('cvxpy comparison ' + name)
    return Cvx('constraint', op, a, b)


def _cvx_variable(I, shape, boolean=False, **kw):
    n = shape[0] if isinstance(shape, (tuple, list)) else shape
    return Cvx('Variable', n, boolean=boolean, uid=fresh_name('cvxvar'))


def _cvx_problem(I, objective, constraints=None):
    return Cvx('Problem', objective, list(constraints or []), uid=fresh_name('cvxprob'))


def _cvx_maximize(I, e):
    return Cvx('Maximize', e)


CVX = ModelNS('cvxpy', dict(Variable=_cvx_variable, Problem=_cvx_problem, Maximize=_cvx_maximize, __version__='1.6.0'))
MODULES['cvxpy'] = CVX


def cvx_attr(I, o, attr):
    if o.kind == 'Problem':
        if attr == 'solve':
            def solve(I_, solver=None, **kw):
                o.kw['solved_with'] = solver
                return None
            return solve
        if attr == 'status':
            if 'status' not in o.kw:
                o.kw['status'] = z3.Const(fresh_name('cvx_status'), sym.Str)
            return o.kw['status']
        if attr == 'value':
            if 'value' not in o.kw:
                o.kw['value'] = z3.Real(fresh_name('cvx_value'))
            return o.kw['value']
    if o.kind == 'Variable':
        if attr == 'value':
            if 'value' not in o.kw:
                f = z3.Function(fresh_name('cvx_x'), z3.IntSort(), z3.RealSort())
                o.kw['value'] = Arr(o.args[0], lambda i: f(lift(i)))
            return o.kw['value']
    if o.kind == 'constraint' and attr == 'dual_value':
        if 'dual' not in o.kw:
            o.kw['dual'] = Obj('dual_value', of=o)
        return o.kw['dual']
    if attr == 'T':
        return o
    raise Unsupported(f'cvxpy {o.kind}.{attr}')


_prev_value_attr = value_attr


def value_attr(I, o, attr):      # noqa: F811
    if isinstance(o, Cvx):
        return cvx_attr(I, o, attr)
    return _prev_value_attr(I, o, attr)
