"""pyvc.report -- verdict aggregation, known findings, replay files, evidence, exit codes."""
import hashlib
import json
import os
import re
import sys
import time

ROOT = os.path.dirname(os.path.dirname(os.path.abspath(__file__)))
REPO = os.environ.get('PYVC_REPO', '/repo')

ASSUMPTIONS = {
    'A1': 'A1 solver: cvxpy/ortools and their back ends are external; status optimal => x feasible and optimal within tolerance (assumed)',
    'A2': 'A2 library: one axiom per numpy/scipy.sparse/pandas primitive in pyvc/libmodel.py (assumed; differential-tested in selftest)',
    'A3': 'A3 arithmetic: floats as mathematical reals, ints as mathematical integers; no rounding/overflow/NaN propagation',
    'A4': 'A4 calendar: pd.date_range returns strictly increasing instants in [start,end]; tz-aware comparison acts on UTC instants',
    'A5': 'A5 language: subset semantics of pyvc.interp (evaluation order, aliasing via names/attributes); pyvc, z3 5.1, cvc5 trusted',
    'A6': 'A6 LP meta-theorems (same data => same optimum, sensitivity, stochastic bounds) stated, not mechanised',
}


def ident(rec):
    return f"{rec['name']}@{rec['function']}[{rec['case']}]"


def load_json(path, default):
    try:
        with open(path) as f:
            return json.load(f)
    except FileNotFoundError:
        return default


def known_findings():
    return load_json(os.path.join(ROOT, 'known_findings.json'), dict(findings=[], fixed=[]))


def match_finding(kf, prop, rec):
    for f in kf.get('findings', []):
        if f.get('obligation') != rec['name']:
            continue
        if f.get('function') and f['function'] != rec['function']:
            continue
        if f.get('case_contains') and not all(s in rec['case'] for s in f['case_contains']):
            continue
        if prop not in f.get('properties', [f.get('property')]):
            continue
        return f
    return None


def worst(vs):
    order = ['ERROR', 'REFUTED', 'UNDECIDED', 'DISCHARGED']
    for o in order:
        if o in vs:
            return o
    return 'DISCHARGED'


def sanitize(s):
    return re.sub(r'[^A-Za-z0-9_.=-]+', '_', s)[:150]


def write_replay(prop, rec, extra=None):
    d = os.path.join(ROOT, 'replays', prop)
    os.makedirs(d, exist_ok=True)
    path = os.path.join(d, sanitize(ident(rec)) + '.json')
    body = dict(property=prop, obligation=rec['name'], function=rec['function'], case=rec['case'], kind=rec.get('kind'),
                line=rec.get('line'), verdict=rec['verdict'], backend=rec.get('backend'), reproduced=rec.get('reproduced'),
                refute=rec.get('refute'), verifier_output=rec.get('note'), smt2=rec.get('smt2'),
                replay_cmd=f'./check --replay {os.path.relpath(path, ROOT)}')
    if extra:
        body.update(extra)
    with open(path, 'w') as f:
        json.dump(body, f, indent=1, default=str)
    return path


def replay_file(path):
    """re-run the native call of a replay file and print what the real code does"""
    sys.path.insert(0, ROOT)
    if REPO not in sys.path:
        sys.path.insert(0, REPO)
    body = json.load(open(path if os.path.isabs(path) else os.path.join(ROOT, path)))
    print('obligation', body['obligation'], 'function', body['function'], 'case', body['case'])
    if body.get('twin'):
        from bounded import registry as twins
        return twins.replay(body)
    r = body.get('refute') or {}
    if 'params' not in r:
        print('no concrete input in this replay file (no-failing-input-found); verifier output:')
        print(body.get('verifier_output'))
        return 0
    from pyvc import runner, refute, native
    reg = runner.load_contracts()
    c = next(x for x in reg if x.qualname == body['function'])
    case = next(cs for cs in c.cases() if __import__('pyvc.engine', fromlist=['case_id']).case_id(cs) == body['case'])
    P = native.Params(r['params'])
    nat = refute.run_native(c, case, P)
    print('native outcome:', nat['outcome'])
    for k, v in nat['posts'].items():
        print('  ', k, '->', v)
    failing = [k for k, v in nat['posts'].items() if v is False]
    print('FAILING' if failing else 'no failing predicate', failing)
    return 1 if failing else 0


def contract_notes(reg, qualname):
    """what the contract of a function assumes (harness preconditions / bounds, from the contract's own documentation) and which callees it
    replaces by a contract -- and whether that callee contract is itself discharged on the callee's body in this repository"""
    import sys as _sys
    out = {}
    cs = [c for c in reg if c.qualname == qualname]
    if not cs:
        return out
    under = {c.qualname for c in reg}
    docs, callees = [], {}
    for c in cs:
        d = (type(c).__doc__ or '') or (getattr(_sys.modules.get(type(c).__module__), '__doc__', '') or '')
        d = ' '.join(d.split())
        if d and d not in docs:
            docs.append(d)
        try:
            case0 = c.cases()[0]
            names = list(c.callees(case0, {}) or {})
        except Exception:
            names = []
        for n in names:
            base = n if (n in under or n + '.__init__' in under) else None
            callees[n] = 'contract discharged on the callee itself (under contract in this repository)' if base else \
                'assumed callee contract (stated in the contract file; the callee body is not verified against it here)'
    if docs:
        out['contract_and_assumptions'] = [d[:1500] for d in docs]
    if callees:
        out['callees'] = callees
    return out


def check_property(prop, tier, verbose=False):
    from pyvc import runner
    t0 = time.time()
    seed = int(os.environ.get('VERIF_SEED', '0'))
    kf = known_findings()
    expected = load_json(os.path.join(ROOT, 'expected.json'), {})
    exp = expected.get(prop, {})
    lines = []
    errors = []
    # ------------------------------------------------------------------ proofs on the real source
    reg, results = runner.run_proofs(prop, tier)
    recs = []
    functions = {}
    havocs = []
    twin = dict(evaluations=0, distinct_nontrivial=0, failures=[], samples=[],
                rule='run-time twin: random small real instances (grid <= 4-6 steps, values from a fixed menu incl. 0 and negatives, non-uniform steps, adversarial names) built with the real constructors, the real function called, the contract post evaluated on the real result; non-trivial = distinct parameter set whose call returned and satisfied at least one predicate',
                bound='sizes <= 6, VERIF_SEED-seeded sample per contract case (quick 40, thorough 400)')
    for res in results:
        c = reg[res['ci']]
        if res['error']:
            errors.append(f"{c.qualname} {res['case']}: {res['error']}")
            continue
        fn = functions.setdefault(c.qualname, dict(cases=0, paths=0, seconds=0.0, dropped=set(), outcomes=[]))
        fn['cases'] += 1
        fn['paths'] += res['info'].get('paths', 0)
        fn['seconds'] += res['seconds']
        fn['dropped'] |= set(res['info'].get('dropped', []))
        havocs.extend(f"{c.qualname}:{h}" for h in res['info'].get('havocs', []))
        for rec in res['obligations']:
            if runner.belongs(prop, rec['name']):
                recs.append(rec)
        b = res.get('bounded')
        if b:
            twin['evaluations'] += b['evaluations']
            twin['distinct_nontrivial'] += b['distinct_nontrivial']
            if b.get('sample') and len(twin['samples']) < 3:
                twin['samples'].append(dict(function=c.qualname, case=res['case'], **b['sample']))
            for f in b['failures']:
                if f.get('error'):
                    errors.append(f"run-time twin error in {f['function']} [{f['case']}]: {f['detail']}")
                elif runner.belongs(prop, f['name']):
                    twin['failures'].append(f)
    # ------------------------------------------------------------------ lemmas, static and bounded parts
    from pyvc import extras
    extra = extras.run(prop, tier, seed)
    recs.extend(extra.get('obligations', []))
    errors.extend(extra.get('errors', []))
    bounded = extra.get('bounded', None)
    if twin['evaluations']:
        if bounded is None:
            bounded = dict(evaluations=0, distinct_nontrivial=0, rule='', bound='', failures=[], samples=[], parts=[])
        bounded['evaluations'] += twin['evaluations']
        bounded['distinct_nontrivial'] += twin['distinct_nontrivial']
        bounded['rule'] = (bounded['rule'] + ' | ' if bounded['rule'] else '') + twin['rule']
        bounded['bound'] = (bounded['bound'] + ' | ' if bounded['bound'] else '') + twin['bound']
        bounded['failures'] = list(bounded['failures']) + twin['failures']
        bounded['samples'] = list(bounded.get('samples', [])) + twin['samples']
    # ------------------------------------------------------------------ aggregate per obligation identity
    groups = {}
    for rec in recs:
        groups.setdefault(ident(rec), []).append(rec)
    summary = {}
    violations = []
    knowns = []
    undecided = []
    not_claimed = []
    for key, rs in sorted(groups.items()):
        v = worst([r['verdict'] for r in rs])
        rep = next(r for r in rs if r['verdict'] == v)
        summary[key] = v
        e = exp.get(key)
        if v == 'DISCHARGED':
            continue
        if v == 'REFUTED' or (v == 'UNDECIDED' and e == 'DISCHARGED' and (rep.get('refute') or {}).get('status') == 'not-reproduced'):
            f = match_finding(kf, prop, rep)
            if f is not None:
                knowns.append((f, rep))
                continue
            rep = dict(rep)
            rep['verdict'] = 'REFUTED'
            violations.append(rep)
        elif v == 'UNDECIDED':
            if e in ('UNDECIDED', 'NOT-CLAIMED'):
                not_claimed.append(rep)
            else:
                undecided.append(rep)
        else:
            errors.append(f'{key}: {rep.get("note")}')
    # obligations of the baseline that were not generated at all (contract anchor lost, path vanished)
    # (only obligations named by a contract / lemma / scenario: safety obligations are named after the source expression they guard, and
    # a harmless edit of that expression must not turn into a checker error)
    missing = [k for k, v in exp.items() if v == 'DISCHARGED' and k not in summary and '.safe.' not in k]
    for k in missing:
        errors.append(f'expected obligation not generated: {k}')
    # bounded twin failures are failing inputs on the real code
    for b in (bounded or {}).get('failures', []):
        rec = dict(name=b['name'], function=b['function'], case=b['case'], verdict='REFUTED', kind='bounded', line=None,
                   note=b.get('detail'), reproduced=True, refute=dict(status='reproduced', params=b.get('params'), native=b.get('native')))
        f = match_finding(kf, prop, rec)
        if f is not None:
            knowns.append((f, rec))
        else:
            rec['twin'] = b.get('twin')
            violations.append(rec)
    # ------------------------------------------------------------------ output
    n_obl = sum(1 for k, v in summary.items() if exp.get(k) not in ('UNDECIDED', 'NOT-CLAIMED') or v == 'DISCHARGED')
    n_dis = sum(1 for k, v in summary.items() if v == 'DISCHARGED')
    for key, v in sorted(summary.items()):
        if verbose or v != 'DISCHARGED':
            rs = groups[key]
            print(f'OBLIGATION {key} {v} {rs[0].get("backend")} {sum(r.get("seconds", 0) for r in rs):.3f}s paths={len(rs)}')
    seen_kf = set()
    for f, rep in knowns:
        if f['id'] in seen_kf:
            continue
        seen_kf.add(f['id'])
        print(f"KNOWN-FINDING: property={prop} {f['id']} {f['what']}")
    exit_code = 0
    for rep in violations:
        path = write_replay(prop, rep, extra=dict(twin=rep.get('twin')) if rep.get('twin') else None)
        tail = '' if rep.get('reproduced') else ' no-failing-input-found'
        print(f'VIOLATION property={prop} replay={path}{tail}')
        exit_code = 1
    for rep in undecided:
        print(f'UNDECIDED {ident(rep)}: {rep.get("note")}')
    for e in errors:
        print('CHECKER-ERROR', e[:2000])
    if exit_code == 0 and errors:
        exit_code = 3
    if exit_code == 0 and undecided:
        exit_code = 2
    if exit_code == 0 and n_obl == 0 and not (bounded or {}).get('evaluations'):
        print('CHECKER-ERROR zero obligations generated')
        exit_code = 3
    wall = time.time() - t0
    # ------------------------------------------------------------------ evidence
    meta = extras.META.get(prop, {})
    level = meta.get('level', 'proof')
    samples = []
    for key, v in list(sorted(summary.items()))[:3]:
        samples.append(dict(obligation=key, verdict=v, backend=groups[key][0].get('backend')))
    smt_sample = extra.get('smt_sample')
    if smt_sample:
        samples.append(smt_sample)
    cov = dict(
        obligations=n_obl, discharged=n_dis,
        checker_cmd=f'./check {prop} --tier {tier}',
        trusted_base=[ASSUMPTIONS[a] for a in meta.get('assumptions', ['A2', 'A3', 'A5'])] + [
            'pyvc (own VC generator, /verif/pyvc) sha256:' + tree_hash(os.path.join(ROOT, 'pyvc'))[:16],
            'z3 5.1.0 (z3-solver wheel), cvc5 1.0.3 CLI'],
        functions_under_contract={k: dict(cases=v['cases'], paths=v['paths'], seconds=round(v['seconds'], 1),
                                          dropped=sorted(v['dropped']), **contract_notes(reg, k)) for k, v in functions.items()},
        per_obligation=[dict(obligation=k, verdict=v, paths=len(groups[k]), backend=groups[k][0].get('backend'),
                             seconds=round(sum(r.get('seconds', 0) for r in groups[k]), 3)) for k, v in sorted(summary.items())],
        not_decided=[dict(obligation=ident(r), reason=r.get('note')) for r in not_claimed],
        havocs=sorted(set(havocs))[:200],
        known_findings=[dict(id=f['id'], obligation=rep['name'], what=f['what']) for f, rep in knowns],
        samples=samples,
        solver_seconds=round(sum(r.get('seconds', 0) for r in recs), 2),
        explanation=meta.get('explanation', ''),
        repo_tree_sha256=tree_hash(os.path.join(REPO, 'eaopack'))[:16],
    )
    if bounded:
        cov['bounded'] = {k: v for k, v in bounded.items() if k != 'failures'}
        cov['evaluations'] = bounded.get('evaluations', 0)
        cov['distinct_nontrivial'] = bounded.get('distinct_nontrivial', 0)
        cov['rule'] = bounded.get('rule', '')
        if bounded.get('samples'):
            cov['samples'] = samples + bounded['samples'][:3]
    ev = dict(property_id=prop, tier=tier, seed=seed, level=level, coverage=cov,
              assumptions=[ASSUMPTIONS[a] for a in meta.get('assumptions', ['A2', 'A3', 'A5'])] + meta.get('extra_assumptions', []),
              wall_s=round(wall, 2), violations=len(violations), exit_code=exit_code)
    # (developer runs against a scratch copy of the repository -- PYVC_REPO -- must not overwrite the evidence of /repo itself)
    evdir = os.environ.get('PYVC_EVIDENCE_DIR') or (os.path.join(ROOT, 'evidence') if os.environ.get('PYVC_REPO', '/repo') == '/repo' else '/tmp/pyvc_evidence_scratch')
    os.makedirs(evdir, exist_ok=True)
    with open(os.path.join(evdir, prop + '.json'), 'w') as f:
        json.dump(ev, f, indent=1, default=str)
    print(f'{prop}: obligations={n_obl} discharged={n_dis} known={len(seen_kf)} violations={len(violations)} '
          f'undecided={len(undecided)} not-claimed={len(not_claimed)} errors={len(errors)} wall={wall:.1f}s exit={exit_code}')
    if os.environ.get('PYVC_UPDATE_BASELINE') == '1':
        expected[prop] = {k: ('DISCHARGED' if v == 'DISCHARGED' else ('KNOWN' if any(ident(rep) == k for _, rep in knowns) else
                              ('UNDECIDED' if v == 'UNDECIDED' else v))) for k, v in sorted(summary.items())}
        with open(os.path.join(ROOT, 'expected.json'), 'w') as f:
            json.dump(expected, f, indent=1, sort_keys=True)
        print('baseline updated for', prop)
    return exit_code


def tree_hash(d):
    h = hashlib.sha256()
    for dirpath, dirnames, filenames in sorted(os.walk(d)):
        dirnames[:] = sorted(x for x in dirnames if x != '__pycache__')
        for fn in sorted(filenames):
            if fn.endswith('.py'):
                h.update(fn.encode())
                h.update(open(os.path.join(dirpath, fn), 'rb').read())
    return h.hexdigest()
