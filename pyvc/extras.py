"""pyvc.extras -- per-property parts that are not function contracts: property-level lemmas over the
contracts (z3), syntactic obligations, and the bounded run-time twins.  Each provider returns obligation
records in the same format as the proof workers."""
import importlib
import os
import time
import traceback

META = {}        # property id -> dict(level, assumptions, explanation, extra_assumptions)
PROVIDERS = {}   # property id -> list of callables (tier, seed) -> dict(obligations=[...], bounded={...}, errors=[...])


def provider(*props):
    def deco(fn):
        for p in props:
            PROVIDERS.setdefault(p, []).append(fn)
        return fn
    return deco


def load():
    for m in ('lemmas.registry', 'bounded.registry', 'bounded.serial'):
        try:
            importlib.import_module(m)
        except ModuleNotFoundError as e:
            if e.name not in (m, m.split('.')[0]):
                raise


def run(prop, tier, seed):
    load()
    out = dict(obligations=[], errors=[], bounded=None)
    for fn in PROVIDERS.get(prop, []):
        try:
            r = fn(prop, tier, seed) or {}
        except Exception as e:
            out['errors'].append(f'{fn.__module__}.{fn.__name__}: {type(e).__name__}: {e}\n{traceback.format_exc(limit=6)}')
            continue
        out['obligations'].extend(r.get('obligations', []))
        out['errors'].extend(r.get('errors', []))
        if r.get('smt_sample') and 'smt_sample' not in out:
            out['smt_sample'] = r['smt_sample']
        b = r.get('bounded')
        if b:
            if out['bounded'] is None:
                out['bounded'] = dict(evaluations=0, distinct_nontrivial=0, rule='', bound='', failures=[], samples=[], parts=[])
            ob = out['bounded']
            ob['evaluations'] += b.get('evaluations', 0)
            ob['distinct_nontrivial'] += b.get('distinct_nontrivial', 0)
            ob['rule'] = (ob['rule'] + ' | ' if ob['rule'] else '') + b.get('rule', '')
            ob['bound'] = (ob['bound'] + ' | ' if ob['bound'] else '') + b.get('bound', '')
            ob['failures'].extend(b.get('failures', []))
            ob['samples'].extend(b.get('samples', [])[:2])
            ob['parts'].append({k: v for k, v in b.items() if k not in ('failures', 'samples')})
    return out


def lemma_record(name, verdict, backend='z3', seconds=0.0, note=None, function='lemma', case=''):
    return dict(name=name, function=function, case=case, path=0, verdict=verdict, backend=backend,
                seconds=round(seconds, 4), kind='lemma', line=None, note=note)


def prove(name, hyps, goal, timeout_ms=20000, function='lemma', case=''):
    """discharge one lemma with z3 (instantiation first, then the full query); record format"""
    import z3
    from . import quant
    t0 = time.time()
    try:
        res, stage, model = quant.check_qf_first(list(hyps) + [z3.Not(goal)], timeout_ms)
    except z3.Z3Exception as e:
        return lemma_record(name, 'ERROR', note=str(e), function=function, case=case)
    secs = time.time() - t0
    if res == 'unsat':
        return lemma_record(name, 'DISCHARGED', 'z3', secs, function=function, case=case)
    if res == 'sat':
        r = lemma_record(name, 'REFUTED', 'z3', secs, note='model: ' + str(model)[:1500], function=function, case=case)
        r['reproduced'] = False
        return r
    return lemma_record(name, 'UNDECIDED', 'z3', secs, note='solver: unknown (' + stage + ')', function=function, case=case)
