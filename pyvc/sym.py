"""pyvc.sym -- value domain of the VC generator.

Python values that are concrete stay concrete (int, float, str, None, list, tuple, dict).
Everything symbolic is one of

  z3 terms          scalars (Int / Real / Bool) and names (uninterpreted sort Str)
  Arr(n, f)         1-D array: length term + Python closure index-term -> element
  Mat(nr, nc, f)    2-D array / sparse matrix: closure (row, col) -> entry
  Obj               heap object: class tag + attribute dict
  Havoc             "not modelled": taints everything it touches

Arrays are closures in the generator (not SMT arrays): `np.hstack((a, b))[i]` unfolds to
`ite(i < len a, a[i], b[i - len a])`, so a pointwise postcondition is discharged quantifier-free
on a fresh index constant.  Finite sums are prefix-sum functions with their recursion axiom
(see `Sums`).

Assumed semantics (DESIGN.md A2/A3): numpy floats are mathematical reals, ints mathematical
integers; numpy broadcasting only in the forms that occur (scalar with array, 1-D with the
rows of 2-D).
"""
import itertools
import z3

_cnt = itertools.count()


def fresh_name(base):
    return f"{base}!{next(_cnt)}"


def reset_counter():
    global _cnt
    _cnt = itertools.count()


def save_state():
    """registries of one path (sums, selections, extra axioms, fresh-name counter): posts of a path are
    evaluated against the registries its execution filled"""
    global _cnt
    nxt = next(_cnt)
    _cnt = itertools.count(nxt)
    return dict(sums=SUMS, comp=COMP, extra=list(EXTRA), flat=dict(_FLAT), cnt=nxt)


def restore_state(st):
    global SUMS, COMP, _cnt
    SUMS, COMP = st['sums'], st['comp']
    EXTRA[:] = st['extra']
    _FLAT.clear()
    _FLAT.update(st['flat'])
    _cnt = itertools.count(st['cnt'] + 1000)     # leave room: names created by the post never clash with the path's
    del SCOPE[:]
    DEPTH[0] = 0


Str = z3.DeclareSort('Str')
_lits = {}


def strlit(s):
    """A Python string literal as a constant of sort Str (pairwise distinct, see lit_axioms)."""
    if s not in _lits:
        _lits[s] = z3.Const('lit:' + s, Str)
    return _lits[s]


def lit_axioms():
    ls = list(_lits.values())
    return [z3.Distinct(*ls)] if len(ls) > 1 else []


str_cat = z3.Function('str_cat', Str, Str, Str)
int_to_str = z3.Function('int_to_str', z3.IntSort(), Str)
# a + b for names: uninterpreted (only equality of results is ever used; no associativity, no injectivity)
str_concat = z3.Function('str_concat', Str, Str, Str)


def _is_name(v):
    return isinstance(v, str) or (is_z3(v) and v.sort() == Str)
NaNstr = None  # np.nan.astype(str) == 'nan'


class Unsupported(Exception):
    """Raised by the model when a construct is outside the modelled subset."""


class Havoc:
    """An unmodelled value.  Any operation on it yields a Havoc again."""

    def __init__(self, why, line=None):
        self.why = why
        self.line = line

    def __repr__(self):
        return f"Havoc({self.why}@{self.line})"


class PyRaise(Exception):
    """The interpreted code raises (an outcome of the function, not a checker error)."""

    def __init__(self, exc, msg=''):
        self.exc = exc
        self.msg = msg


def is_z3(v):
    return isinstance(v, z3.ExprRef)


def is_sym(v):
    return isinstance(v, (z3.ExprRef, Arr, Mat, Obj, Havoc, DF, Opt, TS, TD, SymMap))


def is_bool_like(v):
    return isinstance(v, bool) or (is_z3(v) and z3.is_bool(v))


def lift(v):
    """Python scalar -> z3 term."""
    if is_z3(v):
        return v
    if isinstance(v, bool):
        return z3.BoolVal(v)
    if isinstance(v, int):
        return z3.IntVal(v)
    if isinstance(v, float):
        if v != v:
            raise Unsupported('NaN as a number')
        if v in (float('inf'), float('-inf')):
            raise Unsupported('inf as a number')
        return z3.RealVal(repr(v))
    if isinstance(v, str):
        return strlit(v)
    raise Unsupported(f'lift {type(v).__name__}')


def to_real(v):
    v = lift(v)
    if z3.is_int(v):
        return z3.ToReal(v)
    if z3.is_bool(v):
        return z3.If(v, z3.RealVal(1), z3.RealVal(0))
    return v


def to_int(v):
    v = lift(v)
    if z3.is_bool(v):
        return z3.If(v, z3.IntVal(1), z3.IntVal(0))
    if z3.is_real(v):
        raise Unsupported('real used as int')
    return v


def to_bool(v):
    if isinstance(v, bool):
        return z3.BoolVal(v)
    if is_z3(v):
        if z3.is_bool(v):
            return v
        if z3.is_int(v) or z3.is_real(v):
            return v != 0
    if v is None:
        return z3.BoolVal(False)
    if isinstance(v, (int, float)):
        return z3.BoolVal(bool(v))
    if isinstance(v, (str, list, tuple, dict)):
        return z3.BoolVal(bool(v))
    raise Unsupported(f'truth value of {type(v).__name__}')


def simp(t):
    return z3.simplify(t) if is_z3(t) else t


def concrete_int(t):
    """Return the Python int if term t is (simplifies to) an integer numeral, else None."""
    if isinstance(t, bool):
        return int(t)
    if isinstance(t, int):
        return t
    if is_z3(t):
        s = z3.simplify(t)
        if z3.is_int_value(s):
            return s.as_long()
    return None


def concrete_bool(t):
    if isinstance(t, bool):
        return t
    if is_z3(t):
        s = z3.simplify(t)
        if z3.is_true(s):
            return True
        if z3.is_false(s):
            return False
    return None


def _num_coerce(a, b):
    a, b = lift(a), lift(b)
    if z3.is_bool(a):
        a = to_int(a)
    if z3.is_bool(b):
        b = to_int(b)
    if z3.is_real(a) and z3.is_int(b):
        b = z3.ToReal(b)
    elif z3.is_int(a) and z3.is_real(b):
        a = z3.ToReal(a)
    return a, b


class Opt:
    """A scalar that may be missing (NaN / None): null flag + value (value None if always null)."""

    def __init__(self, null, val):
        self.null, self.val = null, val

    def __repr__(self):
        return f"Opt({self.null}, {self.val})"


def null_parts(v):
    if v is None:
        return True, None
    if isinstance(v, Opt):
        return v.null, v.val
    return False, v


def mk_opt(null, val):
    cb = concrete_bool(null)
    if cb is True:
        return None
    if cb is False:
        return val
    return Opt(null, val)


def is_null(v):
    """pandas isnull / np.isnan of a scalar element."""
    n, _ = null_parts(v)
    return n


def ite(c, a, b):
    cb = concrete_bool(c)
    if cb is True:
        return a
    if cb is False:
        return b
    if isinstance(a, Havoc) or isinstance(b, Havoc):
        return a if isinstance(a, Havoc) else b
    if a is None and b is None:
        return None
    if a is None or b is None or isinstance(a, Opt) or isinstance(b, Opt):
        na, va = null_parts(a)
        nb, vb = null_parts(b)
        val = va if vb is None else (vb if va is None else ite(c, va, vb))
        return mk_opt(z3.If(to_bool(c), to_bool(na), to_bool(nb)), val)
    if isinstance(a, Obj) or isinstance(b, Obj):
        if a is b:
            return a
        raise Unsupported('ite over objects')
    if isinstance(a, (tuple, list)) and isinstance(b, (tuple, list)) and len(a) == len(b):
        return type(a)(ite(c, x, y) for x, y in zip(a, b))
    if isinstance(a, TS) and isinstance(b, TS):
        if a.tz is b.tz or (a.tz is not None and b.tz is not None and z3.is_true(z3.simplify(lift(a.tz) == lift(b.tz)))):
            return TS(z3.If(to_bool(c), lift(a.t), lift(b.t)), a.tz)
        raise Unsupported('ite over time stamps of different zones')
    if isinstance(a, TD) and isinstance(b, TD):
        da, db = _num_coerce(lift(a.d), lift(b.d))
        return TD(z3.If(to_bool(c), da, db))
    a, b = lift(a), lift(b)
    if a.sort() != b.sort():
        if a.sort() == Str or b.sort() == Str:
            raise Unsupported('ite str/num')
        a, b = _num_coerce(a, b)
    return z3.If(to_bool(c), a, b)


# ---------------------------------------------------------------- scalar operations
def s_add(a, b):
    if isinstance(a, str) or isinstance(b, str) or (is_z3(a) and a.sort() == Str) or (is_z3(b) and b.sort() == Str):
        if isinstance(a, str) and isinstance(b, str):
            return a + b
        return str_cat(lift(a), lift(b))
    a, b = _num_coerce(a, b)
    return a + b


def s_sub(a, b):
    a, b = _num_coerce(a, b)
    return a - b


def s_mul(a, b):
    if isinstance(a, str) and isinstance(b, int):
        return a * b
    if isinstance(b, str) and isinstance(a, int):
        return a * b
    a, b = _num_coerce(a, b)
    return a * b


def s_div(a, b):
    a, b = to_real(a), to_real(b)
    return a / b


def s_floordiv(a, b):
    a, b = lift(a), lift(b)
    if z3.is_int(a) and z3.is_int(b):
        return a / b      # z3 Int division = floor for positive divisor (assumed positive)
    raise Unsupported('floordiv on reals')


def s_mod(a, b):
    a, b = lift(a), lift(b)
    if z3.is_int(a) and z3.is_int(b):
        return a % b
    raise Unsupported('mod on reals')


def s_neg(a):
    a = lift(a)
    if z3.is_bool(a):
        a = to_int(a)
    return -a


def s_pow(a, b):
    if isinstance(b, int) and b == 2:
        return s_mul(a, a)
    return rpow(to_real(a), to_real(b))


rpow = z3.Function('rpow', z3.RealSort(), z3.RealSort(), z3.RealSort())


def rpow_axioms():
    """A3: real power for positive base:  a^b > 0,  1/a^b = a^(-b),  (a^b)^c = a^(b*c),  a^0 = 1"""
    a, b, c = z3.Reals('pw!a pw!b pw!c')
    return [z3.ForAll([a, b], z3.Implies(a > 0, z3.And(rpow(a, b) > 0, 1 / rpow(a, b) == rpow(a, -b))), patterns=[rpow(a, b)]),
            z3.ForAll([a, b, c], z3.Implies(a > 0, rpow(rpow(a, b), c) == rpow(a, b * c)), patterns=[rpow(rpow(a, b), c)]),
            z3.ForAll([a], z3.Implies(a > 0, rpow(a, 0) == 1), patterns=[rpow(a, 0)])]


def _is_strlike(a):
    return isinstance(a, str) or (is_z3(a) and a.sort() == Str)


def _cmp(op):
    def f(a, b):
        if a is None or b is None or isinstance(a, Opt) or isinstance(b, Opt):
            na, va = null_parts(a)
            nb, vb = null_parts(b)
            if op == '!=':
                return s_not(s_eq(a, b))
            # NaN compares False with everything (== and orderings)
            if va is None or vb is None:
                return False
            return z3.And(z3.Not(to_bool(na)), z3.Not(to_bool(nb)), to_bool(f(va, vb)))
        if _is_strlike(a) or _is_strlike(b):
            if isinstance(a, str) and isinstance(b, str):
                return PY_CMP_S[op](a, b)
            if not (_is_strlike(a) and _is_strlike(b)):
                if op == '==':
                    return False
                if op == '!=':
                    return True
                raise Unsupported('str/num order comparison')
            x, y = lift(a), lift(b)
            if op == '==':
                return x == y
            if op == '!=':
                return x != y
            raise Unsupported('string order comparison')
        if isinstance(a, Obj) or isinstance(b, Obj):
            if op == '==':
                return a is b
            if op == '!=':
                return a is not b
            raise Unsupported('object order comparison')
        x, y = lift(a), lift(b)
        if z3.is_bool(x) and z3.is_bool(y):
            if op == '==':
                return x == y
            if op == '!=':
                return x != y
        x, y = _num_coerce(x, y)
        return {'==': lambda: x == y, '!=': lambda: x != y, '<': lambda: x < y, '<=': lambda: x <= y,
                '>': lambda: x > y, '>=': lambda: x >= y}[op]()
    return f


import operator as _op0
PY_CMP_S = {'==': _op0.eq, '!=': _op0.ne, '<': _op0.lt, '<=': _op0.le, '>': _op0.gt, '>=': _op0.ge}


def _raise(m):
    raise Unsupported(m)


s_eq, s_ne, s_lt, s_le, s_gt, s_ge = (_cmp(o) for o in ('==', '!=', '<', '<=', '>', '>='))


def s_and(a, b):
    return z3.And(to_bool(a), to_bool(b))


def s_or(a, b):
    return z3.Or(to_bool(a), to_bool(b))


def s_xor(a, b):
    return z3.Xor(to_bool(a), to_bool(b))


def s_not(a):
    return z3.Not(to_bool(a))


def s_min(a, b):
    a, b = _num_coerce(a, b)
    return z3.If(a <= b, a, b)


def s_max(a, b):
    a, b = _num_coerce(a, b)
    return z3.If(a >= b, a, b)


def s_abs(a):
    a = lift(a)
    return z3.If(a >= 0, a, -a)


# ---------------------------------------------------------------- sums
EXTRA = []     # extra axioms registered during one path (inverse functions of scatter writes, ...)
SCOPE = []     # index variables currently in scope (symbolic loop variables of the interpreter, bound
               # variables of spec quantifiers): sums / selections whose body mentions them are parametric


def _scope_params(body):
    """scope variables occurring in term body, in scope order"""
    if not SCOPE:
        return []
    names = _consts_of(body)
    return [v for v in SCOPE if v.decl().name() in names]


def _consts_of(t):
    out = set()
    seen = set()
    stack = [t]
    while stack:
        x = stack.pop()
        i = x.get_id()
        if i in seen:
            continue
        seen.add(i)
        if z3.is_quantifier(x):
            stack.append(x.body())
        elif z3.is_app(x):
            if x.num_args() == 0 and x.decl().kind() == z3.Z3_OP_UNINTERPRETED:
                out.add(x.decl().name())
            stack.extend(x.children())
    return out


def _canon_params(n):
    return [z3.Int(f'par!{k}') for k in range(n)]


class Sums:
    """Finite sums with symbolic bounds as prefix-sum functions.

    For a summand closure g the registry returns P with the meaning P(h) = sum_{j<h} g(j); the recursion
    axioms  P(0) = 0,  forall h >= 0: P(h+1) = P(h) + g(h)  go into every query.  If the summand mentions
    index variables that are in scope (a symbolic loop variable, the bound variable of a spec quantifier)
    the function is parametric in them: P(k, h), with axioms quantified over k.  Two closures whose bodies
    simplify to the same term (after renaming the parameters canonically) share P, so `cumsum(a*dt)` in the
    code and the spec's `sum_{j<=r} a*dt[j]` are the same symbol; bodies that differ syntactically are
    unified only if z3 proves them pointwise equal.
    """

    def __init__(self):
        self.entries = []     # (canonical body over self.j and par!k, func, sort, nparams)
        self.zero_lemma_uses = 0
        self.ext_lemma_uses = 0
        self.level = 0
        self.j = z3.Int('sum!j')

    def prefix(self, g, ctx=None):
        # the summation variable is in scope while the summand is built (inner sums become parametric in it);
        # nested sums use distinct variables, the stored body is renamed to the canonical one afterwards
        jl = z3.Int(f'sum!j@{self.level}')
        self.level += 1
        SCOPE.append(jl)
        try:
            body = g(jl)
        finally:
            SCOPE.pop()
            self.level -= 1
        if is_z3(body):
            body = z3.substitute(body, (jl, self.j))
        if isinstance(body, Havoc):
            raise Unsupported('sum over havoc')
        body = lift(body)
        if z3.is_bool(body):
            body = to_int(body)
        body = z3.simplify(body)
        zero = z3.IntVal(0) if z3.is_int(body) else z3.RealVal(0)
        if body.eq(zero):
            return lambda h: zero
        if ctx:
            # lemma "pointwise-zero summand => zero sum" (generic induction, lemmas/sums.py): if the path
            # condition makes the summand vanish identically the sum is the constant 0
            s = z3.Solver()
            s.set('timeout', 400)
            s.add(*[c for c in ctx if not z3.is_quantifier(c)])
            s.add(body != zero)
            if s.check() == z3.unsat:
                self.zero_lemma_uses += 1
                return lambda h: zero
        params = _scope_params(body)
        canon = _canon_params(len(params))
        cbody = z3.simplify(z3.substitute(body, *zip(params, canon))) if params else body
        f = None
        for (b, fn, srt, np_) in self.entries:
            if srt == cbody.sort() and np_ == len(params) and b.eq(cbody):
                f = fn
                break
        if f is None:
            # extensionality (generic lemma, lemmas/sums.py): summands that agree for every index j >= 0 under the
            # path facts have the same prefix sums.  Checked with E-matching only (fast; failure = no sharing).
            for (b, fn, srt, np_) in self.entries:
                if srt == cbody.sort() and np_ == len(params):
                    s = z3.Solver()
                    s.set('timeout', 1500)
                    s.set('smt.mbqi', False)
                    if ctx:
                        s.add(*ctx)
                    s.add(*EXTRA)
                    s.add(self.j >= 0, b != cbody)
                    if s.check() == z3.unsat:
                        f = fn
                        self.ext_lemma_uses += 1
                        break
        if f is None:
            f = z3.Function(fresh_name('psum'), *([z3.IntSort()] * (len(params) + 1)), cbody.sort())
            self.entries.append((cbody, f, cbody.sort(), len(params)))
        if not params:
            return f
        return lambda h, f=f, params=tuple(params): f(*params, lift(h))

    def prefix_param(self, g, param, ctx=None):
        """prefix sum whose summand depends on the integer term `param` (e.g. the target cell of an
        accumulation loop): the term is abstracted into a parameter; returns h -> P(param, h)."""
        pv = z3.Int(fresh_name('sum!pv'))
        SCOPE.append(pv)
        try:
            P = self.prefix(lambda j: z3.substitute(lift(g(j)), (lift(param), pv)) if not is_z3(param) or True else g(j), ctx)
        finally:
            SCOPE.pop()
        return lambda h: z3.substitute(lift(P(h)), (pv, lift(param)))

    def axioms(self, used=None):
        out = []
        h = z3.Int('sum!h')
        for (b, f, srt, np_) in self.entries:
            if used is not None and f.name() not in used:
                continue
            zero = z3.IntVal(0) if srt == z3.IntSort() else z3.RealVal(0)
            ps = _canon_params(np_)
            if np_ == 0:
                out.append(f(0) == zero)
            else:
                out.append(z3.ForAll(ps, f(*ps, 0) == zero, patterns=[f(*ps, 0)]))
            out.append(z3.ForAll(ps + [h], z3.Implies(h >= 0, f(*ps, h + 1) == f(*ps, h) + z3.substitute(b, (self.j, h))),
                                 patterns=[f(*ps, h + 1)]))
            out.append(z3.ForAll(ps + [h], z3.Implies(h >= 1, f(*ps, h) == f(*ps, h - 1) + z3.substitute(b, (self.j, h - 1))),
                                 patterns=[f(*ps, h)]))
        return out


SUMS = Sums()


def reset_sums():
    global SUMS
    SUMS = Sums()
    return SUMS


# ---------------------------------------------------------------- arrays
DEPTH = [0]     # current symbolic-loop nesting depth of the interpreter (objects remember their birth depth)


class Arr:
    """1-D numpy array (also: pandas Index / Series values, Python list of symbolic length).

    n    length (z3 Int term or Python int)
    f    closure index -> element (z3 term, Python scalar, None, str, Obj ...)
    Optional structure kept for sum canonicalisation:
      view = (base Arr, offset)        slice view base[offset : offset+n]
      comp = (base Arr, mask Arr)      boolean-mask compress base[mask]
    """

    def __init__(self, n, f, view=None, comp=None, kind=None):
        self.n = n
        self.f = f
        self.view = view
        self.comp = comp
        self.kind = kind      # 'list' for Python lists, None for ndarray-like
        self.birth = DEPTH[0]
        self.index = None     # pandas Series: row labels

    def __repr__(self):
        return f"Arr(n={self.n})"

    def at(self, i):
        return self.f(i)

    def copy(self):
        f = self.f
        return Arr(self.n, f, view=self.view, comp=self.comp, kind=self.kind)

    def length(self):
        return self.n


_EMPTY_ELEM = z3.Real('empty!elem')


def empty_arr():
    """array of length 0: any (guarded) read yields an unconstrained element"""
    return Arr(0, lambda i: _EMPTY_ELEM)


def const_arr(n, v):
    return Arr(n, lambda i: v)


def arr_from_list(xs):
    xs = list(xs)
    if not xs:
        return empty_arr()

    def f(i):
        ci = concrete_int(i)
        if ci is not None:
            return xs[ci]
        out = xs[-1]
        for k in range(len(xs) - 2, -1, -1):
            out = ite(lift(i) == k, xs[k], out)
        return out
    return Arr(len(xs), f)


class Mat:
    """2-D array / scipy sparse matrix: shape (nr, nc), closure (r, c) -> entry."""

    def __init__(self, nr, nc, f, sparse=True):
        self.nr, self.nc, self.f = nr, nc, f
        self.sparse = sparse
        self.birth = DEPTH[0]

    def __repr__(self):
        return f"Mat({self.nr}x{self.nc})"

    def copy(self):
        return Mat(self.nr, self.nc, self.f, self.sparse)


class Obj:
    """Heap object.  cls = class name (for isinstance / type(x).__name__); attrs mutable."""
    _ids = itertools.count()

    def __init__(self, cls, **attrs):
        object.__setattr__(self, 'cls', cls)
        object.__setattr__(self, 'attrs', dict(attrs))
        object.__setattr__(self, 'oid', next(Obj._ids))
        object.__setattr__(self, 'user_data', False)

    def __repr__(self):
        return f"Obj<{self.cls}#{self.oid}>"

    def get(self, k):
        return self.attrs[k]

    def has(self, k):
        return k in self.attrs

    def set(self, k, v):
        self.attrs[k] = v


class SymMap:
    """Python dict whose keys may be symbolic names (asset / node names): an association list; a lookup is an
    ite chain over key equalities, the latest store for an equal key wins (Python dict semantics)."""

    def __init__(self, items=None):
        self.items = list(items or [])      # [(key, value)] in insertion order

    def copy(self):
        return SymMap(self.items)

    def keys(self):
        return [k for k, _ in self.items]

    def __len__(self):
        return len(self.items)

    def _eqs(self, key, resolve=None):
        out = []
        for k, _ in self.items:
            c = cmpop('Eq', key, k)
            cb = c if isinstance(c, bool) else concrete_bool(c)
            if cb is None and resolve is not None:
                cb = resolve(to_bool(c))
            out.append(cb if cb is not None else c)
        return out

    def has_key(self, key, resolve=None):
        conds = self._eqs(key, resolve)
        if any(c is True for c in conds):
            return True
        conds = [c for c in conds if c is not False]
        if not conds:
            return False
        return z3.simplify(z3.Or(*[to_bool(c) for c in conds]))

    def lookup(self, key, resolve=None):
        conds = self._eqs(key, resolve)
        out = None
        for (k, v), c in zip(self.items, conds):
            if c is False:
                continue
            if out is None or c is True:
                out = v
            else:
                out = ite(c, v, out)
        return out

    def store(self, key, value):
        self.items.append((key, value))


class DF:
    """pandas.DataFrame restricted to what EAO's `mapping` uses.

    n       number of rows (term); None while the frame is empty (no column yet)
    index   Arr of row labels
    cols    ordered dict  column name -> Arr (elements: terms, Python scalars, None = NaN)
    """

    def __init__(self, n=None, index=None, cols=None):
        self.n = n
        self.index = index
        self.cols = dict(cols) if cols else {}

    def copy(self):
        return DF(self.n, self.index.copy() if self.index is not None else None,
                  {k: v.copy() for k, v in self.cols.items()})

    def __repr__(self):
        return f"DF(n={self.n}, cols={list(self.cols)})"


class TS:
    """pandas.Timestamp / datetime: instant t (Int term: UTC nanoseconds, A4) and zone tag.
    tz is None (naive), or a zone token (Python str or Str term)."""

    def __init__(self, t, tz=None):
        self.t, self.tz = t, tz

    def __repr__(self):
        return f"TS({self.t}, tz={self.tz})"


class TD:
    """pandas.Timedelta: fixed duration d (Int term, nanoseconds)."""

    def __init__(self, d):
        self.d = d

    def __repr__(self):
        return f"TD({self.d})"


def _time_bin(name, a, b):
    if isinstance(a, TS) and isinstance(b, TS):
        if name == 'Sub':
            return TD(lift(a.t) - lift(b.t))
    if isinstance(a, TS) and isinstance(b, TD):
        if name == 'Add':
            return TS(lift(a.t) + lift(b.d), a.tz)
        if name == 'Sub':
            return TS(lift(a.t) - lift(b.d), a.tz)
    if isinstance(a, TD) and isinstance(b, TS) and name == 'Add':
        return TS(lift(b.t) + lift(a.d), b.tz)
    if isinstance(a, TD) and isinstance(b, TD):
        if name == 'Add':
            return TD(lift(a.d) + lift(b.d))
        if name == 'Sub':
            return TD(lift(a.d) - lift(b.d))
        if name == 'Div':
            return to_real(a.d) / to_real(b.d)
    if isinstance(a, TD) and not isinstance(b, (TS, TD)):
        if name == 'Mult':
            return TD(_td_scale(a.d, b))
        if name == 'Div':
            raise Unsupported('Timedelta / number')
    if isinstance(b, TD) and not isinstance(a, (TS, TD)) and name == 'Mult':
        return TD(_td_scale(b.d, a))
    raise Unsupported(f'time arithmetic {name} {type(a).__name__} {type(b).__name__}')


def _td_scale(d, k):
    """Timedelta * number: durations become real-valued when scaled by a real"""
    k, d = lift(k), lift(d)
    if z3.is_int(k) and z3.is_int(d):
        return d * k
    return to_real(d) * to_real(k)


def _time_cmp(name, a, b):
    if isinstance(a, TS) and isinstance(b, TS):
        return CMPOPS[name](a.t, b.t)
    if isinstance(a, TD) and isinstance(b, TD):
        return CMPOPS[name](a.d, b.d)
    raise Unsupported('time comparison with non-time')


# ---------------------------------------------------------------- elementwise machinery
def _shape_of(v):
    if isinstance(v, Arr):
        return 1
    if isinstance(v, Mat):
        return 2
    return 0


def ew(op, *args):
    """Apply scalar op elementwise with numpy broadcasting (scalar / 1-D / rows of 2-D)."""
    if any(isinstance(a, Havoc) for a in args):
        return next(a for a in args if isinstance(a, Havoc))
    rank = max(_shape_of(a) for a in args)
    if rank == 0:
        return op(*args)
    if rank == 1:
        arrs = [a for a in args if isinstance(a, Arr)]
        n = arrs[0].n
        if any(not _same_len(n, a.n) for a in arrs[1:]):
            return _ew_broadcast(op, args, arrs)
        # keep compress structure if all array operands are compressed by the same mask
        comps = [a.comp for a in args if isinstance(a, Arr)]
        comp = None
        if comps and all(c is not None for c in comps) and all(c[1] is comps[0][1] for c in comps):
            mask = comps[0][1]
            bases = [a.comp[0] if isinstance(a, Arr) else a for a in args]
            comp = (ew(op, *bases), mask)
        views = [a.view for a in args if isinstance(a, Arr)]
        view = None
        if comp is None and views and all(v is not None for v in views) and \
                all(simp(lift(v[1]) == lift(views[0][1])) is not None and z3.is_true(simp(lift(v[1]) == lift(views[0][1]))) for v in views):
            bases = [a.view[0] if isinstance(a, Arr) else a for a in args]
            try:
                view = (ew(op, *bases), views[0][1])
            except Unsupported:
                view = None
        fs = [(a.f if isinstance(a, Arr) else (lambda i, a=a: a)) for a in args]
        return Arr(n, lambda i: op(*[f(i) for f in fs]), comp=comp, view=view)
    m = next(a for a in args if isinstance(a, Mat))

    def cell(a):
        if isinstance(a, Mat):
            if concrete_int(a.nr) == 1 and concrete_int(m.nr) != 1:
                return lambda r, c, _f_a=a.f: _f_a(0, c)
            if concrete_int(a.nc) == 1 and concrete_int(m.nc) != 1:
                return lambda r, c, _f_a=a.f: _f_a(r, 0)
            return a.f
        if isinstance(a, Arr):
            return lambda r, c, _f_a=a.f: _f_a(c)
        return lambda r, c: a
    # result shape: broadcast (prefer the non-1 dims)
    nr, nc = m.nr, m.nc
    for a in args:
        if isinstance(a, Mat):
            if concrete_int(nr) == 1 and concrete_int(a.nr) != 1:
                nr = a.nr
            if concrete_int(nc) == 1 and concrete_int(a.nc) != 1:
                nc = a.nc
    cs = [cell(a) for a in args]
    return Mat(nr, nc, lambda r, c: op(*[g(r, c) for g in cs]), sparse=m.sparse)


def _same_len(a, b):
    if a is b:
        return True
    ca, cb = concrete_int(a), concrete_int(b)
    if ca is not None and cb is not None:
        return ca == cb
    return z3.is_true(z3.simplify(lift(a) == lift(b)))


def _ew_broadcast(op, args, arrs):
    """numpy broadcasting of 1-D operands whose lengths are not syntactically equal: an operand of length 1
    is stretched; the result length is the length of the operands that are not of length 1.  (Other length
    mismatches make numpy raise ValueError; that is not modelled -- lengths are then assumed equal.)"""
    n = arrs[0].n
    for a in arrs[1:]:
        n = ite(cmpop('Eq', n, 1), a.n, n)
    fs = []
    for a in args:
        if isinstance(a, Arr):
            fs.append(lambda i, _f=a.f, _n=a.n: _f(ite(cmpop('Eq', _n, 1), 0, i)))
        else:
            fs.append(lambda i, a=a: a)
    n = simp(n) if is_z3(n) else n
    return Arr(n, lambda i: op(*[f(i) for f in fs]))


BINOPS = {'Add': s_add, 'Sub': s_sub, 'Mult': s_mul, 'Div': s_div, 'FloorDiv': s_floordiv, 'Mod': s_mod,
          'Pow': s_pow, 'BitAnd': s_and, 'BitOr': s_or, 'BitXor': s_xor}
CMPOPS = {'Eq': s_eq, 'NotEq': s_ne, 'Lt': s_lt, 'LtE': s_le, 'Gt': s_gt, 'GtE': s_ge}


def _py_or_sym(pyop, symop):
    def f(*args):
        if all(not is_z3(a) and not isinstance(a, (Arr, Mat, Havoc, Obj, DF, Opt, TS, TD)) and a is not None for a in args):
            return pyop(*args)
        return symop(*args)
    return f


import operator as _op

PY_BIN = {'Add': _op.add, 'Sub': _op.sub, 'Mult': _op.mul, 'Div': _op.truediv, 'FloorDiv': _op.floordiv,
          'Mod': _op.mod, 'Pow': _op.pow, 'BitAnd': _op.and_, 'BitOr': _op.or_, 'BitXor': _op.xor}
PY_CMP = {'Eq': _op.eq, 'NotEq': _op.ne, 'Lt': _op.lt, 'LtE': _op.le, 'Gt': _op.gt, 'GtE': _op.ge}


def _exact_div(a, b):
    """quotient of two Python numbers under A3 (floats are mathematical reals): exact.  If the double quotient is
    not exact (e.g. 1./365.) the result is the rational number as a z3 numeral."""
    from fractions import Fraction
    fa, fb = Fraction(str(a)) if isinstance(a, float) else Fraction(a), Fraction(str(b)) if isinstance(b, float) else Fraction(b)
    q = fa / fb
    d = q.denominator
    if d & (d - 1) == 0 and d <= (1 << 30) and abs(q.numerator) < (1 << 52):
        return a / b
    return z3.Q(q.numerator, q.denominator)


def binop(name, a, b):
    if name == 'Div' and isinstance(a, (int, float)) and isinstance(b, (int, float)) and not isinstance(a, bool) \
            and not isinstance(b, bool) and b != 0 and a == a and b == b and abs(a) != float('inf') and abs(b) != float('inf'):
        return _exact_div(a, b)
    if isinstance(a, (list, tuple)) and isinstance(b, (list, tuple)) and name == 'Add':
        return a + b
    if isinstance(a, list) and isinstance(b, int) and name == 'Mult':
        return a * b
    if isinstance(a, (list, tuple)) and isinstance(b, Arr) or isinstance(b, (list, tuple)) and isinstance(a, Arr):
        a = arr_from_list(a) if isinstance(a, (list, tuple)) else a
        b = arr_from_list(b) if isinstance(b, (list, tuple)) else b
    base = _py_or_sym(PY_BIN[name], BINOPS[name])

    def f(x, y):
        if isinstance(x, (TS, TD)) or isinstance(y, (TS, TD)):
            return _time_bin(name, x, y)
        if name == 'Add' and _is_name(x) and _is_name(y) and (is_z3(x) or is_z3(y)):
            return str_concat(lift(x), lift(y))
        if x is None or y is None or isinstance(x, Opt) or isinstance(y, Opt):
            nx, vx = null_parts(x)
            ny, vy = null_parts(y)
            if vx is None or vy is None:
                return None
            return mk_opt(z3.Or(to_bool(nx), to_bool(ny)), base(vx, vy))
        return base(x, y)
    return ew(f, a, b)


def cmpop(name, a, b):
    base = _py_or_sym(PY_CMP[name], CMPOPS[name])

    def f(x, y):
        if isinstance(x, (TS, TD)) or isinstance(y, (TS, TD)):
            return _time_cmp(name, x, y)
        return base(x, y)
    return ew(f, a, b)


def neg(a):
    return ew(_py_or_sym(_op.neg, s_neg), a)


def invert(a):
    """~mask"""
    return ew(_py_or_sym(lambda x: (not x) if isinstance(x, bool) else ~x, s_not), a)


# ---------------------------------------------------------------- quantifiers over arrays
def forall_arr(a, pred=None):
    """all(a): z3 formula  forall i in [0,n): a[i]   (with a readable bound name)."""
    i = z3.Int(fresh_name('q'))
    if a.comp is not None and concrete_int(a.n) is None:
        # all(base[mask])  <=>  every selected position of the base satisfies it (sel is a bijection between
        # [0, cnt) and the positions where the mask holds: consequence of the selection axioms, A2)
        base, mask = a.comp
        body = base.f(i) if pred is None else pred(base.f(i))
        return z3.ForAll([i], z3.Implies(z3.And(i >= 0, i < lift(mask.n), to_bool(mask.f(i))), to_bool(body)))
    body = a.f(i) if pred is None else pred(a.f(i))
    cn = concrete_int(a.n)
    if cn is not None and cn <= 8:
        return z3.And(*[to_bool(a.f(k) if pred is None else pred(a.f(k))) for k in range(cn)]) if cn else z3.BoolVal(True)
    return z3.ForAll([i], z3.Implies(z3.And(i >= 0, i < lift(a.n)), to_bool(body)))


def exists_arr(a, pred=None):
    i = z3.Int(fresh_name('q'))
    if a.comp is not None and concrete_int(a.n) is None:
        base, mask = a.comp
        body = base.f(i) if pred is None else pred(base.f(i))
        return z3.Exists([i], z3.And(i >= 0, i < lift(mask.n), to_bool(mask.f(i)), to_bool(body)))
    body = a.f(i) if pred is None else pred(a.f(i))
    cn = concrete_int(a.n)
    if cn is not None and cn <= 8:
        return z3.Or(*[to_bool(a.f(k) if pred is None else pred(a.f(k))) for k in range(cn)]) if cn else z3.BoolVal(False)
    return z3.Exists([i], z3.And(i >= 0, i < lift(a.n), to_bool(body)))


# ---------------------------------------------------------------- compress (boolean-mask selection)
class Compress:
    """Registry of boolean masks and their selection functions (axioms of numpy boolean-mask indexing, A2).

    For a mask m of length n:  cnt = #{k<n : m[k]},  sel : [0,cnt) -> [0,n) strictly increasing with range
    {k : m[k]},  rank : its inverse on the selected positions.  Two selections with the same mask share
    them.  A mask that mentions index variables in scope (loop variable, spec quantifier) gets parametric
    functions cnt(k), sel(k, p), rank(k, j)."""

    def __init__(self):
        self.entries = []    # (canonical mask body over probe, canonical length, nparams, cntF, selF, rankF)
        self.by_obj = []     # (mask Arr object, (cnt, sel, rank) closures)
        self.probe = z3.Int('cmp!probe')

    def get(self, mask):
        for (m, triple) in self.by_obj:
            if m is mask:
                return triple
        body = z3.simplify(to_bool(mask.f(self.probe)))
        n = z3.simplify(lift(mask.n))
        params = _scope_params(z3.And(body, n >= 0))
        canon = _canon_params(len(params))
        cbody = z3.simplify(z3.substitute(body, *zip(params, canon))) if params else body
        cn = z3.simplify(z3.substitute(n, *zip(params, canon))) if params else n
        ent = None
        for e in self.entries:
            if e[2] == len(params) and e[0].eq(cbody) and e[1].eq(cn):
                ent = e
                break
        if ent is None:
            # semantic unification: same mask up to logical equivalence (e.g. a >= b  vs  b <= a)
            for e in self.entries:
                if e[2] == len(params) and e[1].eq(cn):
                    sv = z3.Solver()
                    sv.set('timeout', 500)
                    sv.add(e[0] != cbody)
                    if sv.check() == z3.unsat:
                        ent = e
                        break
        if ent is None:
            k = len(self.entries)
            ints = [z3.IntSort()] * len(params)
            cntF = z3.Function(fresh_name(f'cnt{k}'), *ints, z3.IntSort()) if params else z3.Int(fresh_name(f'cnt{k}'))
            selF = z3.Function(fresh_name(f'sel{k}'), *ints, z3.IntSort(), z3.IntSort())
            rankF = z3.Function(fresh_name(f'rank{k}'), *ints, z3.IntSort(), z3.IntSort())
            ent = (cbody, cn, len(params), cntF, selF, rankF)
            self.entries.append(ent)
        _, _, np_, cntF, selF, rankF = ent
        ps = tuple(params)
        cnt = cntF(*ps) if np_ else cntF
        sel = (lambda p_, ps=ps, selF=selF: selF(*ps, lift(p_)))
        rank = (lambda j_, ps=ps, rankF=rankF: rankF(*ps, lift(j_)))
        triple = (cnt, sel, rank)
        self.by_obj.append((mask, triple))
        return triple

    def axioms(self):
        out = []
        p, q, k = z3.Ints('cmp!p cmp!q cmp!k')
        for (cbody, n, np_, cntF, selF, rankF) in self.entries:
            ps = _canon_params(np_)
            cnt = cntF(*ps) if np_ else cntF
            sel = lambda x: selF(*ps, x)
            rank = lambda x: rankF(*ps, x)
            m = lambda x: z3.substitute(cbody, (self.probe, x))

            def Q(vs, body, pats):
                return z3.ForAll(ps + vs, body, patterns=pats) if (ps or vs) else body
            out.append(Q([], z3.And(cnt >= 0, cnt <= n), [cnt] if np_ else []))
            out.append(Q([p], z3.Implies(z3.And(p >= 0, p < cnt), z3.And(sel(p) >= 0, sel(p) < n, m(sel(p)), rank(sel(p)) == p)), [sel(p)]))
            out.append(Q([p, q], z3.Implies(z3.And(p >= 0, p < q, q < cnt), sel(p) < sel(q)), [z3.MultiPattern(sel(p), sel(q))]))
            out.append(Q([k], z3.Implies(z3.And(k >= 0, k < n, m(k)), z3.And(rank(k) >= 0, rank(k) < cnt, sel(rank(k)) == k)), [rank(k)]))
            # a mask that selects everything selects in place (A2; prefix lemma of the selection functions)
            out.append(Q([], z3.Implies(z3.ForAll([k], z3.Implies(z3.And(k >= 0, k < n), m(k))),
                                        z3.And(cnt == n, z3.ForAll([p], z3.Implies(z3.And(p >= 0, p < n), sel(p) == p), patterns=[sel(p)]))), []))
            if not np_:
                out.append(z3.Implies(cnt == 0, z3.ForAll([k], z3.Implies(z3.And(k >= 0, k < n), z3.Not(m(k))))))
                out.append(z3.Implies(cnt == n, z3.ForAll([k], z3.Implies(z3.And(k >= 0, k < n), sel(k) == k), patterns=[sel(k)])))
        return out


COMP = Compress()


def reset_compress():
    global COMP
    COMP = Compress()
    _FLAT.clear()
    return COMP


_FLAT = {}     # (id(mask1), id(mask2)) -> (mask1, mask2, combined mask over the base positions)


def compress(base, mask):
    """base[mask].  A selection from an already selected array by a mask that is itself defined on the selected
    positions (filter of a filter) is flattened to one selection from the original array by the conjunction
    of the two masks (A2: boolean-mask indexing preserves order, so the two are the same array)."""
    if isinstance(base, Arr) and base.comp is not None and mask.comp is not None and mask.comp[1] is base.comp[1]:
        base0, mask1 = base.comp
        G = mask.comp[0]
        key = (id(mask1), id(mask))
        ent = _FLAT.get(key)
        if ent is None:
            m1f, gf = mask1.f, G.f
            m12 = Arr(mask1.n, lambda p: z3.And(to_bool(m1f(p)), to_bool(gf(p))))
            _FLAT[key] = (mask1, mask, m12)
        else:
            m12 = ent[2]
        return compress(base0, m12)
    cnt, sel, rank = COMP.get(mask)
    if isinstance(base, Arr):
        return Arr(cnt, lambda p, _f_base=base.f: _f_base(sel(lift(p))), comp=(base, mask))
    raise Unsupported('compress of non-array')


def duplicated_first(idx, keep='first'):
    """pandas Index.duplicated(keep='first'|'last'): element q is True iff an earlier (later) element equals it.
    For an index that is a selection base[mask] the statement is made over the base positions (order
    isomorphism)."""
    first = (keep == 'first')
    if idx.comp is not None:
        base, mask = idx.comp
        bf, mf = base.f, mask.f
        nb = base.n

        def D(p):
            q = z3.Int(fresh_name('dup'))
            rng = z3.And(q >= 0, q < lift(p)) if first else z3.And(q > lift(p), q < lift(nb))
            return z3.Exists([q], z3.And(rng, to_bool(mf(q)), to_bool(cmpop('Eq', bf(q), bf(p)))))
        Darr = Arr(base.n, D)
        cnt, sel, rank = COMP.get(mask)
        return Arr(idx.n, lambda qq: D(sel(lift(qq))), comp=(Darr, mask))
    f = idx.f
    n0 = idx.n

    def D0(p):
        q = z3.Int(fresh_name('dup'))
        rng = z3.And(q >= 0, q < lift(p)) if first else z3.And(q > lift(p), q < lift(n0))
        return z3.Exists([q], z3.And(rng, to_bool(cmpop('Eq', f(q), f(p)))))
    return Arr(idx.n, D0)


# ---------------------------------------------------------------- sums over arrays
def arr_sum(a, ctx=None):
    """sum of all elements of a (Arr)."""
    cn = concrete_int(a.n)
    if cn is None:
        probe = a.f(z3.Int('sum!probe'))
        if isinstance(probe, Opt) and a.comp is None and a.view is None:
            # numpy: the sum of an array is NaN iff one of its elements is (A3: no infinities); the value part is the sum of the value parts
            q = z3.Int(fresh_name('q'))
            anynull = z3.Exists([q], z3.And(q >= 0, q < lift(a.n), to_bool(null_parts(a.f(q))[0])))
            P = SUMS.prefix(lambda j, _f=a.f: _numify(null_parts(_f(j))[1]), ctx)
            return mk_opt(anynull, P(lift(a.n)))
        if is_bool_like(probe) and not isinstance(probe, bool):
            # sum of a boolean array = number of True elements = size of the selection by that mask (A2)
            if a.comp is not None:
                base, mask = a.comp
                m = Arr(mask.n, lambda j, _b=base.f, _m=mask.f: z3.And(to_bool(_m(j)), to_bool(_b(j))))
            else:
                m = a
            return COMP.get(m)[0]
    if a.comp is not None:
        base, mask = a.comp
        P = SUMS.prefix(lambda j, _f_base=base.f, _f_mask=mask.f: ite(to_bool(_f_mask(j)), _numify(_f_base(j)), _zero_like(_f_base(j))), ctx)
        return P(lift(base.n))
    if a.view is not None:
        base, off = a.view
        P = SUMS.prefix(lambda j, _f_base=base.f: _numify(_f_base(j)), ctx)
        return P(lift(off) + lift(a.n)) - P(lift(off))
    if cn is not None and cn <= 6:
        tot = 0
        for k in range(cn):
            tot = binop('Add', tot, _numify(a.f(k)))
        return tot
    P = SUMS.prefix(lambda j, _f_a=a.f: _numify(_f_a(j)), ctx)
    return P(lift(a.n))


def _numify(v):
    if isinstance(v, bool):
        return int(v)
    if is_z3(v) and z3.is_bool(v):
        return to_int(v)
    return v


def _zero_like(v):
    v = lift(_numify(v))
    return z3.IntVal(0) if z3.is_int(v) else z3.RealVal(0)


def arr_cumsum(a, ctx=None):
    if a.view is not None:
        base, off = a.view
        P = SUMS.prefix(lambda j, _f_base=base.f: _numify(_f_base(j)), ctx)
        return Arr(a.n, lambda r: P(lift(off) + lift(r) + 1) - P(lift(off)))
    P = SUMS.prefix(lambda j, _f_a=a.f: _numify(_f_a(j)), ctx)
    return Arr(a.n, lambda r: P(lift(r) + 1))


def arr_slice(a, lo, hi):
    """a[lo:hi] with numpy semantics for None / negative bounds; clamps are *not* applied
    (index safety obligations are generated by the interpreter instead)."""
    n = a.n
    if lo is None:
        lo = 0
    if hi is None:
        hi = n
    clo, chi = concrete_int(lo), concrete_int(hi)
    if clo is not None and clo < 0:
        lo = binop('Add', n, clo)
    if chi is not None and chi < 0:
        hi = binop('Add', n, chi)
    ln = binop('Sub', hi, lo)
    if (clo is not None and clo < 0) or (chi is not None and chi < 0) or (clo is not None and clo > 0 and concrete_int(hi) is None):
        # a negative bound can undershoot on short arrays: numpy then yields an empty slice
        ln = ite(cmpop('GtE', ln, 0), ln, 0)
    ln = simp(ln) if is_z3(ln) else ln
    cl = concrete_int(ln)
    if cl is not None:
        ln = cl
    base, off = (a, lo)
    if a.view is not None:
        base, off = a.view[0], binop('Add', a.view[1], lo)
    return Arr(ln, lambda i, _f_a=a.f: _f_a(binop('Add', lo, i)), view=(base, off), kind=a.kind)


def arr_concat(parts):
    """np.hstack / np.concatenate / list + list for 1-D parts (scalars count as length 1)."""
    ps = []
    for p in parts:
        if isinstance(p, Havoc):
            return p
        if isinstance(p, Arr):
            ps.append(p)
        elif isinstance(p, (list, tuple)):
            ps.append(arr_from_list(p))
        elif isinstance(p, Mat):
            raise Unsupported('hstack of 2-D')
        else:
            ps.append(Arr(1, lambda i, p=p: p))
    ps = [p for p in ps if concrete_int(p.n) != 0]
    if not ps:
        return empty_arr()
    if len(ps) == 1:
        return ps[0].copy()
    offs = [0]
    for p in ps:
        offs.append(binop('Add', offs[-1], p.n))
    fs = [p.f for p in ps]      # snapshot: later in-place updates of the parts must not show through

    def f(i):
        ci = concrete_int(i)
        if ci is not None:
            # concrete position and concrete part lengths up to it: the part is known
            for k in range(len(ps)):
                lo_, hi_ = concrete_int(offs[k]), concrete_int(offs[k + 1])
                if lo_ is None or hi_ is None:
                    break
                if lo_ <= ci < hi_:
                    return fs[k](ci - lo_)
        out = fs[-1](binop('Sub', i, offs[-2]))
        for k in range(len(ps) - 2, -1, -1):
            bound = offs[k + 1]
            cb = concrete_int(bound)
            if ci is not None and cb is not None:
                if ci < cb:
                    out = fs[k](binop('Sub', i, offs[k]))
                continue
            out = ite(cmpop('Lt', i, bound), fs[k](binop('Sub', i, offs[k])), out)
        return out
    tot = offs[-1]
    tot = simp(tot) if is_z3(tot) else tot
    ct = concrete_int(tot)
    return Arr(ct if ct is not None else tot, f)


def mat_vstack(parts):
    ps = []
    for p in parts:
        if isinstance(p, Havoc):
            return p
        if isinstance(p, Arr):
            ps.append(Mat(1, p.n, lambda r, c, p=p, _f_p=p.f: _f_p(c), sparse=False))
        elif isinstance(p, Mat):
            ps.append(p)
        else:
            raise Unsupported('vstack of scalar')
    ps = [p for p in ps if concrete_int(p.nr) != 0] or ps[:1]
    if len(ps) == 1:
        return ps[0].copy()
    offs = [0]
    for p in ps:
        offs.append(binop('Add', offs[-1], p.nr))

    fs = [p.f for p in ps]

    def f(r, c):
        out = fs[-1](binop('Sub', r, offs[-2]), c)
        cr = concrete_int(r)
        for k in range(len(ps) - 2, -1, -1):
            cb = concrete_int(offs[k + 1])
            if cr is not None and cb is not None:
                if cr < cb:
                    out = fs[k](binop('Sub', r, offs[k]), c)
                continue
            out = ite(cmpop('Lt', r, offs[k + 1]), fs[k](binop('Sub', r, offs[k]), c), out)
        return out
    tot = offs[-1]
    tot = simp(tot) if is_z3(tot) else tot
    ct = concrete_int(tot)
    nc = next((p.nc for p in ps if concrete_int(p.nr) != 0), ps[0].nc)
    return Mat(ct if ct is not None else tot, nc, f, sparse=all(p.sparse for p in ps))


def mat_hstack(parts):
    ps = []
    for p in parts:
        if isinstance(p, Havoc):
            return p
        if isinstance(p, Mat):
            ps.append(p)
        else:
            raise Unsupported('sp.hstack of non-matrix')
    keep = [p for p in ps if concrete_int(p.nc) != 0] or ps[:1]
    ps = keep
    if len(ps) == 1:
        return ps[0].copy()
    offs = [0]
    for p in ps:
        offs.append(binop('Add', offs[-1], p.nc))

    fs = [p.f for p in ps]

    def f(r, c):
        out = fs[-1](r, binop('Sub', c, offs[-2]))
        cc = concrete_int(c)
        for k in range(len(ps) - 2, -1, -1):
            cb = concrete_int(offs[k + 1])
            if cc is not None and cb is not None:
                if cc < cb:
                    out = fs[k](r, binop('Sub', c, offs[k]))
                continue
            out = ite(cmpop('Lt', c, offs[k + 1]), fs[k](r, binop('Sub', c, offs[k])), out)
        return out
    tot = offs[-1]
    tot = simp(tot) if is_z3(tot) else tot
    ct = concrete_int(tot)
    return Mat(ps[0].nr, ct if ct is not None else tot, f, sparse=all(p.sparse for p in ps))


def flatten_c(m):
    """Mat.flatten('C') -> Arr (row-major).  Row count must be a small concrete int or the
    result is expressed with integer division."""
    if isinstance(m, Arr):
        return m.copy()
    nr = concrete_int(m.nr)
    if nr is not None and nr <= 4:
        rows = [Arr(m.nc, lambda c, r=r, _f_m=m.f: _f_m(r, c)) for r in range(nr)]
        return arr_concat(rows)
    return Arr(binop('Mult', m.nr, m.nc), lambda i, _f_m=m.f: _f_m(s_floordiv(i, m.nc), s_mod(i, m.nc)))
