"""helper process: bounded-expansion model search under a hard wall-clock limit (z3's own timeout is not always
honoured on non-linear problems).   usage: python -m pyvc.modelsearch <job.json>   -> prints params JSON or 'none'"""
import json
import sys

import z3


def main():
    job = json.load(open(sys.argv[1]))
    from pyvc import native
    fs = list(z3.parse_smt2_string(job['smt2']))
    s = z3.Solver()
    s.set('timeout', int(job.get('timeout_ms', 8000)))
    s.add(*fs)
    r = s.check()
    if r != z3.sat:
        print(json.dumps(dict(result=str(r))))
        return
    P = native.params_from_model(s.model(), [tuple(x) for x in job['schema']])
    print(json.dumps(dict(result='sat', params=P), default=str))


if __name__ == '__main__':
    main()
