"""pyvc.interp -- symbolic interpreter for the Python subset EAO's translator code is written in.

It reads the *real* source text of /repo (ast.parse on every run, no import of eaopack), selects
FunctionDef nodes by qualified name and interprets the whole body top to bottom over the value
domain of pyvc.sym.  Paths fork on symbolic conditions (re-execution with a decision list);
inside symbolic loops conditions that depend on the loop variable are if-converted instead.

What is dropped (reported per function in the evidence): docstrings, type hints, print(...),
pass, comments.  Every statement that uses a construct outside the modelled subset is
*havoced*: the names it assigns receive `Havoc` values; an obligation that needs a havoced
value is UNDECIDED, never a violation.
"""
import ast
import os
import z3

from . import sym
from .sym import (Arr, Mat, Obj, DF, Havoc, Opt, TS, TD, SymMap, Unsupported, PyRaise, lift, ite, binop, cmpop,
                  concrete_bool, concrete_int, to_bool, is_z3, fresh_name)


def _fatal(msg):
    e = Unsupported(msg)
    e.fatal = True
    return e


def _escapes(st):
    """'return' / 'break' / 'continue' if the statement contains one that leaves it (break / continue of a loop nested
    inside the statement, or the statement's own if it is a loop, do not), else None"""
    def walk(node, in_loop):
        for ch in ast.iter_child_nodes(node):
            if isinstance(ch, (ast.FunctionDef, ast.Lambda, ast.ClassDef)):
                continue
            if isinstance(ch, ast.Return):
                return 'return'
            if isinstance(ch, (ast.Break, ast.Continue)) and not in_loop:
                return type(ch).__name__.lower()
            r = walk(ch, in_loop or isinstance(ch, (ast.For, ast.While)))
            if r:
                return r
        return None
    if isinstance(st, ast.Return):
        return None          # handled by st_Return itself
    if isinstance(st, (ast.Break, ast.Continue)):
        return type(st).__name__.lower()
    return walk(st, isinstance(st, (ast.For, ast.While)))


def olist_like(v):
    """a Python list, or an opaque list (a callee's result whose elements the contract does not spell out)"""
    return isinstance(v, list) or (isinstance(v, Obj) and v.cls == 'list')


def olist_concat(a, b):
    """a + b for lists of which at least one is opaque: the sequence of the parts, in order (lists are values here:
    the result is a new object; an empty Python list contributes nothing)"""
    parts = []
    for v in (a, b):
        if isinstance(v, list):
            if v:
                parts.append(list(v))
        elif v.has('__parts__'):
            parts.extend(v.get('__parts__'))
        else:
            parts.append(v)
    if len(parts) == 1 and isinstance(parts[0], Obj):
        return parts[0]
    return Obj('list', __parts__=parts)


class LoopCheckEnd(Exception):
    """end of the path that checks one symbolic iteration of a loop against its invariant"""


class _Continue(Exception):
    pass


class _Break(Exception):
    pass


class _Return(Exception):
    def __init__(self, value):
        self.value = value


class CheckerError(Exception):
    """The generator itself failed (exit 3), e.g. a contract anchor is lost."""


# ------------------------------------------------------------------------------- source access
class Repo:
    """Parsed source of /repo/eaopack (re-read from the working tree on every run)."""

    def __init__(self, root):
        self.root = root
        self.modules = {}      # short module name -> (ast.Module, source text, path)
        for fn in sorted(os.listdir(os.path.join(root, 'eaopack'))):
            if fn.endswith('.py'):
                path = os.path.join(root, 'eaopack', fn)
                src = open(path).read()
                self.modules[fn[:-3]] = (ast.parse(src, filename=path), src, path)
        self.classes = {}      # class name -> (module, ClassDef)
        self.functions = {}    # (module, func name) -> FunctionDef
        for mod, (tree, _, _) in self.modules.items():
            for node in tree.body:
                if isinstance(node, ast.ClassDef):
                    self.classes[node.name] = (mod, node)
                elif isinstance(node, ast.FunctionDef):
                    self.functions[(mod, node.name)] = node

    def bases(self, cls):
        mod, node = self.classes[cls]
        out = []
        for b in node.bases:
            name = b.id if isinstance(b, ast.Name) else (b.attr if isinstance(b, ast.Attribute) else None)
            if name in self.classes:
                out.append(name)
        return out

    def mro(self, cls):
        if cls not in self.classes:
            return [cls]
        out = [cls]
        for b in self.bases(cls):
            for c in self.mro(b):
                if c not in out:
                    out.append(c)
        return out

    def is_subclass(self, cls, base):
        return base in self.mro(cls)

    def find_method(self, cls, name, after=None):
        """(defining class, module, FunctionDef) following the MRO; `after` = start after that class."""
        mro = self.mro(cls)
        if after is not None:
            mro = mro[mro.index(after) + 1:]
        for c in mro:
            if c not in self.classes:
                continue
            mod, node = self.classes[c]
            for it in node.body:
                if isinstance(it, ast.FunctionDef) and it.name == name:
                    return c, mod, it
        return None

    def get(self, qualname):
        """'module:Class.method' | 'module:func' | 'module:Class.method.<locals>.inner' -> (module, FunctionDef, class)"""
        mod, path = qualname.split(':')
        parts = path.split('.')
        tree = self.modules[mod][0]
        scope, cls = tree.body, None
        node = None
        for p in parts:
            if p == '<locals>':
                continue
            found = None
            for it in (scope if isinstance(scope, list) else []):
                if isinstance(it, (ast.ClassDef, ast.FunctionDef)) and it.name == p:
                    found = it
                    break
            if found is None and node is not None:
                for it in ast.walk(node):
                    if isinstance(it, ast.FunctionDef) and it.name == p and it is not node:
                        found = it
                        break
            if found is None:
                raise CheckerError(f'contract-anchor-lost: {qualname}')
            node = found
            if isinstance(found, ast.ClassDef):
                cls = found.name
            scope = found.body
        return mod, node, cls

    def source_segment(self, mod, node):
        return ast.get_source_segment(self.modules[mod][1], node)


# ------------------------------------------------------------------------------- callable wrappers
class TypeTok:
    def __init__(self, name, attrs=None):
        self.name = name
        self.attrs = attrs or {}

    def __repr__(self):
        return f"<type {self.name}>"


class RepoFunc:
    def __init__(self, mod, node, cls=None):
        self.mod, self.node, self.cls = mod, node, cls


class RepoClass:
    def __init__(self, name):
        self.name = name


class BoundMethod:
    def __init__(self, obj, defcls, mod, node):
        self.obj, self.defcls, self.mod, self.node = obj, defcls, mod, node


class SuperProxy:
    def __init__(self, obj, after):
        self.obj, self.after = obj, after


class SymRange:
    def __init__(self, lo, hi):
        self.lo, self.hi = lo, hi


class SymEnum:
    def __init__(self, arr, start=0):
        self.arr, self.start = arr, start


class SymZip:
    def __init__(self, arrs):
        self.arrs = arrs


class ModelNS:
    """A module model (numpy, pandas, ...): attribute lookup in a dict."""

    def __init__(self, name, d):
        self.name, self.d = name, d

    def get(self, attr):
        if attr not in self.d:
            raise Unsupported(f'{self.name}.{attr}')
        return self.d[attr]


class CompMap:
    """{key(k): value(k) for k in range(n)} with n symbolic.  A lookup yields value(p) for the LAST position p whose key
    equals the looked-up key (Python: later entries overwrite earlier ones); no such position: KeyError."""

    def __init__(self, n, keyf, valf):
        self.n, self.keyf, self.valf = n, keyf, valf

    def lookup(self, I, key, what):
        if isinstance(key, Havoc):
            return key
        p, q = z3.Int(fresh_name('cm_p')), z3.Int(fresh_name('cm_q'))
        has = z3.Bool(fresh_name('cm_has'))
        kq = self.keyf(q)
        ne = z3.Not(to_bool(cmpop('Eq', kq, key)))
        pats = [lift(kq)] if is_z3(lift(kq)) and not z3.is_var(lift(kq)) and not z3.is_int_value(lift(kq)) else []
        later = z3.ForAll([q], z3.Implies(z3.And(q > p, q < self.n), ne), patterns=pats) if pats else z3.ForAll([q], z3.Implies(z3.And(q > p, q < self.n), ne))
        none = z3.ForAll([q], z3.Implies(z3.And(q >= 0, q < self.n), ne), patterns=pats) if pats else z3.ForAll([q], z3.Implies(z3.And(q >= 0, q < self.n), ne))
        I.assume(z3.Implies(has, z3.And(p >= 0, p < self.n, to_bool(cmpop('Eq', self.keyf(p), key)), later)))
        I.assume(z3.Implies(z3.Not(has), none))
        I.require(f'key:{what}', has, kind='index')
        return self.valf(p)


# ------------------------------------------------------------------------------- accumulators
class Family:
    """Rows / items appended inside a symbolic loop: one item per assignment of `vars`
    satisfying `dom`.  item: closure over the loop variables captured in its terms."""

    def __init__(self, fid, vars_, dom, item, count):
        self.fid, self.vars, self.dom, self.item, self.count = fid, vars_, dom, item, count

    def __repr__(self):
        return f"Family({self.fid}, vars={self.vars})"


class Seg:
    """A sequence built by appends: list of segments, each an explicit value (Mat rows / Arr /
    str) or a Family.  kind in {'mat', 'arr', 'str', 'list'}."""

    def __init__(self, kind, segs, nc=None):
        self.kind, self.segs, self.nc = kind, list(segs), nc

    def copy(self):
        return Seg(self.kind, self.segs, self.nc)

    def __repr__(self):
        return f"Seg<{self.kind}>({self.segs})"

    def total(self):
        tot = 0
        for s in self.segs:
            tot = binop('Add', tot, seg_len(self.kind, s))
        return tot


def seg_len(kind, s):
    if isinstance(s, Family):
        return s.count
    if kind == 'mat':
        return s.nr
    if kind == 'arr':
        return s.n
    if kind == 'str':
        return s.n if isinstance(s, (RepStr, FnStr)) else len(s)
    if kind == 'list':
        return len(s)
    if kind == 'df':
        return s.n if s.n is not None else 0
    raise Unsupported('seg_len')


class FnStr:
    """an abstract string of n letters given by a function position -> letter (e.g. an asset's cType)"""

    def __init__(self, n, f):
        self.n, self.f = n, f

    def __repr__(self):
        return f"FnStr(n={self.n})"


class RepStr:
    """ch * n : a string of n copies of one letter (n symbolic)."""

    def __init__(self, ch, n):
        self.ch, self.n = ch, n

    def __repr__(self):
        return f"RepStr({self.ch!r}*{self.n})"


def as_seg(kind, v, nc=None):
    if isinstance(v, Seg):
        return v
    if kind == 'str' and isinstance(v, str) and v == '':
        return Seg('str', [])
    if kind == 'mat' and isinstance(v, Mat) and concrete_int(v.nr) == 0:
        return Seg('mat', [], nc=v.nc)
    if kind == 'arr' and isinstance(v, Arr) and concrete_int(v.n) == 0:
        return Seg('arr', [])
    return Seg(kind, [v], nc=(v.nc if isinstance(v, Mat) else nc))


class RowSel:
    """Python list of ROW POSITIONS of one frame, built by  L.extend(frame.index[mask_i].to_list())  inside a symbolic loop over i (the
    frame's index being positional: label = position).  It is kept as the predicate  q in L  <=>  exists i in the loop's domain with its
    guards: mask_i(q);  that every position occurs at most once (the masks of different iterations are disjoint) is an obligation emitted at
    the extend.  Consumers: len(L) == 0, iteration (each selected row once, any order: only commutative accumulation is accepted in the body),
    frame.loc[L, col].unique()."""

    def __init__(self):
        self.parts = []      # (vars, guard formula, mask closure q -> Bool)
        self.n = None        # number of rows of the frame
        self.birth = sym.DEPTH[0]

    def pred(self, q):
        alts = []
        for (vars_, guard, mask) in self.parts:
            ren = [(v, z3.Int(fresh_name('sel!' + v.decl().name()))) for v in vars_]
            body = z3.And(guard, to_bool(mask(q)))
            body = z3.substitute(body, *ren) if ren else body
            alts.append(z3.Exists([b for _, b in ren], body) if ren else body)
        return z3.Or(*alts) if alts else z3.BoolVal(False)


class LoopCtx:
    def __init__(self, var, dom, line):
        self.var, self.dom, self.line = var, dom, line
        self.skip = z3.BoolVal(False)     # iterations (or rests of iterations) skipped by continue/break
        self.pending = {}                 # id(obj) -> (obj, [write layers])
        self.families = 0


# ------------------------------------------------------------------------------- interpreter
class Interp:
    def __init__(self, repo, registry, decisions=(), model=None, feas_timeout=800):
        self.repo = repo
        self.registry = registry          # contracts for callees: key -> handler
        self.model = model                # libmodel namespaces
        self.dec = list(decisions)
        self.forkable = [True] * len(self.dec)
        self.used = 0
        self.pc = []
        self.assumptions = []
        self.guards = []
        self.loops = []
        self.safety = []
        self.havocs = []
        self.writes = []
        self.notes = []
        self.dropped = set()
        self.feas_timeout = feas_timeout
        self.depth = 0
        self.cur_line = None
        self.cur_mod = None
        self.inline_ok = set()
        self.extra_axioms = sym.EXTRA
        self.protect = {}                 # id(obj) -> label : user data objects (frame obligations)
        self.quiet = 0                    # > 0 while a lazily represented comprehension element is re-evaluated
        self.in_closure = 0               # > 0 while the element expression of a comprehension is evaluated at a generic position
        self.range_guards = []            # position ranges of comprehensions whose element is being probed (hypotheses of its obligations only)

    # ---------------------------------------------------------------- bookkeeping
    def assume(self, f):
        self.assumptions.append(f)
        self.pc.append(f)

    def guard_formula(self):
        gs = [to_bool(g) for g in self.guards] + list(self.range_guards)
        for lc in self.loops:
            gs.append(lc.dom)
            gs.append(z3.Not(lc.skip))
        return z3.And(*gs) if gs else z3.BoolVal(True)

    def require(self, name, f, kind='safety', line=None, snapshot=False):
        """Record an obligation generated during execution (index safety, callee precondition,
        frame).  It has to hold under the path condition at this point."""
        cb = concrete_bool(f)
        if cb is True or self.quiet:
            return
        # the obligation is checked under the complete path condition of the path it lies on (engine), so only
        # the local guards (if-converted branches, loop domains) are part of the formula itself
        rec = dict(name=name, formula=z3.Implies(self.guard_formula(), to_bool(f)),
                   kind=kind, line=line or self.cur_line, mod=self.cur_mod)
        if snapshot:
            # hypotheses = what is known at this point only (later assumptions, e.g. the invariant assumed after
            # the loop, must not help to prove the invariant's own entry condition)
            rec['hyps'] = list(self.pc)
        self.safety.append(rec)

    def havoc(self, why, line=None):
        h = Havoc(why, line or self.cur_line)
        self.havocs.append((line or self.cur_line, why))
        return h

    def feasible(self, extra):
        """quick over-approximation: quantified facts are instantiated once on the ground terms; an
        `unknown` counts as feasible (extra paths only add vacuous obligations)."""
        from . import quant
        try:
            ground, _ = quant.qf_instances(list(self.pc) + [extra], rounds=1, max_terms=24, max_inst=300)
        except z3.Z3Exception:
            return True
        s = z3.Solver()
        s.set('timeout', self.feas_timeout)
        s.add(*ground)
        return s.check() != z3.unsat

    def refutes(self, f, timeout_ms=3000):
        """True if path condition + library axioms (selection, literals, registered extras) refute f (E-matching only; `unknown` is False)"""
        try:
            sv = z3.Solver()
            sv.set('smt.mbqi', False)
            sv.set('timeout', timeout_ms)
            sv.add(*self.pc)
            sv.add(*sym.COMP.axioms())
            sv.add(*sym.lit_axioms())
            sv.add(*sym.EXTRA)
            sv.add(f)
            return sv.check() == z3.unsat
        except z3.Z3Exception:
            return False

    def resolve_bool(self, c):
        """True / False if the path condition decides c (quick check), else None"""
        try:
            if not self.feasible(z3.Not(c)):
                return True
            if not self.feasible(c):
                return False
        except z3.Z3Exception:
            pass
        return None

    def decide(self, cond):
        if isinstance(cond, Havoc):
            b = z3.Bool(fresh_name('havoc!cond'))
            self.havocs.append((self.cur_line, 'branch on ' + cond.why))
            cond = b
        cb = concrete_bool(cond) if not isinstance(cond, bool) else cond
        if cb is not None:
            return cb
        cond = to_bool(cond)
        if self.used < len(self.dec):
            d = self.dec[self.used]
        else:
            t_ok = self.feasible(cond)
            f_ok = self.feasible(z3.Not(cond))
            # a test the path condition already decides takes a slot of the decision list as well (not forkable):
            # a re-execution along a recorded prefix consumes one slot per undecided-at-first-sight test, so the
            # slots must be the same in the first run and in every replay
            if t_ok and not f_ok:
                self.dec.append(True)
                self.forkable.append(False)
                self.used += 1
                self.assume_silent(cond)
                return True
            if f_ok and not t_ok:
                self.dec.append(False)
                self.forkable.append(False)
                self.used += 1
                self.assume_silent(z3.Not(cond))
                return False
            d = True
            self.dec.append(d)
            self.forkable.append(True)
        self.used += 1
        self.pc.append(cond if d else z3.Not(cond))
        return d

    def assume_silent(self, f):
        # implied by the path condition; adding it keeps later simplifications cheap
        self.pc.append(f)

    # ---------------------------------------------------------------- entry
    def run_function(self, mod, node, args, kwargs, self_obj=None, defcls=None):
        env = self.bind(node, args, kwargs, self_obj)
        frame = dict(env=env, mod=mod, node=node, defcls=defcls, self_obj=self_obj)
        old_mod = self.cur_mod
        self.cur_mod = mod
        self.depth += 1
        if self.depth > 12:
            raise Unsupported('call depth')
        try:
            self.exec_block(node.body, frame)
            return None
        except _Return as r:
            return r.value
        finally:
            if self.depth == 1:
                self.last_env_values = list(env.values())      # locals of the function under contract (for its post)
                self.last_frame_env = dict(env)
                self.last_env = dict(env)
            self.depth -= 1
            self.cur_mod = old_mod

    def bind(self, node, args, kwargs, self_obj):
        a = node.args
        params = [x.arg for x in a.posonlyargs + a.args]
        env = {}
        pos = list(args)
        if self_obj is not None:
            pos = [self_obj] + pos
        defaults = a.defaults
        ndef = len(defaults)
        kwargs = dict(kwargs)
        for k, p in enumerate(params):
            if k < len(pos):
                env[p] = pos[k]
            elif p in kwargs:
                env[p] = kwargs.pop(p)
            else:
                di = k - (len(params) - ndef)
                if di < 0:
                    raise PyRaise('TypeError', f'missing argument {p}')
                env[p] = self.eval_const_default(defaults[di])
        if len(pos) > len(params):
            if a.vararg is None:
                raise PyRaise('TypeError', 'too many positional arguments')
            env[a.vararg.arg] = tuple(pos[len(params):])
        elif a.vararg is not None:
            env[a.vararg.arg] = ()
        for k, p in enumerate(a.kwonlyargs):
            if p.arg in kwargs:
                env[p.arg] = kwargs.pop(p.arg)
            elif a.kw_defaults[k] is not None:
                env[p.arg] = self.eval_const_default(a.kw_defaults[k])
            else:
                raise PyRaise('TypeError', f'missing kw argument {p.arg}')
        if kwargs:
            if a.kwarg is None:
                raise PyRaise('TypeError', f'unexpected keyword {sorted(kwargs)}')
            env[a.kwarg.arg] = kwargs
        elif a.kwarg is not None:
            env[a.kwarg.arg] = {}
        return env

    def eval_const_default(self, node):
        try:
            return ast.literal_eval(node)
        except Exception:
            pass
        if isinstance(node, ast.List) and not node.elts:
            return []
        return self.havoc('default ' + ast.unparse(node)[:30], getattr(node, 'lineno', None))

    # ---------------------------------------------------------------- statements
    def exec_block(self, body, frame):
        for st in body:
            self.exec_stmt(st, frame)

    def exec_stmt(self, st, frame):
        self.cur_line = getattr(st, 'lineno', self.cur_line)
        m = getattr(self, 'st_' + type(st).__name__, None)
        if m is None:
            self.havoc_stmt(st, frame, 'stmt ' + type(st).__name__)
            return
        try:
            m(st, frame)
        except Unsupported as e:
            if getattr(e, 'fatal', False):
                raise
            self.havoc_stmt(st, frame, str(e))
        except (_Continue, _Break, _Return, PyRaise, CheckerError):
            raise
        except (AttributeError, TypeError, KeyError, IndexError, ValueError, z3.Z3Exception, RecursionError) as e:
            # a construct the model does not cover surfaced as a Python error inside the generator: treated like
            # any other unmodelled statement (havoc = sound over-approximation), and listed in the evidence
            if os.environ.get('PYVC_DEBUG_INTERNAL'):
                import traceback
                traceback.print_exc()
            self.havoc_stmt(st, frame, f'internal {type(e).__name__}: {str(e)[:80]}')

    MUTATING_METHODS = {'append', 'extend', 'insert', 'pop', 'remove', 'clear', 'update', 'setdefault', 'sort', 'reverse', 'fill', 'resize',
                        'put', 'itemset', 'popitem', 'add', 'discard'}

    def havoc_stmt(self, st, frame, why):
        line = getattr(st, 'lineno', None)
        # an unmodelled statement may only be replaced by "its targets are unknown" if it cannot leave the block:
        # a return (or a break / continue of an enclosing loop) inside it would be lost
        esc = _escapes(st)
        if esc:
            e = Unsupported(f'unmodelled statement contains {esc}: {why}')
            e.fatal = True
            raise e
        names = set()
        for n in ast.walk(st):
            if isinstance(n, ast.Call) and isinstance(n.func, ast.Attribute):
                base = n.func.value
                inplace = any(k.arg == 'inplace' and isinstance(k.value, ast.Constant) and k.value.value is True for k in n.keywords)
                if (n.func.attr in self.MUTATING_METHODS or inplace):
                    # a mutating call inside the unmodelled statement: its receiver is unknown afterwards
                    if isinstance(base, ast.Name):
                        names.add(base.id)
                    elif isinstance(base, (ast.Attribute, ast.Subscript)):
                        self._havoc_store(base, frame, why, line)
        for n in ast.walk(st):
            if isinstance(n, ast.Name) and isinstance(n.ctx, ast.Store):
                names.add(n.id)
            elif isinstance(n, (ast.Assign, ast.AugAssign, ast.AnnAssign)):
                tgts = n.targets if isinstance(n, ast.Assign) else [n.target]
                for t in tgts:
                    for sub in ast.walk(t):
                        if isinstance(sub, (ast.Attribute, ast.Subscript)):
                            base = sub
                            while isinstance(base, (ast.Attribute, ast.Subscript)):
                                if isinstance(base.value, ast.Name):
                                    # a store through base.value.id : havoc the attribute / object
                                    self._havoc_store(base, frame, why, line)
                                    break
                                base = base.value
        for nm in names:
            frame['env'][nm] = Havoc(why, line)
        self.havocs.append((line, why))
        # the states after an unmodelled statement are over-approximated (e.g. a dropped `assert` lets states through that the code
        # refuses): a counter-model on this path proves nothing by itself -- taint the path, so that `sat` is UNDECIDED unless a
        # native replay reproduces it (proofs are unaffected: a fresh Boolean assumed true helps nothing)
        self.pc.append(z3.Bool(fresh_name('havoc!unmodelled_statement')))

    def _havoc_store(self, tgt, frame, why, line):
        try:
            if isinstance(tgt, ast.Attribute):
                o = self.ev(tgt.value, frame)
                if isinstance(o, Obj):
                    o.set(tgt.attr, Havoc(why, line))
            elif isinstance(tgt, ast.Subscript):
                # the container becomes unknown
                if isinstance(tgt.value, ast.Name):
                    frame['env'][tgt.value.id] = Havoc(why, line)
                elif isinstance(tgt.value, ast.Attribute):
                    o = self.ev(tgt.value.value, frame)
                    if isinstance(o, Obj):
                        o.set(tgt.value.attr, Havoc(why, line))
        except (Unsupported, PyRaise):
            pass

    def st_Expr(self, st, frame):
        v = st.value
        if isinstance(v, ast.Constant):
            self.dropped.add('docstring')
            return
        if isinstance(v, ast.Call) and isinstance(v.func, ast.Name) and v.func.id == 'print':
            self.dropped.add('print')
            return
        if isinstance(v, ast.Call) and isinstance(v.func, ast.Attribute) and v.func.attr == 'extend' and len(v.args) == 1 and not v.keywords \
                and isinstance(v.func.value, ast.Name) and isinstance(frame['env'].get(v.func.value.id), RowSel):
            self.rowsel_extend(frame['env'][v.func.value.id], self.ev(v.args[0], frame))
            return
        if isinstance(v, ast.Call) and isinstance(v.func, ast.Attribute) and v.func.attr == 'append' and len(v.args) == 1 and not v.keywords:
            tgt = v.func.value
            cur = self.ev(tgt, frame)
            if isinstance(cur, Seg) and cur.kind == 'list' and isinstance(tgt, (ast.Name, ast.Attribute)):
                # list.append on a loop-carried list: accumulator append (the list is rebound to the extended sequence)
                item = self.ev(v.args[0], frame)
                self.assign(_as_store(tgt), self.seg_append(cur, [item]), frame)
                return
            if isinstance(cur, Seg) and cur.kind == 'list' and isinstance(tgt, ast.Subscript):
                # container[literal key].append(x) on a list that symbolic_for turned into an accumulator: the entry is rebound
                box = self.ev(tgt.value, frame)
                key = self.ev_index(tgt.slice, frame)
                if isinstance(box, (dict, SymMap)) and isinstance(key, str):
                    item = self.ev(v.args[0], frame)
                    new = self.seg_append(cur, [item])
                    if isinstance(box, SymMap):
                        box.store(key, new)
                    else:
                        box[key] = new
                    return
        self.ev(v, frame)

    def rowsel_extend(self, rs, item):
        """L.extend(frame.index[mask].to_list()) inside a symbolic loop, see RowSel"""
        if not isinstance(item, Arr) or item.comp is None:
            raise Unsupported('list.extend in a symbolic loop with something else than a mask selection of row labels')
        base, mask = item.comp
        probe = z3.Int('probe!rowsel')
        if not (is_z3(lift(base.f(probe))) and lift(base.f(probe)).eq(probe)):
            raise Unsupported('list.extend of labels of a frame whose index is not positional')
        inner = self.loops[getattr(rs, 'birth', 0):]
        if len(inner) != 1:
            raise Unsupported('list.extend: the list must be built by exactly one symbolic loop')
        v = inner[0].var
        guard = self.guard_formula()
        mf = mask.f
        n = mask.n
        if rs.parts and not (z3.is_true(z3.simplify(lift(rs.n) == lift(n)))):
            raise Unsupported('list.extend with selections from frames of different length')
        rs.n = n
        # disjointness of the selections of two different iterations (each row position at most once in the list)
        v2 = z3.Int(fresh_name('sel!other'))
        q = z3.Int(fresh_name('sel!q'))
        g2 = z3.substitute(guard, (v, v2))
        m1, m2 = to_bool(mf(q)), z3.substitute(to_bool(mf(q)), (v, v2))
        self.require('list-of-rows:selections of different iterations are disjoint', z3.ForAll([v2, q], z3.Implies(
            z3.And(guard, g2, v != v2, q >= 0, q < lift(n)), z3.Not(z3.And(m1, m2)))), kind='shape')
        if rs.parts:
            raise Unsupported('several extend statements for one list of rows')
        rs.parts.append(([v], guard, mf))

    def st_Pass(self, st, frame):
        pass

    def st_Import(self, st, frame):
        from .libmodel import MODULES
        for al in st.names:
            m = MODULES.get(al.name)
            if m is None:
                raise Unsupported('import ' + al.name)
            frame['env'][al.asname or al.name.split('.')[0]] = m

    def st_ImportFrom(self, st, frame):
        pass

    def st_Delete(self, st, frame):
        for t in st.targets:
            if isinstance(t, ast.Name):
                frame['env'].pop(t.id, None)

    def st_Return(self, st, frame):
        if st.value is None:
            raise _Return(None)
        try:
            v = self.ev(st.value, frame)
        except Unsupported as e:
            if getattr(e, 'fatal', False):
                raise
            # the function returns here whatever the unmodelled expression evaluates to
            v = self.havoc('return value: ' + str(e))
        raise _Return(v)

    def st_Raise(self, st, frame):
        name = 'Exception'
        if st.exc is not None:
            e = st.exc
            if isinstance(e, ast.Call):
                e = e.func
            name = ast.unparse(e)
        if self.loops or self.guards:
            raise Unsupported('raise inside symbolic loop')
        raise PyRaise(name, ast.unparse(st)[:80])

    def st_Assert(self, st, frame):
        c = self.ev(st.test, frame)
        if isinstance(c, Arr):
            raise Unsupported('assert on array')
        if self.loops or self.guards:
            cb = concrete_bool(c) if not isinstance(c, Havoc) else None
            if cb is True:
                return
            raise Unsupported('assert inside symbolic loop')
        if not self.decide(self.truth(c)):
            raise PyRaise('AssertionError', ast.unparse(st.test)[:80])

    def st_Continue(self, st, frame):
        raise _Continue()

    def st_Break(self, st, frame):
        raise _Break()

    def truth(self, v):
        if isinstance(v, Havoc):
            return v
        if isinstance(v, bool):
            return v
        if is_z3(v):
            return to_bool(v)
        if v is None:
            return False
        if isinstance(v, (int, float, str, list, tuple, dict, set)):
            return bool(v)
        if isinstance(v, Arr):
            cn = concrete_int(v.n)
            if v.kind == 'list':
                return cmpop('Gt', v.n, 0)
            if cn == 1:
                return self.truth(v.f(0))
            raise Unsupported('truth value of an array')
        if isinstance(v, Obj):
            return True
        if isinstance(v, Opt):
            raise Unsupported('truth of optional')
        if isinstance(v, Seg):
            return cmpop('Gt', v.total(), 0)
        raise Unsupported(f'truth of {type(v).__name__}')

    def depends_on_loop(self, t):
        if not self.loops or not is_z3(t):
            return False
        names = {lc.var.decl().name() for lc in self.loops}
        return bool(names & free_consts(t))

    def st_If(self, st, frame):
        if _empty_or_concat_idiom(st):
            # `if len(X)==0: X = Y.copy() else: X = pd.concat([X, Y.copy()])`  ==  X = pd.concat([X, Y.copy()])
            # (pandas: concatenating an empty frame with Y yields Y; axiom pd_concat in libmodel)
            self.dropped.add('idiom empty-or-concat normalised to concat')
            self.exec_block(st.orelse, frame)
            return
        c = self.truth(self.ev(st.test, frame))
        if not st.orelse and all(_is_dropped(x) for x in st.body):
            self.dropped.add('if-with-print-only-body')
            return
        cb = c if isinstance(c, bool) else (None if isinstance(c, Havoc) else concrete_bool(c))
        if cb is not None:
            self.exec_block(st.body if cb else st.orelse, frame)
            return
        if self.loops and (isinstance(c, Havoc) or self.depends_on_loop(c) or self.guards):
            if isinstance(c, Havoc):
                raise Unsupported('havoc condition inside symbolic loop')
            self.if_convert(st, c, frame)
            return
        if self.guards:
            self.if_convert(st, c, frame)
            return
        self.exec_block(st.body if self.decide(c) else st.orelse, frame)

    def _reachable_objs(self, env):
        out = {}
        for v in env.values():
            if isinstance(v, Obj) and id(v) not in out:
                out[id(v)] = v
                for w in v.attrs.values():
                    if isinstance(w, Obj) and id(w) not in out:
                        out[id(w)] = w
        return list(out.values())

    def _merge_seg(self, c, before, s1, s2, line):
        """two branches appended to the same accumulator: families keep their guards; if each branch appended
        exactly one family over the same loop variables they are merged into one family (item = ite)"""
        nb = len(before.segs) if isinstance(before, Seg) else 0
        if not (isinstance(s1, Seg) and isinstance(s2, Seg)) or s1.kind != s2.kind:
            raise Unsupported('accumulator merged with non-accumulator')
        new1, new2 = s1.segs[nb:], s2.segs[nb:]
        out = s1.copy()
        out.segs = list(s1.segs[:nb])
        if len(new1) == 1 and len(new2) == 1 and isinstance(new1[0], Family) and isinstance(new2[0], Family) and \
                [v.decl().name() for v in new1[0].vars] == [v.decl().name() for v in new2[0].vars]:
            f1, f2 = new1[0], new2[0]
            outer = z3.And(*[to_bool(g) for g in self.guards]) if self.guards else z3.BoolVal(True)
            ldoms = []
            for lc in self.loops:
                ldoms += [lc.dom, z3.Not(lc.skip)]
            dom = z3.And(outer, *ldoms) if ldoms else outer
            i1, i2 = f1.item, f2.item
            if isinstance(i1, Arr) and isinstance(i2, Arr):
                item = Arr(i1.n, lambda i, a=i1.f, b_=i2.f: ite(c, a(i), b_(i)))
            elif isinstance(i1, Mat) and isinstance(i2, Mat):
                item = Mat(i1.nr, i1.nc, lambda r, cc, a=i1.f, b_=i2.f: ite(c, a(r, cc), b_(r, cc)))
            elif isinstance(i1, str) and isinstance(i2, str) and len(i1) == 1 and len(i2) == 1:
                item = FnStr(1, lambda i, a=i1, b_=i2: ite(c, a, b_))
            else:
                raise Unsupported('merge of appended items')
            cnt = z3.Int(fresh_name('famcnt'))
            out.segs.append(Family(f1.fid, f1.vars, dom, item, cnt))
            return out
        out.segs.extend(new1)
        out.segs.extend(new2)
        return out

    def if_convert(self, st, c, frame):
        """Execute both branches under guards and merge what they assigned (names and object attributes)."""
        env = frame['env']
        before = dict(env)
        objs = self._reachable_objs(env)
        attrs_before = {id(o): dict(o.attrs) for o in objs}
        results = []
        lc = self.loops[-1] if self.loops else None
        for cond, body in ((c, st.body), (z3.Not(c), st.orelse)):
            env.clear()
            env.update(before)
            for o in objs:
                o.attrs.clear()
                o.attrs.update(attrs_before[id(o)])
            self.guards.append(cond)
            skipped = False
            try:
                self.exec_block(body, frame)
            except _Continue:
                skipped = True
            except _Break:
                if lc is None:
                    raise Unsupported('break outside loop under guard')
                self.check_break_monotone(lc)
                skipped = True
            finally:
                self.guards.pop()
            results.append((cond, dict(env), skipped, {id(o): dict(o.attrs) for o in objs}))
        env.clear()
        env.update(before)
        (c1, e1, s1, a1), (c2, e2, s2, a2) = results

        def merge(v0, v1, v2):
            if v1 is v2:
                return v1
            if s1 and not s2:
                return v2 if v2 is not _MISSING else v0
            if s2 and not s1:
                return v1 if v1 is not _MISSING else v0
            if isinstance(v1, Seg) or isinstance(v2, Seg):
                if v1 is _MISSING or v2 is _MISSING:
                    return Havoc('accumulator defined on one branch only', st.lineno)
                try:
                    return self._merge_seg(c, v0 if isinstance(v0, Seg) else Seg(v1.kind, []), v1, v2, st.lineno)
                except Unsupported as e:
                    return Havoc('merge: ' + str(e), st.lineno)
            if v1 is _MISSING or v2 is _MISSING:
                return Havoc('defined on one branch only', st.lineno)
            try:
                return ite(c, v1, v2)
            except Unsupported as e:
                return Havoc('merge: ' + str(e), st.lineno)
        for nm in set(e1) | set(e2):
            r = merge(before.get(nm, _MISSING), e1.get(nm, _MISSING), e2.get(nm, _MISSING))
            if r is _MISSING:
                env.pop(nm, None)
            else:
                env[nm] = r
        for o in objs:
            b0, x1, x2 = attrs_before[id(o)], a1[id(o)], a2[id(o)]
            o.attrs.clear()
            o.attrs.update(b0)
            for k in set(x1) | set(x2):
                r = merge(b0.get(k, _MISSING), x1.get(k, _MISSING), x2.get(k, _MISSING))
                if r is _MISSING:
                    o.attrs.pop(k, None)
                else:
                    o.attrs[k] = r
        if lc is not None and (s1 or s2):
            g = z3.And(*[to_bool(x) for x in self.guards]) if self.guards else z3.BoolVal(True)
            add = []
            if s1:
                add.append(z3.And(g, c1))
            if s2:
                add.append(z3.And(g, c2))
            lc.skip = z3.Or(lc.skip, *add)

    def check_break_monotone(self, lc):
        """`break` under a guard g(k) inside a symbolic loop is treated like `continue`; that is
        exact iff g is monotone: g(k) -> g(k+1).  Checked with z3; otherwise unsupported."""
        g = z3.And(*[to_bool(x) for x in self.guards])
        k = lc.var
        s = z3.Solver()
        s.set('timeout', 2000)
        s.add(*self.pc)
        s.add(g, z3.Not(z3.substitute(g, (k, k + 1))))
        if s.check() != z3.unsat:
            raise Unsupported('break with non-monotone guard in symbolic loop')

    # -- assignment
    def st_Assign(self, st, frame):
        v = self.ev(st.value, frame)
        for t in st.targets:
            self.assign(t, v, frame)

    def st_AnnAssign(self, st, frame):
        if st.value is not None:
            self.assign(st.target, self.ev(st.value, frame), frame)

    def st_AugAssign(self, st, frame):
        opname = type(st.op).__name__
        t = st.target
        cur = self.ev(_as_load(t), frame)
        rhs = self.ev(st.value, frame)
        # accumulators: X += 'L' * k  /  X += list
        if isinstance(cur, Seg) and opname == 'Add':
            self.assign(t, self.seg_append(cur, rhs), frame)
            return
        if isinstance(cur, (Arr, Mat)) and not (isinstance(cur, Arr) and cur.kind == 'list'):
            # numpy in-place semantics: the object is mutated
            new = binop(opname, cur, rhs)
            if isinstance(new, Havoc):
                self.assign(t, new, frame)
                return
            if isinstance(t, ast.Subscript):
                self.assign(t, new, frame)
                return
            self.mutate_whole(cur, new)
            return
        if isinstance(cur, list) and opname == 'Add' and isinstance(rhs, (list, tuple)):
            cur.extend(rhs)
            return
        if opname == 'Add' and olist_like(cur) and olist_like(rhs) and (isinstance(cur, Obj) or isinstance(rhs, Obj)):
            self.assign(t, olist_concat(cur, rhs), frame)
            return
        if isinstance(t, ast.Subscript) and self.loops and opname in ('Add', 'Sub'):
            base = self.ev(t.value, frame)
            if type(base).__name__ == '_Loc':
                # frame.loc[row label, column] += g  inside a symbolic loop: commutative accumulation into the column's cell
                idx = self.ev_index(t.slice, frame)
                cell = base.cell(self, idx)
                if cell is not None:
                    self.accumulate(cell[0], cell[1], rhs if opname == 'Add' else sym.neg(rhs))
                    return
        if isinstance(t, ast.Subscript) and self.loops:
            # arr[key] += g   inside a symbolic loop: commutative accumulation
            base = self.ev(t.value, frame)
            if isinstance(base, Arr) and opname in ('Add', 'Sub'):
                idx = self.ev_index(t.slice, frame)
                if not isinstance(idx, (Arr, slice, tuple)):
                    self.accumulate(base, idx, rhs if opname == 'Add' else sym.neg(rhs))
                    return
            if isinstance(base, Mat) and opname in ('Add', 'Sub') and self._outer(base):
                idx = self.ev_index(t.slice, frame)
                if isinstance(idx, tuple) and len(idx) == 2 and not any(isinstance(x, (Arr, slice, tuple)) for x in idx):
                    self.accumulate_mat(base, idx[0], idx[1], rhs if opname == 'Add' else sym.neg(rhs))
                    return
        new = self.apply_bin(opname, cur, rhs)
        self.assign(t, new, frame)

    def apply_bin(self, opname, a, b):
        if isinstance(a, Havoc):
            return a
        if isinstance(b, Havoc):
            return b
        if isinstance(a, Seg) or isinstance(b, Seg):
            if opname == 'Add' and isinstance(a, Seg):
                return self.seg_append(a, b)
            if opname == 'Add' and isinstance(b, Seg) and isinstance(a, str) and a == '':
                return b
            if opname == 'Add' and isinstance(b, Seg) and b.kind == 'str' and isinstance(a, (str, RepStr, FnStr)):
                return self.seg_append(as_seg('str', a), b)
            raise Unsupported('operation on accumulator')
        if opname == 'Add' and sym._is_name(a) and sym._is_name(b) and (is_z3(a) or is_z3(b)):
            return binop(opname, a, b)          # concatenation of names
        if isinstance(a, (RepStr, FnStr)) or isinstance(b, (RepStr, FnStr)) or (isinstance(a, str) and is_z3(b)) or (isinstance(b, str) and is_z3(a) and b and opname == 'Mult'):
            return self.str_op(opname, a, b)
        if isinstance(a, str) and isinstance(b, (Seg, RepStr, FnStr)):
            return self.str_op(opname, a, b)
        return binop(opname, a, b)

    def str_op(self, opname, a, b):
        if opname == 'Mult':
            s, k = (a, b) if isinstance(a, str) else (b, a)
            if isinstance(s, str) and len(s) == 1:
                return RepStr(s, k)
            # (string of symbolic length) * literal count: that many copies one after the other
            s2, k2 = (a, b) if isinstance(a, (FnStr, RepStr, Seg)) else (b, a)
            ck = concrete_int(k2) if not isinstance(k2, (FnStr, RepStr, Seg, str)) else None
            if isinstance(s2, (FnStr, RepStr)) and ck is not None and 0 <= ck <= 16:
                out = Seg('str', [])
                for _ in range(ck):
                    out.segs.append(s2)
                return out
            raise Unsupported('str * symbolic')
        if opname == 'Add':
            return self.seg_append(as_seg('str', a), b)
        raise Unsupported('string op ' + opname)

    def mutate_whole(self, obj, new):
        if self.loops and getattr(obj, 'birth', 0) < len(self.loops):
            raise Unsupported('whole-array update of an outer array inside a symbolic loop')
        g = self.guard_formula() if self.guards else None
        if isinstance(obj, Arr):
            oldf, newf = obj.f, new.f
            obj.f = newf if g is None else (lambda i: ite(g, newf(i), oldf(i)))
            obj.view = obj.comp = None
        else:
            oldf, newf = obj.f, new.f
            obj.f = newf if g is None else (lambda r, c: ite(g, newf(r, c), oldf(r, c)))

    def assign(self, t, v, frame):
        env = frame['env']
        if isinstance(t, ast.Name):
            if self.guards and not self.loops:
                pass
            env[t.id] = v
            return
        if isinstance(t, (ast.Tuple, ast.List)):
            vals = self.unpack(v, len(t.elts))
            for tt, vv in zip(t.elts, vals):
                self.assign(tt, vv, frame)
            return
        if isinstance(t, ast.Attribute):
            o = self.ev(t.value, frame)
            if isinstance(o, Havoc):
                return
            if isinstance(o, Obj):
                self.log_write(o, t.attr)
                o.set(t.attr, v)
                return
            if isinstance(o, DF):
                self.model.df_setattr(self, o, t.attr, v)
                return
            if isinstance(o, (Arr,)) and t.attr == 'name':
                return
            raise Unsupported(f'attribute store on {type(o).__name__}.{t.attr}')
        if isinstance(t, ast.Subscript):
            o = self.ev(t.value, frame)
            if isinstance(o, Havoc):
                return
            idx = self.ev_index(t.slice, frame)
            self.store_subscript(o, idx, v, t)
            return
        raise Unsupported('assignment target ' + type(t).__name__)

    def log_write(self, o, what):
        self.writes.append((o, what, self.cur_line, self.cur_mod))
        if id(o) in self.protect:
            self.require(f'frame:{self.protect[id(o)]}.{what}', z3.BoolVal(False), kind='frame')

    def unpack(self, v, n):
        if isinstance(v, (tuple, list)):
            if len(v) != n:
                raise PyRaise('ValueError', 'unpack')
            return list(v)
        if isinstance(v, Havoc):
            return [v] * n
        if isinstance(v, Arr) and concrete_int(v.n) == n:
            return [v.f(k) for k in range(n)]
        raise Unsupported('unpack ' + type(v).__name__)

    # -- subscripts
    def ev_index(self, node, frame):
        if isinstance(node, ast.Slice):
            return slice(self.ev(node.lower, frame) if node.lower is not None else None,
                         self.ev(node.upper, frame) if node.upper is not None else None,
                         self.ev(node.step, frame) if node.step is not None else None)
        if isinstance(node, ast.Tuple):
            return tuple(self.ev_index(e, frame) for e in node.elts)
        return self.ev(node, frame)

    def bounds_check(self, idx, n, what):
        """index safety obligation  -n <= idx < n ; returns the normalised (non-negative) index."""
        ci, cn = concrete_int(idx), concrete_int(n)
        if ci is not None:
            if cn is not None:
                if not (-cn <= ci < cn):
                    self.require(f'index:{what}', z3.BoolVal(False), kind='index')
                return ci if ci >= 0 else cn + ci
            if ci >= 0:
                self.require(f'index:{what}', lift(n) > ci, kind='index')
                return ci
            self.require(f'index:{what}', lift(n) >= -ci, kind='index')
            return binop('Add', n, ci)
        idx = lift(idx)
        if z3.is_bool(idx):
            idx = sym.to_int(idx)
        self.require(f'index:{what}', z3.And(idx >= 0, idx < lift(n)), kind='index')
        return idx

    def load_subscript(self, o, idx, node):
        what = ast.unparse(node)[:60]
        if isinstance(o, Havoc):
            return o
        if isinstance(idx, Havoc):
            return idx
        if type(idx).__name__ == 'UniqueVals' and isinstance(o, Arr):
            # arr[distinct values]: every value must be a valid position
            from .libmodel import PickedByUnique
            v = z3.Int(fresh_name('uniq!v'))
            self.require(f'index:{what}', z3.ForAll([v], z3.Implies(idx.member(v), z3.And(v >= 0, v < lift(o.n)))), kind='index')
            return PickedByUnique(o, idx)
        if isinstance(o, SymMap):
            hk = o.has_key(idx, self.resolve_bool)
            if hk is False:
                raise PyRaise('KeyError', repr(idx))
            if hk is not True:
                self.require(f'key:{what}', hk, kind='index')
            return o.lookup(idx, self.resolve_bool)
        if isinstance(o, CompMap):
            return o.lookup(self, idx, what)
        if isinstance(o, dict):
            if is_z3(idx) or isinstance(idx, (Arr, Obj)):
                raise Unsupported('symbolic dict key')
            if idx not in o:
                raise PyRaise('KeyError', repr(idx))
            return o[idx]
        if isinstance(o, (list, tuple, str)):
            if isinstance(idx, slice):
                lo, hi = idx.start, idx.stop
                if (lo is None or isinstance(lo, int)) and (hi is None or isinstance(hi, int)):
                    return o[lo:hi]
                return self.load_subscript(sym.arr_from_list(o), idx, node)
            ci = concrete_int(idx)
            if ci is None:
                return self.load_subscript(sym.arr_from_list(o), idx, node)
            if not (-len(o) <= ci < len(o)):
                self.require(f'index:{what}', z3.BoolVal(False), kind='index')
                raise PyRaise('IndexError', what)
            return o[ci]
        if isinstance(o, Arr):
            return self.arr_get(o, idx, what)
        if isinstance(o, Mat):
            return self.mat_get(o, idx, what)
        if isinstance(o, Seg):
            return self.model.seg_get(self, o, idx, what)
        if isinstance(o, DF):
            return self.model.df_getitem(self, o, idx)
        if isinstance(o, Obj) or hasattr(o, 'getitem'):
            return self.model.obj_getitem(self, o, idx, what)
        raise Unsupported(f'subscript of {type(o).__name__}')

    def arr_get(self, o, idx, what):
        if isinstance(idx, slice):
            if idx.step is not None:
                raise Unsupported('slice step')
            return sym.arr_slice(o, idx.start, idx.stop)
        if isinstance(idx, (list, tuple)):
            idx = sym.arr_from_list(list(idx))
        if isinstance(idx, Arr):
            probe = idx.f(z3.Int('probe!idx')) if concrete_int(idx.n) != 0 else 0
            if sym.is_bool_like(probe):
                return self.model.mask_select(self, o, idx)
            # gather; safety: all indices in range
            j = z3.Int(fresh_name('g'))
            self.require(f'index:{what}', z3.ForAll([j], z3.Implies(z3.And(j >= 0, j < lift(idx.n)),
                         z3.And(lift(idx.f(j)) >= 0, lift(idx.f(j)) < lift(o.n)))), kind='index')
            return Arr(idx.n, lambda i, _f_idx=idx.f, _f_o=o.f: _f_o(_f_idx(i)), kind=o.kind)
        if isinstance(idx, tuple):
            raise Unsupported('tuple index into 1-D array')
        k = self.bounds_check(idx, o.n, what)
        return o.f(k)

    def mat_get(self, o, idx, what):
        if isinstance(idx, tuple) and len(idx) == 2:
            r, c = idx
            if isinstance(r, slice) and isinstance(c, slice):
                r0 = r.start if r.start is not None else 0
                r1 = r.stop if r.stop is not None else o.nr
                c0 = c.start if c.start is not None else 0
                c1 = c.stop if c.stop is not None else o.nc
                return Mat(_sz(binop('Sub', r1, r0)), _sz(binop('Sub', c1, c0)),
                           lambda i, j, _f_o=o.f: _f_o(binop('Add', r0, i), binop('Add', c0, j)), sparse=o.sparse)
            if isinstance(r, slice) and r.start is None and r.stop is None:
                if isinstance(c, Arr):
                    probe = c.f(z3.Int('probe!idx'))
                    if sym.is_bool_like(probe):
                        cnt, sel, rank = sym.COMP.get(c)
                        return Mat(o.nr, cnt, lambda i, j, _f_o=o.f: _f_o(i, sel(lift(j))), sparse=o.sparse)
                    return Mat(o.nr, c.n, lambda i, j, _f_c=c.f, _f_o=o.f: _f_o(i, _f_c(j)), sparse=o.sparse)
                k = self.bounds_check(c, o.nc, what)
                return Arr(o.nr, lambda i, _f_o=o.f: _f_o(i, k))
            if isinstance(c, slice) and c.start is None and c.stop is None:
                if isinstance(r, Arr):
                    probe = r.f(z3.Int('probe!idx'))
                    if sym.is_bool_like(probe):
                        cnt, sel, rank = sym.COMP.get(r)
                        return Mat(cnt, o.nc, lambda i, j, _f_o=o.f: _f_o(sel(lift(i)), j), sparse=o.sparse)
                    return Mat(r.n, o.nc, lambda i, j, _f_o=o.f, _f_r=r.f: _f_o(_f_r(i), j), sparse=o.sparse)
                k = self.bounds_check(r, o.nr, what)
                return Arr(o.nc, lambda j, _f_o=o.f: _f_o(k, j))
            if isinstance(r, slice) or isinstance(c, slice):
                raise Unsupported('partial 2-D slice read')
            rr = self.bounds_check(r, o.nr, what + ' (row)')
            cc = self.bounds_check(c, o.nc, what + ' (col)')
            return o.f(rr, cc)
        if isinstance(idx, slice):
            r0 = idx.start if idx.start is not None else 0
            r1 = idx.stop if idx.stop is not None else o.nr
            return Mat(_sz(binop('Sub', r1, r0)), o.nc, lambda i, j, _f_o=o.f: _f_o(binop('Add', r0, i), j), sparse=o.sparse)
        if isinstance(idx, Arr):
            return self.mat_get(o, (idx, slice(None, None, None)), what)
        k = self.bounds_check(idx, o.nr, what)
        return Arr(o.nc, lambda j, _f_o=o.f: _f_o(k, j))

    def store_subscript(self, o, idx, v, node):
        what = ast.unparse(node)[:60]
        if isinstance(o, SymMap):
            if self.guards or self.loops:
                raise Unsupported('dict store under guard')
            if id(o) in self.protect:
                self.require(f'frame:{self.protect[id(o)]}[...]', z3.BoolVal(False), kind='frame')
            o.store(idx, v)
            return
        if isinstance(o, dict):
            if is_z3(idx) or isinstance(idx, (Arr, Obj)):
                raise Unsupported('symbolic dict key store')
            if id(o) in self.protect:
                self.require(f'frame:{self.protect[id(o)]}[{idx!r}]', z3.BoolVal(False), kind='frame')
            self.writes.append((o, idx, self.cur_line, self.cur_mod))
            if self.guards or self.loops:
                raise Unsupported('dict store under guard')
            o[idx] = v
            return
        if isinstance(o, list):
            ci = concrete_int(idx) if not isinstance(idx, slice) else None
            if ci is None or self.guards or self.loops:
                raise Unsupported('list store')
            o[ci] = v
            return
        if isinstance(o, Arr):
            self.arr_set(o, idx, v, what)
            return
        if isinstance(o, Mat):
            self.mat_set(o, idx, v, what)
            return
        if isinstance(o, DF):
            self.model.df_setitem(self, o, idx, v)
            return
        if isinstance(o, Seg) and o.kind == 'df':
            if type(v).__name__ == 'SegColumn' and v.seg is o and v.name == idx:
                return      # frame[c] = frame[c] (after an identity conversion): nothing changes
            if self.loops or self.guards or not isinstance(idx, str) or isinstance(v, (Arr, Mat, list, tuple)):
                raise Unsupported('column store on a loop-built frame (form)')
            for sgm in o.segs:
                self.model.df_setitem(self, sgm.item if isinstance(sgm, Family) else sgm, idx, v)
            return
        if hasattr(o, 'setitem'):
            o.setitem(self, idx, v)
            return
        raise Unsupported(f'subscript store on {type(o).__name__}')

    def _affine_inverse(self, idx):
        """if the integer array idx is e + arange(n) (element p = e + p with e free of p) return e, else None"""
        p = z3.Int(fresh_name('aff'))
        try:
            t = lift(idx.f(p))
        except Unsupported:
            return None
        if not z3.is_int(t):
            return None
        e = z3.simplify(t - p)
        if p.decl().name() in free_consts(e):
            # not syntactically affine: is it provably the identity on its range under the path facts?
            # (e.g. the distinct variable numbers of a mapping with one row per variable)
            sv = z3.Solver()
            sv.set('timeout', 1500)
            sv.set('smt.mbqi', False)
            sv.add(*self.pc)
            sv.add(*sym.COMP.axioms())
            sv.add(*sym.EXTRA)
            sv.add(p >= 0, p < lift(idx.n), t != p)
            try:
                if sv.check() == z3.unsat:
                    return z3.IntVal(0)
            except z3.Z3Exception:
                pass
            return None
        return e

    def _outer(self, obj):
        return self.loops and getattr(obj, 'birth', 0) < len(self.loops)

    def arr_set(self, o, idx, v, what):
        if id(o) in self.protect:
            self.require(f'frame:{self.protect[id(o)]}[...]', z3.BoolVal(False), kind='frame')
        g = self.guard_formula() if (self.guards or self.loops) else None
        oldf = o.f
        if isinstance(idx, slice):
            lo = idx.start if idx.start is not None else 0
            hi = idx.stop if idx.stop is not None else o.n
            clo, chi = concrete_int(lo), concrete_int(hi)
            if clo is not None and clo < 0:
                lo = binop('Add', o.n, clo)
            if chi is not None and chi < 0:
                hi = binop('Add', o.n, chi)
            if self._outer(o):
                raise Unsupported('slice write to outer array in symbolic loop')
            if isinstance(v, Arr):
                self.require(f'shape:{what}', cmpop('Eq', binop('Sub', hi, lo), v.n), kind='shape')
                src = lambda i, _f_v=v.f: _f_v(binop('Sub', i, lo))
            elif isinstance(v, (list, tuple)):
                va = sym.arr_from_list(v)
                src = lambda i, _f_va=va.f: _f_va(binop('Sub', i, lo))
            else:
                src = lambda i: v
            cond = lambda i: z3.And(to_bool(cmpop('GtE', i, lo)), to_bool(cmpop('Lt', i, hi)))
            o.f = lambda i: ite(cond(i) if g is None else z3.And(g, cond(i)), src(i), oldf(i))
            o.view = o.comp = None
            return
        if isinstance(idx, Arr):
            probe = idx.f(z3.Int('probe!idx')) if concrete_int(idx.n) != 0 else False
            if self._outer(o):
                raise Unsupported('mask write to outer array in symbolic loop')
            if sym.is_bool_like(probe):
                # a[mask] = v   (v scalar, or compress-aligned array)
                if isinstance(v, Arr):
                    cnt, sel, rank = sym.COMP.get(idx)
                    self.require(f'shape:{what}', cmpop('Eq', cnt, v.n), kind='shape')
                    src = lambda i, _f_v=v.f: _f_v(rank(lift(i)))
                else:
                    src = lambda i: v
                o.f = lambda i, _f_idx=idx.f: ite(to_bool(_f_idx(i)) if g is None else z3.And(g, to_bool(_f_idx(i))), src(i), oldf(i))
            elif self._affine_inverse(idx) is not None:
                e_off = self._affine_inverse(idx)
                self.require(f'index:{what}', z3.Implies(lift(idx.n) > 0, z3.And(e_off >= 0, e_off + lift(idx.n) <= lift(o.n))), kind='index')
                hit = lambda i: z3.And(lift(i) - e_off >= 0, lift(i) - e_off < lift(idx.n))
                src = (lambda i, _f=v.f: _f(lift(i) - e_off)) if isinstance(v, Arr) else (lambda i: v)
                o.f = lambda i: ite(hit(i) if g is None else z3.And(g, hit(i)), src(i), oldf(i))
            else:
                # scatter a[idx] = v : idx assumed duplicate-free (obligation), inverse via skolem function
                inv = z3.Function(fresh_name('inv'), z3.IntSort(), z3.IntSort())
                p = z3.Int(fresh_name('p'))
                body_ = z3.Implies(z3.And(p >= 0, p < lift(idx.n)), inv(lift(idx.f(p))) == p)
                try:
                    ax = z3.ForAll([p], body_, patterns=[inv(lift(idx.f(p)))])
                except z3.Z3Exception:
                    ax = z3.ForAll([p], body_)
                self.extra_axioms.append(ax)
                q = z3.Int(fresh_name('q'))
                self.require(f'scatter-injective:{what}', z3.ForAll([p, q], z3.Implies(
                    z3.And(p >= 0, p < q, q < lift(idx.n)), lift(idx.f(p)) != lift(idx.f(q)))), kind='index')
                self.require(f'index:{what}', z3.ForAll([p], z3.Implies(z3.And(p >= 0, p < lift(idx.n)),
                             z3.And(lift(idx.f(p)) >= 0, lift(idx.f(p)) < lift(o.n)))), kind='index')
                hit = lambda i, _f_idx=idx.f: z3.And(inv(lift(i)) >= 0, inv(lift(i)) < lift(idx.n), lift(_f_idx(inv(lift(i)))) == lift(i))
                src = (lambda i, _f_v=v.f: _f_v(inv(lift(i)))) if isinstance(v, Arr) else (lambda i: v)
                o.f = lambda i: ite(hit(i) if g is None else z3.And(g, hit(i)), src(i), oldf(i))
            o.view = o.comp = None
            return
        if isinstance(idx, tuple):
            raise Unsupported('tuple index store into 1-D array')
        k = self.bounds_check(idx, o.n, what)
        if self._outer(o):
            self.param_write(o, ('arr', k), v)
            return
        o.f = lambda i: ite(cmpop('Eq', i, k) if g is None else z3.And(g, to_bool(cmpop('Eq', i, k))), v, oldf(i))
        o.view = o.comp = None

    def mat_set(self, o, idx, v, what):
        g = self.guard_formula() if (self.guards or self.loops) else None
        oldf = o.f
        if not (isinstance(idx, tuple) and len(idx) == 2):
            raise Unsupported('1-index store into matrix')
        r, c = idx

        def rng(s, n):
            lo = s.start if s.start is not None else 0
            hi = s.stop if s.stop is not None else n
            return lo, hi
        if isinstance(r, slice) or isinstance(c, slice) or isinstance(r, Arr) or isinstance(c, Arr):
            if self._outer(o):
                raise Unsupported('block write to outer matrix in symbolic loop')
            # row selector
            if isinstance(r, slice):
                r0, r1 = rng(r, o.nr)
                rcond = lambda i: z3.And(to_bool(cmpop('GtE', i, r0)), to_bool(cmpop('Lt', i, r1)))
                rmap = lambda i: binop('Sub', i, r0)
            elif isinstance(r, Arr):
                raise Unsupported('row-array block write')
            else:
                rk = self.bounds_check(r, o.nr, what + ' (row)')
                rcond = lambda i: to_bool(cmpop('Eq', i, rk))
                rmap = lambda i: 0
            if isinstance(c, slice):
                c0, c1 = rng(c, o.nc)
                ccond = lambda j: z3.And(to_bool(cmpop('GtE', j, c0)), to_bool(cmpop('Lt', j, c1)))
                cmap = lambda j: binop('Sub', j, c0)
            elif isinstance(c, Arr):
                probe = c.f(z3.Int('probe!idx')) if concrete_int(c.n) != 0 else 0
                if sym.is_bool_like(probe):
                    cnt, sel, rank = sym.COMP.get(c)
                    ccond = lambda j, _f_c=c.f: to_bool(_f_c(j))
                    cmap = lambda j: rank(lift(j))
                elif self._affine_inverse(c) is not None:
                    # index array of the form e + arange(n): the inverse is j - e (no axiom needed)
                    e_off = self._affine_inverse(c)
                    ccond = lambda j: z3.And(lift(j) - e_off >= 0, lift(j) - e_off < lift(c.n))
                    cmap = lambda j: lift(j) - e_off
                    self.require(f'index:{what}', z3.Implies(lift(c.n) > 0, z3.And(e_off >= 0, e_off + lift(c.n) <= lift(o.nc))), kind='index')
                else:
                    inv = z3.Function(fresh_name('inv'), z3.IntSort(), z3.IntSort())
                    p, q = z3.Int(fresh_name('p')), z3.Int(fresh_name('q'))
                    self.extra_axioms.append(z3.ForAll([p], z3.Implies(z3.And(p >= 0, p < lift(c.n)), inv(lift(c.f(p))) == p)))
                    self.require(f'scatter-injective:{what}', z3.ForAll([p, q], z3.Implies(
                        z3.And(p >= 0, p < q, q < lift(c.n)), lift(c.f(p)) != lift(c.f(q)))), kind='index')
                    self.require(f'index:{what}', z3.ForAll([p], z3.Implies(z3.And(p >= 0, p < lift(c.n)),
                                 z3.And(lift(c.f(p)) >= 0, lift(c.f(p)) < lift(o.nc)))), kind='index')
                    ccond = lambda j, _f_c=c.f: z3.And(inv(lift(j)) >= 0, inv(lift(j)) < lift(c.n), lift(_f_c(inv(lift(j)))) == lift(j))
                    cmap = lambda j: inv(lift(j))
            else:
                ck = self.bounds_check(c, o.nc, what + ' (col)')
                ccond = lambda j: to_bool(cmpop('Eq', j, ck))
                cmap = lambda j: 0
            if isinstance(v, Mat):
                src = lambda i, j, _f_v=v.f: _f_v(rmap(i), cmap(j))
            elif isinstance(v, Arr):
                if isinstance(r, slice) and not isinstance(c, (slice, Arr)):
                    src = lambda i, j, _f_v=v.f: _f_v(rmap(i))
                else:
                    src = lambda i, j, _f_v=v.f: _f_v(cmap(j))
            else:
                src = lambda i, j: v
            cond = lambda i, j: z3.And(rcond(i), ccond(j)) if g is None else z3.And(g, rcond(i), ccond(j))
            o.f = lambda i, j: ite(cond(i, j), src(i, j), oldf(i, j))
            return
        rk = self.bounds_check(r, o.nr, what + ' (row)')
        ck = self.bounds_check(c, o.nc, what + ' (col)')
        if self._outer(o):
            self.param_write(o, ('mat', rk, ck), v)
            return
        hit = lambda i, j: z3.And(to_bool(cmpop('Eq', i, rk)), to_bool(cmpop('Eq', j, ck)))
        o.f = lambda i, j: ite(hit(i, j) if g is None else z3.And(g, hit(i, j)), v, oldf(i, j))

    # ---------------------------------------------------------------- symbolic loops
    def param_write(self, o, cell, v):
        """A cell write to an array that lives outside the current symbolic loop(s): recorded as a
        parametric write; the loop variables are eliminated when the loops exit."""
        g = self.guard_formula()
        depth = getattr(o, 'birth', 0)
        lc = self.loops[depth]          # outermost loop the object is outer to
        ent = lc.pending.setdefault(id(o), (o, []))
        vars_ = [l.var for l in self.loops[depth:]]
        ent[1].append(dict(kind='set', cell=cell, val=v, guard=g, vars=vars_, line=self.cur_line))

    def accumulate(self, o, key, val):
        if not self._outer(o):
            raise Unsupported('accumulation into loop-local array')
        g = self.guard_formula()
        depth = getattr(o, 'birth', 0)
        lc = self.loops[depth]
        ent = lc.pending.setdefault(id(o), (o, []))
        vars_ = [l.var for l in self.loops[depth:]]
        k = self.bounds_check(key, o.n, 'accumulate')
        ent[1].append(dict(kind='acc', cell=('arr', k), val=val, guard=g, vars=vars_, line=self.cur_line))

    def accumulate_mat(self, o, r, c, val):
        g = self.guard_formula()
        depth = getattr(o, 'birth', 0)
        lc = self.loops[depth]
        ent = lc.pending.setdefault(id(o), (o, []))
        vars_ = [l.var for l in self.loops[depth:]]
        rr = self.bounds_check(r, o.nr, 'accumulate (row)')
        cc = self.bounds_check(c, o.nc, 'accumulate (column)')
        ent[1].append(dict(kind='acc', cell=('mat', rr, cc), val=val, guard=g, vars=vars_, line=self.cur_line))

    def st_For(self, st, frame):
        it = self.ev(st.iter, frame)
        if st.orelse:
            raise Unsupported('for-else')
        if isinstance(it, Havoc):
            raise Unsupported('loop over havoc')
        conc = self.concrete_iter(it)
        if conc is None:
            spec = self.loop_spec_for(st, frame)
            if spec is not None:
                return self.invariant_for(st, it, frame, spec)
        if conc is not None:
            for item in conc:
                self.assign(st.target, item, frame)
                try:
                    self.exec_block(st.body, frame)
                except _Continue:
                    continue
                except _Break:
                    break
            return
        self.symbolic_for(st, it, frame)

    def concrete_iter(self, it):
        if isinstance(it, SymMap):
            return it.keys()
        if isinstance(it, (list, tuple, range, dict)):
            return list(it)
        if isinstance(it, SymRange):
            lo, hi = concrete_int(it.lo), concrete_int(it.hi)
            if lo is not None and hi is not None and hi - lo <= 64:
                return list(range(lo, hi))
            return None
        if isinstance(it, Arr):
            n = concrete_int(it.n)
            if n is not None and n <= 64:
                return [it.f(k) for k in range(n)]
            return None
        if isinstance(it, SymEnum):
            n = concrete_int(it.arr.n) if isinstance(it.arr, Arr) else (len(it.arr) if isinstance(it.arr, (list, tuple)) else None)
            if n is not None and n <= 64:
                src = it.arr.f if isinstance(it.arr, Arr) else (lambda k: it.arr[k])
                return [(k + it.start, src(k)) for k in range(n)]
            return None
        if isinstance(it, SymZip):
            ns = [concrete_int(a.n) if isinstance(a, Arr) else len(a) for a in it.arrs]
            if all(n is not None for n in ns) and min(ns) <= 64:
                gets = [(a.f if isinstance(a, Arr) else (lambda k, a=a: a[k])) for a in it.arrs]
                return [tuple(g(k) for g in gets) for k in range(min(ns))]
            return None
        if type(it).__name__ == 'SymRows':
            df = it.df
            n = concrete_int(df.n if df.n is not None else 0)
            if n is not None and n <= 64:
                from .libmodel import Row
                return [(df.index.f(k), Row(df, k)) for k in range(n)]
            return None
        if type(it).__name__ == 'Columns':
            return list(it.df.cols)
        if isinstance(it, RowSel):
            return None
        if isinstance(it, Seg) and it.kind == 'list' and all(not isinstance(s, Family) for s in it.segs):
            out = []
            for s in it.segs:
                out.extend(s)
            return out
        raise Unsupported(f'iteration over {type(it).__name__}')

    # ---------------------------------------------------------------- loops under a sidecar invariant
    def loop_spec_for(self, st, frame):
        specs = getattr(self, 'loop_specs', None)
        if not specs:
            return None
        node = frame['node']
        key = f"{frame['mod']}:{frame['defcls'] + '.' if frame.get('defcls') else ''}{node.name}"
        fors = sorted((n for n in ast.walk(node) if isinstance(n, ast.For)), key=lambda n: (n.lineno, n.col_offset))
        return specs.get((key, fors.index(st)))

    def iter_parts(self, it):
        """(lo, hi, item(k)) of a symbolic iteration"""
        if isinstance(it, SymRange):
            return lift(it.lo), lift(it.hi), (lambda k: k)
        if isinstance(it, Arr):
            return z3.IntVal(0), lift(it.n), (lambda k, _f=it.f: _f(k))
        if isinstance(it, SymEnum) and isinstance(it.arr, Arr):
            return z3.IntVal(0), lift(it.arr.n), (lambda k, _f=it.arr.f, _s=it.start: (binop('Add', k, _s), _f(k)))
        if isinstance(it, SymZip) and all(isinstance(a, Arr) for a in it.arrs):
            ns = [lift(a.n) for a in it.arrs]
            for n in ns[1:]:
                if not z3.is_true(z3.simplify(n == ns[0])):
                    self.require('zip-equal-length', n == ns[0], kind='shape')
            fs = [a.f for a in it.arrs]
            return z3.IntVal(0), ns[0], (lambda k: tuple(f(k) for f in fs))
        raise Unsupported('invariant loop over ' + type(it).__name__)

    def _path_get(self, name, frame):
        parts = name.split('.')
        v = frame['env'][parts[0]]
        for a in parts[1:]:
            v = v.get(a)
        return v

    def _path_set(self, name, val, frame):
        """install a fresh value: arrays / matrices are overwritten in place (aliases see it), anything else rebinds"""
        parts = name.split('.')
        if len(parts) == 1:
            cur = frame['env'].get(name, _MISSING)
        else:
            o = frame['env'][parts[0]]
            for a in parts[1:-1]:
                o = o.get(a)
            cur = o.get(parts[-1]) if o.has(parts[-1]) else _MISSING
        if isinstance(cur, Arr) and isinstance(val, Arr):
            cur.n, cur.f, cur.view, cur.comp = val.n, val.f, None, None
            return
        if isinstance(cur, Mat) and isinstance(val, Mat):
            cur.nr, cur.nc, cur.f = val.nr, val.nc, val.f
            return
        if len(parts) == 1:
            frame['env'][name] = val
        else:
            o.set(parts[-1], val)

    def _heap_snapshot(self, roots, skip):
        out, seen = [], set(skip)

        def walk(v):
            if id(v) in seen:
                return
            if isinstance(v, Arr):
                seen.add(id(v)); out.append((v, (v.f, v.n)))
            elif isinstance(v, Mat):
                seen.add(id(v)); out.append((v, (v.f, v.nr, v.nc)))
            elif isinstance(v, DF):
                seen.add(id(v)); out.append((v, (v.n, v.index) + tuple(v.cols.items())))
                walk(v.index)
                for c in v.cols.values():
                    walk(c)
            elif isinstance(v, Obj):
                seen.add(id(v)); out.append((v, tuple(v.attrs.items())))
                for c in list(v.attrs.values()):
                    walk(c)
            elif isinstance(v, (list, tuple)):
                seen.add(id(v)); out.append((v, tuple(v)))
                for c in v:
                    walk(c)
            elif isinstance(v, dict):
                seen.add(id(v)); out.append((v, tuple(v.items())))
                for c in v.values():
                    walk(c)
            elif isinstance(v, SymMap):
                seen.add(id(v)); out.append((v, tuple(v.items)))
                for _, c in v.items:
                    walk(c)
            elif isinstance(v, Seg):
                seen.add(id(v)); out.append((v, tuple(v.segs)))
        for r in roots:
            walk(r)
        return out

    @staticmethod
    def _heap_token(v):
        if isinstance(v, Arr):
            return (v.f, v.n)
        if isinstance(v, Mat):
            return (v.f, v.nr, v.nc)
        if isinstance(v, DF):
            return (v.n, v.index) + tuple(v.cols.items())
        if isinstance(v, Obj):
            return tuple(v.attrs.items())
        if isinstance(v, (list, tuple)):
            return tuple(v)
        if isinstance(v, dict):
            return tuple(v.items())
        if isinstance(v, SymMap):
            return tuple(v.items)
        if isinstance(v, Seg):
            return tuple(v.segs)

    @staticmethod
    def _same_token(a, b):
        if len(a) != len(b):
            return False
        for x, y in zip(a, b):
            if isinstance(x, tuple) and isinstance(y, tuple):
                if len(x) != len(y) or any(p is not q and not (isinstance(p, (str, int, float, bool, type(None))) and p == q) for p, q in zip(x, y)):
                    return False
            elif x is not y and not (isinstance(x, (str, int, float, bool, type(None))) and type(x) is type(y) and x == y):
                return False
        return True

    def invariant_for(self, st, it, frame, spec):
        """for-loop verified against a sidecar invariant (classical rule):
             entry:   inv(lo)                                   obligation, hypotheses = path condition so far
             step:    lo <= k < hi, inv(k) on a fresh state  |-  body establishes inv(k+1)   (own path, ends there)
             exit:    continue with a fresh state satisfying inv(max(lo, hi))
           Everything the body assigns that the invariant's state does not name is havoc afterwards; a heap object
           the body modifies outside the declared state makes the path unmodelled (never a violation)."""
        if self.loops:
            raise Unsupported('invariant loop inside a summarised loop')
        env = frame['env']
        lo, hi, itemf = self.iter_parts(it)
        label = spec.label
        names = list(spec.names)
        if hasattr(spec, 'ghost_init'):
            # ghost state of the invariant (witness functions); lives in the frame under names the code cannot use
            for nm, val in spec.ghost_init(self, env).items():
                env.setdefault(nm, val)
        cur = lambda: {nm: self._path_get(nm, frame) for nm in names}
        for nme, f in spec.inv(self, lo, cur(), env):
            self.require(f'{label}.entry.{nme}', f, kind='invariant', snapshot=True)
        assigned = {n.id for n in ast.walk(st) if isinstance(n, ast.Name) and isinstance(n.ctx, ast.Store)}
        top = {nm.split('.')[0] for nm in names if '.' not in nm}
        b = z3.Bool(fresh_name('loopcheck'))
        if self.decide(b):
            k = z3.Int(fresh_name('k'))
            self.assume(z3.And(k >= lo, k < hi))
            for nm, val in spec.fresh(self, k, env, 'k').items():
                self._path_set(nm, val, frame)
            carried = loop_carried(st)
            for nm in carried['names']:
                if nm not in top and nm in env:
                    env[nm] = Havoc(f'loop-carried variable {nm} not in the invariant', st.lineno)
            self.assume(z3.And(*[to_bool(f) for _, f in spec.inv(self, k, cur(), env)]))
            state_ids = {id(v) for v in cur().values()}
            snap = self._heap_snapshot([v for nm, v in env.items()], state_ids)
            before = {nm: (v.copy() if isinstance(v, (Arr, Mat)) else v) for nm, v in cur().items()}
            self.assign(st.target, itemf(k), frame)
            try:
                self.exec_block(st.body, frame)
            except _Continue:
                pass
            except _Break:
                raise Unsupported('break in a loop under invariant')
            state_ids = {id(v) for v in cur().values()}
            for obj, tok in snap:
                if id(obj) in state_ids:
                    continue
                if not self._same_token(tok, self._heap_token(obj)):
                    raise Unsupported(f'loop body modifies {type(obj).__name__} outside the state of the invariant')
            if hasattr(spec, 'ghost_step'):
                # ghost code: the witnesses of the invariant after this iteration, defined from those before it
                for nm, val in spec.ghost_step(self, k, before, cur(), env).items():
                    self._path_set(nm, val, frame)
            for nme, f in spec.inv(self, k + 1, cur(), env):
                self.require(f'{label}.step.{nme}', f, kind='invariant', snapshot=True)
            raise LoopCheckEnd(label)
        kend = z3.If(hi >= lo, hi, lo)
        for nm, val in spec.fresh(self, kend, env, 'end').items():
            self._path_set(nm, val, frame)
        for nm in assigned:
            if nm not in top:
                env[nm] = Havoc(f'value of {nm} after a loop under invariant', st.lineno)
        self.assume(z3.And(*[to_bool(f) for _, f in spec.inv(self, kend, cur(), env)]))

    def symbolic_for(self, st, it, frame):
        env = frame['env']
        k = z3.Int(fresh_name('k'))
        if isinstance(it, SymRange):
            lo, hi = lift(it.lo), lift(it.hi)
            item = k
        elif isinstance(it, Arr):
            lo, hi = z3.IntVal(0), lift(it.n)
            item = it.f(k)
        elif isinstance(it, SymEnum):
            lo, hi = z3.IntVal(0), lift(it.arr.n)
            item = (binop('Add', k, it.start), it.arr.f(k))
        elif isinstance(it, SymZip):
            lo = z3.IntVal(0)
            ns = [lift(a.n) for a in it.arrs]
            hi = ns[0]
            for n in ns[1:]:
                if not (z3.is_true(z3.simplify(n == hi))):
                    self.require('zip-equal-length', n == hi, kind='shape')
            item = tuple(a.f(k) for a in it.arrs)
        elif isinstance(it, RowSel):
            # every selected row position once (order immaterial: the body may only accumulate commutatively -- checked below)
            lo, hi = z3.IntVal(0), lift(it.n if it.parts else 0)
            item = k
            rowsel_guard = it.pred(k)
        elif type(it).__name__ == 'SymRows':
            from .libmodel import Row
            df = it.df
            extra_guard = None
            comps = [c.comp for c in df.cols.values() if isinstance(c, Arr)] + [df.index.comp]
            if comps and all(c is not None for c in comps) and all(c[1] is comps[0][1] for c in comps):
                # rows of a filtered frame: iterate over the rows of the original frame under the filter
                # (boolean-mask selection preserves order, A2)
                mask = comps[0][1]
                base = DF(mask.n, df.index.comp[0], {nm: c.comp[0] for nm, c in df.cols.items()})
                lo, hi = z3.IntVal(0), lift(mask.n)
                item = (base.index.f(k), Row(base, k))
                extra_guard = to_bool(mask.f(k))
            else:
                lo, hi = z3.IntVal(0), lift(df.n if df.n is not None else 0)
                item = (df.index.f(k), Row(df, k))
        else:
            raise Unsupported('symbolic loop over ' + type(it).__name__)
        if not self.loops and not self.guards and self.refutes(hi > lo):
            # the range is empty on this path (decided from the path condition and the library axioms): the body never runs
            return
        if isinstance(it, RowSel):
            for n_ in ast.walk(ast.Module(body=st.body, type_ignores=[])):
                if isinstance(n_, (ast.Assign, ast.AnnAssign, ast.Return, ast.Break, ast.Continue, ast.For, ast.While, ast.If)) or \
                        (isinstance(n_, ast.AugAssign) and not isinstance(n_.op, (ast.Add, ast.Sub))):
                    raise Unsupported('loop over a list of rows: only commutative += / -= statements are accepted in the body')
        lc = LoopCtx(k, z3.And(k >= lo, k < hi) if not (type(it).__name__ == 'SymRows' and extra_guard is not None)
                     else z3.And(k >= lo, k < hi, extra_guard), st.lineno)
        if isinstance(it, RowSel):
            lc.dom = z3.And(k >= lo, k < hi, rowsel_guard)
        # loop-carried names: read before written in the body, and assigned in the body
        carried = loop_carried(st)
        for nm in carried['names']:
            cur = env.get(nm, _MISSING)
            if cur is _MISSING:
                continue
            if nm in carried.get('extend_names', ()) and isinstance(cur, list) and not cur:
                env[nm] = RowSel()
                continue
            acc = self.make_acc(cur)
            if acc is None:
                env[nm] = Havoc(f'loop-carried variable {nm}', st.lineno)
            else:
                env[nm] = acc
        # lists kept in a dictionary under a literal key and appended to in the body:  box[key].append(x)
        for n_ in ast.walk(ast.Module(body=st.body, type_ignores=[])):
            if isinstance(n_, ast.Call) and isinstance(n_.func, ast.Attribute) and n_.func.attr == 'append' and isinstance(n_.func.value, ast.Subscript) \
                    and isinstance(n_.func.value.value, ast.Name) and n_.func.value.value.id in env:
                box = env[n_.func.value.value.id]
                try:
                    key = self.ev_index(n_.func.value.slice, frame)
                except (Unsupported, KeyError):
                    continue
                if isinstance(box, (dict, SymMap)) and isinstance(key, str):
                    curv = box.lookup(key) if isinstance(box, SymMap) else box.get(key)
                    if isinstance(curv, list):
                        acc = Seg('list', [list(curv)] if curv else [])
                        if isinstance(box, SymMap):
                            box.store(key, acc)
                        else:
                            box[key] = acc
        for (basename, attr) in carried['attrs']:
            o = env.get(basename, None)
            if isinstance(o, Obj) and o.has(attr):
                acc = self.make_acc(o.get(attr))
                o.set(attr, acc if acc is not None else Havoc(f'loop-carried attribute {attr}', st.lineno))
        # mutable row copies (Series) created outside this loop and stored into by its body: the stored fields carry
        # the previous iteration's value at the top of the body and the last iteration's value after the loop
        stale_rows = []
        for n_ in ast.walk(st):
            if isinstance(n_, ast.Subscript) and isinstance(n_.ctx, ast.Store) and isinstance(n_.value, ast.Name) and \
                    type(env.get(n_.value.id)).__name__ == 'RowCopy':
                if not (isinstance(n_.slice, ast.Constant) and isinstance(n_.slice.value, str)):
                    raise Unsupported('row store with a computed key inside a symbolic loop')
                stale_rows.append((env[n_.value.id], n_.slice.value))
        for (rc, key) in stale_rows:
            rc.over[key] = Havoc(f'row field {key!r} carried over from the previous iteration', st.lineno)
        before_names = set(env)
        self.loops.append(lc)
        sym.DEPTH[0] = len(self.loops)
        sym.SCOPE.append(k)
        try:
            self.assign(st.target, item, frame)
            try:
                self.exec_block(st.body, frame)
            except _Continue:
                pass
            except _Break:
                raise Unsupported('unconditional break in symbolic loop')
        finally:
            self.loops.pop()
            sym.DEPTH[0] = len(self.loops)
            sym.SCOPE.pop()
        for (rc, key) in stale_rows:
            rc.over[key] = Havoc(f'row field {key!r} after a symbolic loop', st.lineno)
        # eliminate k from pending parametric writes
        for oid, (obj, layers) in lc.pending.items():
            if self.loops and getattr(obj, 'birth', 0) < len(self.loops):
                # still outer to an enclosing symbolic loop: hand the layers up
                up = self.loops[getattr(obj, 'birth', 0)]
                up.pending.setdefault(oid, (obj, []))[1].extend(layers)
                continue
            self.apply_layers(obj, layers)
        # names assigned in the body and not accumulators are per-iteration temporaries
        assigned = {n.id for n in ast.walk(st) if isinstance(n, ast.Name) and isinstance(n.ctx, ast.Store)}
        for nm in assigned:
            v = env.get(nm, _MISSING)
            if isinstance(v, (Seg, RowSel)):
                continue
            if nm in env and (nm not in before_names or not isinstance(v, (Seg,))):
                if nm in carried['names'] and isinstance(v, Seg):
                    continue
                env[nm] = Havoc(f'value of {nm} after symbolic loop', st.lineno)

    def make_acc(self, cur):
        """Turn the pre-loop value of a loop-carried variable into an accumulator (Seg)."""
        if isinstance(cur, Seg):
            return cur
        if isinstance(cur, Mat):
            return as_seg('mat', cur)
        if isinstance(cur, Arr):
            return as_seg('arr' if cur.kind != 'list' else 'list_arr', cur) if cur.kind != 'list' else None
        if isinstance(cur, str):
            return as_seg('str', cur)
        if isinstance(cur, (RepStr, FnStr)):
            return as_seg('str', cur)
        if isinstance(cur, list):
            return Seg('list', [list(cur)] if cur else [])
        if isinstance(cur, DF):
            return Seg('df', [cur] if (cur.n is not None and cur.cols) else [])
        return None

    def seg_append(self, acc, item):
        """acc ++ item  (vstack / hstack / str +=).  Inside symbolic loops a Family is appended."""
        acc = acc.copy()
        kind = acc.kind
        if isinstance(item, Havoc):
            raise Unsupported('append havoc')
        if isinstance(item, Seg):
            if item.kind != kind:
                raise Unsupported('append of different accumulator kind')
            if self.loops:
                raise Unsupported('append accumulator inside loop')
            acc.segs.extend(item.segs)
            return acc
        if kind == 'mat':
            if isinstance(item, Arr):
                item = Mat(1, item.n, lambda r, c, _f_a=item.f: _f_a(c))
            if not isinstance(item, Mat):
                raise Unsupported('vstack non-matrix')
            if acc.nc is None:
                acc.nc = item.nc
        elif kind == 'arr':
            if not isinstance(item, Arr):
                item = Arr(1, lambda i, v=item: v)
        elif kind == 'str':
            if not isinstance(item, (str, RepStr, FnStr)):
                raise Unsupported('str accumulate non-str')
            if isinstance(item, str) and item == '':
                return acc
        elif kind == 'list':
            if not isinstance(item, list):
                raise Unsupported('list accumulate')
        elif kind == 'df':
            if not isinstance(item, DF):
                raise Unsupported('frame accumulate')
        if not self.loops:
            if self.guards:
                raise Unsupported('append under guard')
            acc.segs.append(item)
            return acc
        vars_ = [lc.var for lc in self.loops]
        dom = self.guard_formula()
        cnt = z3.Int(fresh_name('famcnt'))
        self.assume_silent(cnt >= 0)
        fid = (tuple(lc.line for lc in self.loops), self.cur_line)
        acc.segs.append(Family(fid, vars_, dom, item, cnt))
        return acc

    def apply_layers(self, obj, layers):
        """Eliminate the loop variables from parametric writes and install them on the object.

        A write  obj[R(k)] = V(k)  for k in dom  becomes  f'(i) = ite(hit(i), V(k(i)), f(i))  where
        k(i) solves R(k) = i (R affine in k with unit coefficient), hit(i) = dom(k(i)) & guard(k(i)).
        Writes from different statements are layered in program order; this is exact if no later
        iteration of an earlier statement hits a cell written by an earlier iteration of a later
        statement -- checked as an obligation (kind 'loop-order')."""
        if id(obj) in self.protect:
            self.require(f'frame:{self.protect[id(obj)]}[...]', z3.BoolVal(False), kind='frame')
        sets = [l for l in layers if l['kind'] == 'set']
        accs = [l for l in layers if l['kind'] == 'acc']
        solved = []
        for l in sets:
            solved.append(self.solve_layer(obj, l))
        # ordering side condition between different set statements
        for a in range(len(solved)):
            for b in range(a + 1, len(solved)):
                self.order_obligation(obj, solved[a], solved[b])
        if isinstance(obj, Arr):
            f = obj.f
            for s in solved:
                f = (lambda i, s=s, f=f: ite(s['hit'](i), s['val'](i), f(i)))
            if accs:
                f = self.acc_closure(obj, f, accs)
            obj.f = f
            obj.view = obj.comp = None
        else:
            f = obj.f
            for s in solved:
                f = (lambda r, c, s=s, f=f: ite(s['hit'](r, c), s['val'](r, c), f(r, c)))
            if accs:
                f = self.acc_closure_mat(obj, f, accs)
            obj.f = f

    def solve_layer(self, obj, l):
        vars_ = l['vars']
        cell = l['cell']
        coords = list(cell[1:])
        qs = [z3.Int(fresh_name('qc')) for _ in coords]
        # solve loop vars from coordinate equations, innermost first
        subst = []
        eqs = [(lift(co), q) for co, q in zip(coords, qs)]
        remaining = list(vars_)
        progress = True
        while remaining and progress:
            progress = False
            for v in list(remaining):
                for (co, q) in eqs:
                    co_s = z3.substitute(co, *subst) if subst else co
                    sol = solve_unit(co_s, v, q)
                    if sol is not None and not (free_consts(sol) & {x.decl().name() for x in remaining if not x.eq(v)}):
                        subst = [(a, z3.substitute(b, (v, sol))) for (a, b) in subst] + [(v, sol)]
                        remaining.remove(v)
                        progress = True
                        break
                if progress:
                    break
        if remaining:
            raise Unsupported('cannot eliminate loop variable from write ' + str(cell))

        def inst(t, actual):
            t = lift(t) if not isinstance(t, (Opt, type(None))) else t
            pairs = list(subst) + [(q, lift(a)) for q, a in zip(qs, actual)]
            # subst targets may mention qs; apply sequentially
            if isinstance(t, Opt) or t is None:
                raise Unsupported('optional value in parametric write')
            out = z3.substitute(t, *subst) if subst else t
            out = z3.substitute(out, *[(q, lift(a)) for q, a in zip(qs, actual)])
            return out
        guard = l['guard']

        def hit(*actual):
            conds = [inst(guard, actual)]
            for (co, q), a in zip(eqs, actual):
                conds.append(inst(co, actual) == lift(a))
            return z3.And(*conds)

        def val(*actual):
            v = l['val']
            if isinstance(v, (int, float, bool, str)):
                return v
            return inst(v, actual)
        return dict(hit=hit, val=val, layer=l, qs=qs)

    def order_obligation(self, obj, s1, s2):
        """later iteration of statement 1 must not overwrite an earlier iteration of statement 2
        on the same cell (else program-order layering would be wrong)."""
        l1, l2 = s1['layer'], s2['layer']
        if len(l1['vars']) == 0:
            return
        v1 = l1['vars']
        ren = [(v, z3.Int(fresh_name('k2'))) for v in l2['vars']]
        c1 = [lift(c) for c in l1['cell'][1:]]
        c2 = [z3.substitute(lift(c), *ren) for c in l2['cell'][1:]]
        same = z3.And(*[a == b for a, b in zip(c1, c2)])
        g2 = z3.substitute(l2['guard'], *ren)
        # lexicographic "iteration (v1) after iteration (ren)" on the shared outer variables
        later = z3.BoolVal(False)
        prefix = z3.BoolVal(True)
        for a, (_, b) in zip(v1, ren):
            later = z3.Or(later, z3.And(prefix, a > b))
            prefix = z3.And(prefix, a == b)
        bad = z3.And(l1['guard'], g2, same, later)
        vs = list(v1) + [b for _, b in ren]
        s = z3.Solver()
        s.set('timeout', 3000)
        s.add(*self.pc)
        s.add(bad)
        if s.check() != z3.unsat:
            raise Unsupported('parametric writes may overlap across iterations (layering not exact)')

    def acc_closure(self, obj, f, accs):
        """arr[key(k)] += g(k)  ->  arr[t] = old[t] + sum_k [dom(k) & key(k)=t] g(k)"""
        terms = []
        for l in accs:
            if len(l['vars']) != 1:
                raise Unsupported('nested accumulation')
            terms.append(l)

        def newf(i, f=f):
            out = f(i)
            for l in terms:
                k = l['vars'][0]
                key = lift(l['cell'][1])
                val = lift(l['val'])
                guard = l['guard']
                lo, hi, rest = loop_bounds(guard, k, with_rest=True)
                if lo is None or hi is None:
                    raise Unsupported('accumulation bounds')
                # the range conjuncts are the summation bounds; only the other guards go into the summand
                guard = z3.And(*[z3.simplify(r) for r in rest if not z3.is_true(z3.simplify(r))]) if rest else z3.BoolVal(True)
                pv = z3.Int(fresh_name('cell'))
                sym.SCOPE.append(pv)
                try:
                    P = sym.SUMS.prefix(lambda j, key=key, val=val, guard=guard, k=k, pv=pv: ite(
                        z3.And(z3.substitute(guard, (k, lift(j))), z3.substitute(key, (k, lift(j))) == pv),
                        z3.substitute(val, (k, lift(j))), sym._zero_like(val)), self.pc)
                finally:
                    sym.SCOPE.pop()
                term = lift(P(hi)) - lift(P(lo))
                out = binop('Add', out, z3.substitute(term, (pv, lift(i))))
            return out
        return newf

    def acc_closure_mat(self, obj, f, accs):
        """M[r(k), c(k)] += g(k)  ->  M[i, j] = old[i, j] + sum_k [dom(k) & r(k)=i & c(k)=j] g(k)"""
        for l in accs:
            if len(l['vars']) != 1:
                raise Unsupported('nested accumulation')

        def newf(i, j, f=f):
            out = f(i, j)
            for l in accs:
                k = l['vars'][0]
                kr, kc = lift(l['cell'][1]), lift(l['cell'][2])
                val = lift(l['val'])
                guard = l['guard']
                lo, hi, rest = loop_bounds(guard, k, with_rest=True)
                if lo is None or hi is None:
                    raise Unsupported('accumulation bounds')
                guard = z3.And(*[z3.simplify(r) for r in rest if not z3.is_true(z3.simplify(r))]) if rest else z3.BoolVal(True)
                pr, pc_ = z3.Int(fresh_name('cellr')), z3.Int(fresh_name('cellc'))
                sym.SCOPE.append(pr)
                sym.SCOPE.append(pc_)
                try:
                    P = sym.SUMS.prefix(lambda q, kr=kr, kc=kc, val=val, guard=guard, k=k: ite(
                        z3.And(z3.substitute(guard, (k, lift(q))), z3.substitute(kr, (k, lift(q))) == pr, z3.substitute(kc, (k, lift(q))) == pc_),
                        z3.substitute(val, (k, lift(q))), sym._zero_like(val)), self.pc)
                finally:
                    sym.SCOPE.pop()
                    sym.SCOPE.pop()
                term = lift(P(hi)) - lift(P(lo))
                out = binop('Add', out, z3.substitute(term, (pr, lift(i)), (pc_, lift(j))))
            return out
        return newf

    # ---------------------------------------------------------------- expressions
    def ev(self, e, frame):
        if e is None:
            return None
        m = getattr(self, 'ev_' + type(e).__name__, None)
        if m is None:
            raise Unsupported('expr ' + type(e).__name__)
        return m(e, frame)

    def ev_Constant(self, e, frame):
        return e.value

    def ev_Name(self, e, frame):
        env = frame['env']
        if e.id in env:
            return env[e.id]
        # free variables of a nested function under contract: the enclosing function's locals the harness provides (closure)
        clo = getattr(self, 'closure', None)
        if clo and e.id in clo:
            return clo[e.id]
        return self.lookup_global(e.id, frame)

    def lookup_global(self, name, frame):
        mod = frame['mod']
        v = self.model.global_name(self, mod, name)
        if v is not _MISSING:
            return v
        if (mod, name) in self.repo.functions:
            return RepoFunc(mod, self.repo.functions[(mod, name)])
        if name in self.repo.classes:
            return RepoClass(name)
        for (m, n), node in self.repo.functions.items():
            if n == name:
                return RepoFunc(m, node)
        raise Unsupported('name ' + name)

    def ev_Attribute(self, e, frame):
        o = self.ev(e.value, frame)
        return self.get_attr(o, e.attr, frame)

    def get_attr(self, o, attr, frame=None):
        if isinstance(o, Havoc):
            return o
        if o is None:
            raise PyRaise('AttributeError', f"'NoneType' object has no attribute '{attr}'")
        if isinstance(o, ModelNS):
            return o.get(attr)
        if isinstance(o, SuperProxy):
            found = self.repo.find_method(o.obj.cls, attr, after=o.after)
            if found is None:
                raise Unsupported('super().' + attr)
            c, mod, node = found
            return BoundMethod(o.obj, c, mod, node)
        if isinstance(o, Obj):
            if o.has(attr):
                return o.get(attr)
            found = self.repo.find_method(o.cls, attr) if o.cls in self.repo.classes else None
            if found is not None:
                c, mod, node = found
                if any(isinstance(d, ast.Name) and d.id == 'property' for d in node.decorator_list):
                    return self.call_repo(BoundMethod(o, c, mod, node), [], {})
                return BoundMethod(o, c, mod, node)
            v = self.model.obj_attr(self, o, attr)
            if v is not _MISSING:
                return v
            if o.cls in self.repo.classes or o.attrs.get('__closed__', False):
                raise PyRaise('AttributeError', f'{o.cls}.{attr}')
            raise Unsupported(f'attribute {o.cls}.{attr}')
        return self.model.value_attr(self, o, attr)

    def ev_Subscript(self, e, frame):
        o = self.ev(e.value, frame)
        idx = self.ev_index(e.slice, frame)
        return self.load_subscript(o, idx, e)

    def ev_Tuple(self, e, frame):
        return tuple(self.ev(x, frame) for x in e.elts)

    def ev_List(self, e, frame):
        return [self.ev(x, frame) for x in e.elts]

    def ev_Dict(self, e, frame):
        pairs = [(self.ev(k, frame), self.ev(v, frame)) for k, v in zip(e.keys, e.values)]
        if not pairs or any(is_z3(k) for k, _ in pairs):
            # an empty literal may later receive symbolic keys (asset names): association list from the start
            return SymMap(pairs)
        return dict(pairs)

    def ev_Set(self, e, frame):
        return set(self.ev(x, frame) for x in e.elts)

    def ev_JoinedStr(self, e, frame):
        return self.havoc('f-string')

    def ev_UnaryOp(self, e, frame):
        v = self.ev(e.operand, frame)
        if isinstance(v, Havoc):
            return v
        if isinstance(e.op, ast.Not):
            t = self.truth(v)
            if isinstance(t, bool):
                return not t
            return z3.Not(t)
        if isinstance(e.op, ast.USub):
            from .libmodel import Cvx
            if isinstance(v, Cvx):
                return Cvx('neg', v)
            return sym.neg(v)
        if isinstance(e.op, ast.UAdd):
            return v
        if isinstance(e.op, ast.Invert):
            return sym.invert(v)
        raise Unsupported('unary')

    def ev_BinOp(self, e, frame):
        a = self.ev(e.left, frame)
        b = self.ev(e.right, frame)
        opname = type(e.op).__name__
        from .libmodel import Cvx, cvx_binop
        if isinstance(a, Cvx) or isinstance(b, Cvx):
            return cvx_binop(opname, a, b)
        if opname == 'MatMult':
            return self.model.matmul(self, a, b)
        if opname == 'Add' and olist_like(a) and olist_like(b) and (isinstance(a, Obj) or isinstance(b, Obj)):
            return olist_concat(a, b)
        return self.apply_bin(opname, a, b)

    def ev_BoolOp(self, e, frame):
        is_and = isinstance(e.op, ast.And)
        acc = []
        pushed = 0
        last = None
        try:
            for sub in e.values:
                v = self.ev(sub, frame)
                t = self.truth(v)
                if isinstance(t, Havoc):
                    return t
                cb = t if isinstance(t, bool) else concrete_bool(t)
                if cb is not None:
                    if cb != is_and:           # short circuit
                        return v if not acc else (not is_and)
                    last = v
                    continue
                acc.append(t)
                self.guards.append(t if is_and else z3.Not(t))
                pushed += 1
                last = None
            if not acc:
                return last
            return z3.And(*acc) if is_and else z3.Or(*acc)
        finally:
            for _ in range(pushed):
                self.guards.pop()

    def ev_Compare(self, e, frame):
        left = self.ev(e.left, frame)
        out = None
        for op, rhs_node in zip(e.ops, e.comparators):
            right = self.ev(rhs_node, frame)
            r = self.compare(op, left, right)
            out = r if out is None else self.and_(out, r)
            left = right
        return out

    def and_(self, a, b):
        if isinstance(a, Havoc):
            return a
        if isinstance(b, Havoc):
            return b
        if isinstance(a, bool) and isinstance(b, bool):
            return a and b
        if isinstance(a, Arr) or isinstance(b, Arr):
            return binop('BitAnd', a, b)
        return z3.And(to_bool(a), to_bool(b))

    def compare(self, op, a, b):
        if isinstance(a, Havoc):
            return a
        if isinstance(b, Havoc):
            return b
        from .libmodel import Cvx, cvx_cmp
        if isinstance(a, Cvx) or isinstance(b, Cvx):
            return cvx_cmp(type(op).__name__, a, b)
        if isinstance(op, (ast.Is, ast.IsNot)):
            if b is None or a is None:
                other = a if b is None else b
                if isinstance(other, Opt):
                    raise Unsupported('is None on optional element')
                r = other is None
            elif isinstance(a, (bool,)) and isinstance(b, bool):
                r = a is b
            elif isinstance(a, (Obj, Arr, Mat, DF, list, dict)):
                r = a is b
            else:
                raise Unsupported('is')
            return r if isinstance(op, ast.Is) else (not r)
        if isinstance(op, (ast.In, ast.NotIn)):
            r = self.contains(b, a)
            if isinstance(op, ast.NotIn):
                r = (not r) if isinstance(r, bool) else z3.Not(to_bool(r))
            return r
        return cmpop(type(op).__name__, a, b)

    def contains(self, container, item):
        if isinstance(container, Havoc):
            return container
        if isinstance(container, SymMap):
            return container.has_key(item)
        if isinstance(container, dict):
            if is_z3(item):
                raise Unsupported('symbolic key membership')
            return item in container
        if isinstance(container, (list, tuple, set)):
            if not is_z3(item) and all(not is_z3(x) and not isinstance(x, Obj) for x in container):
                return item in container
            out = z3.BoolVal(False)
            for x in container:
                out = z3.Or(out, to_bool(cmpop('Eq', item, x)))
            return z3.simplify(out)
        if isinstance(container, str) and isinstance(item, str):
            return item in container
        if isinstance(container, DF):
            return item in container.cols
        if isinstance(container, Arr):
            return sym.exists_arr(container, lambda x: cmpop('Eq', x, item))
        if hasattr(container, 'contains'):
            return container.contains(self, item)
        raise Unsupported(f'in {type(container).__name__}')

    def ev_IfExp(self, e, frame):
        c = self.truth(self.ev(e.test, frame))
        cb = c if isinstance(c, bool) else (None if isinstance(c, Havoc) else concrete_bool(c))
        if cb is not None:
            return self.ev(e.body if cb else e.orelse, frame)
        if isinstance(c, Havoc):
            return c
        if not self.loops and not self.guards and not self.in_closure:
            return self.ev(e.body if self.decide(c) else e.orelse, frame)
        # (inside a lazily represented comprehension element the condition is about a generic position: never a
        # path decision, always a conditional value)
        self.guards.append(c)
        try:
            a = self.ev(e.body, frame)
        finally:
            self.guards.pop()
        self.guards.append(z3.Not(c))
        try:
            b = self.ev(e.orelse, frame)
        finally:
            self.guards.pop()
        return ite(c, a, b)

    def ev_Lambda(self, e, frame):
        raise Unsupported('lambda')

    def ev_ListComp(self, e, frame):
        if len(e.generators) != 1:
            raise Unsupported('nested comprehension')
        gen = e.generators[0]
        it = self.ev(gen.iter, frame)
        if isinstance(it, Havoc):
            return it
        if isinstance(it, (FnStr, RepStr)) or (isinstance(it, Seg) and it.kind == 'str') or isinstance(it, str) and False:
            from . import spec as _S
            src = it
            it = Arr(_S.str_len(src), lambda i, src=src: _S.char_at(src, i), kind='list')
        conc = self.concrete_iter(it)
        env = frame['env']
        if conc is not None:
            out = []
            saved = dict(env)
            for item in conc:
                self.assign(gen.target, item, frame)
                ok = True
                for cond in gen.ifs:
                    t = self.truth(self.ev(cond, frame))
                    cb = t if isinstance(t, bool) else concrete_bool(t)
                    if cb is None:
                        raise Unsupported('symbolic filter in comprehension')
                    ok = ok and cb
                if ok:
                    out.append(self.ev(e.elt, frame))
            env.clear()
            env.update(saved)
            return out
        if gen.ifs:
            raise Unsupported('filter in symbolic comprehension')
        snapshot = dict(env)

        def mk(getitem, n):
            def f_eval(i):
                fr = dict(frame)
                fr['env'] = dict(snapshot)
                self.in_closure += 1
                try:
                    self.assign(gen.target, getitem(i), fr)
                    return self.ev(e.elt, fr)
                finally:
                    self.in_closure -= 1
            # Python evaluates the comprehension eagerly: the safety obligations of the element expression (index
            # bounds, keys) are due once, for every position of the range -- not whenever the lazily represented
            # array is read later (possibly from a postcondition, at an arbitrary term)
            probe = z3.Int(fresh_name('lc'))
            self.range_guards.append(z3.And(probe >= 0, probe < lift(n)))
            try:
                f_eval(probe)
            finally:
                self.range_guards.pop()

            def f(i):
                self.quiet += 1
                try:
                    return f_eval(i)
                finally:
                    self.quiet -= 1
            return Arr(n, f, kind='list')
        if isinstance(it, SymRange):
            return mk(lambda i: binop('Add', it.lo, i), _sz(binop('Sub', it.hi, it.lo)))
        if isinstance(it, Arr):
            return mk(lambda i, _f_it=it.f: _f_it(i), it.n)
        if isinstance(it, SymEnum):
            return mk(lambda i, _f_it_arr=it.arr.f: (binop('Add', i, it.start), _f_it_arr(i)), it.arr.n)
        if isinstance(it, SymZip):
            return mk(lambda i, _f_a=a.f: tuple(_f_a(i) for a in it.arrs), it.arrs[0].n)
        raise Unsupported('comprehension over ' + type(it).__name__)

    ev_GeneratorExp = ev_ListComp

    def ev_DictComp(self, e, frame):
        if len(e.generators) != 1 or e.generators[0].ifs:
            raise Unsupported('dict comprehension form')
        gen = e.generators[0]
        it = self.ev(gen.iter, frame)
        if isinstance(it, Havoc):
            return it
        conc = self.concrete_iter(it)
        env = frame['env']
        if conc is not None:
            saved = dict(env)
            pairs = []
            for item in conc:
                self.assign(gen.target, item, frame)
                pairs.append((self.ev(e.key, frame), self.ev(e.value, frame)))
            env.clear()
            env.update(saved)
            return SymMap(pairs)
        snapshot = dict(env)
        if isinstance(it, SymRange):
            lo, n, getitem = lift(it.lo), _sz(binop('Sub', it.hi, it.lo)), (lambda i: binop('Add', it.lo, i))
        elif isinstance(it, Arr):
            n, getitem = it.n, (lambda i, _f=it.f: _f(i))
        elif isinstance(it, SymEnum):
            n, getitem = it.arr.n, (lambda i, _f=it.arr.f: (binop('Add', i, it.start), _f(i)))
        else:
            raise Unsupported('dict comprehension over ' + type(it).__name__)

        def at(i, what):
            fr = dict(frame)
            fr['env'] = dict(snapshot)
            self.in_closure += 1
            try:
                self.assign(gen.target, getitem(i), fr)
                return self.ev(what, fr)
            finally:
                self.in_closure -= 1
        return CompMap(lift(n), lambda i: at(i, e.key), lambda i: at(i, e.value))

    def ev_Starred(self, e, frame):
        raise Unsupported('starred')

    # ---------------------------------------------------------------- calls
    def ev_Call(self, e, frame):
        # super()
        if isinstance(e.func, ast.Name) and e.func.id == 'super':
            if e.args:
                cls = e.args[0].id if isinstance(e.args[0], ast.Name) else None
                return SuperProxy(frame['env']['self'], cls)
            return SuperProxy(frame['self_obj'], frame['defcls'])
        if isinstance(e.func, ast.Name) and e.func.id == 'hasattr' and e.func.id not in frame['env']:
            o = self.ev(e.args[0], frame)
            nm = self.ev(e.args[1], frame)
            return self.model.hasattr_(self, o, nm)
        callee = self.ev(e.func, frame)
        args = []
        for a in e.args:
            if isinstance(a, ast.Starred):
                v = self.ev(a.value, frame)
                if not isinstance(v, (list, tuple)):
                    raise Unsupported('*args of symbolic')
                args.extend(v)
            else:
                args.append(self.ev(a, frame))
        kwargs = {}
        for k in e.keywords:
            if k.arg is None:
                v = self.ev(k.value, frame)
                if not isinstance(v, dict):
                    raise Unsupported('**kwargs of symbolic')
                kwargs.update(v)
            else:
                kwargs[k.arg] = self.ev(k.value, frame)
        return self.call(callee, args, kwargs, e)

    def call(self, callee, args, kwargs, node=None):
        if isinstance(callee, Havoc):
            return callee
        if isinstance(callee, (BoundMethod, RepoFunc, RepoClass)):
            return self.call_repo(callee, args, kwargs)
        if isinstance(callee, TypeTok):
            return self.model.construct(self, callee, args, kwargs)
        if callable(callee):
            return callee(self, *args, **kwargs)
        raise Unsupported(f'call of {type(callee).__name__}')

    def call_repo(self, callee, args, kwargs):
        if isinstance(callee, BoundMethod):
            key = f'{callee.mod}:{callee.defcls}.{callee.node.name}'
            h = self.registry.get(key)
            if h is not None:
                return h(self, callee.obj, args, kwargs)
            if key in self.inline_ok or '*' in self.inline_ok:
                return self.run_function(callee.mod, callee.node, args, kwargs, self_obj=callee.obj, defcls=callee.defcls)
            raise _fatal(f'call of {key} (no contract): its effects on the heap are unknown')
        if isinstance(callee, RepoFunc):
            key = f'{callee.mod}:{callee.node.name}'
            h = self.registry.get(key)
            if h is not None:
                return h(self, None, args, kwargs)
            if key in self.inline_ok or '*' in self.inline_ok:
                return self.run_function(callee.mod, callee.node, args, kwargs)
            raise _fatal(f'call of {key} (no contract): its effects on the heap are unknown')
        if isinstance(callee, RepoClass):
            mod = self.repo.classes[callee.name][0]
            key = f'{mod}:{callee.name}'
            h = self.registry.get(key)
            if h is not None:
                return h(self, None, args, kwargs)
            found = self.repo.find_method(callee.name, '__init__')
            if found and (f'{found[1]}:{found[0]}.__init__' in self.inline_ok or '*' in self.inline_ok):
                o = Obj(callee.name)
                self.run_function(found[1], found[2], args, kwargs, self_obj=o, defcls=found[0])
                return o
            raise _fatal(f'constructor {callee.name} (no contract)')
        raise Unsupported('call_repo')

    # ---------------------------------------------------------------- try / with / while
    def st_Try(self, st, frame):
        # model: the body of `try` does not raise unless the model says so (PyRaise)
        snapshot = dict(frame['env'])
        try:
            self.exec_block(st.body, frame)
        except PyRaise as ex:
            frame['env'].clear()
            frame['env'].update(snapshot)
            for h in st.handlers:
                if h.type is None or ex.exc in ast.unparse(h.type):
                    self.exec_block(h.body, frame)
                    break
            else:
                # no handler: the finally block runs, then the exception propagates
                self.exec_block(st.finalbody, frame)
                raise
        except (_Return, _Continue, _Break):
            # leaving the try block by return / continue / break: the finally block runs first
            self.exec_block(st.finalbody, frame)
            raise
        else:
            self.exec_block(st.orelse, frame)
        self.exec_block(st.finalbody, frame)

    def st_FunctionDef(self, st, frame):
        frame['env'][st.name] = RepoFunc(frame['mod'], st)

    def st_While(self, st, frame):
        raise Unsupported('while')

    def st_With(self, st, frame):
        raise Unsupported('with')


_MISSING = object()


def _empty_or_concat_idiom(st):
    import re
    if len(st.body) != 1 or len(st.orelse) != 1:
        return False
    a, b = st.body[0], st.orelse[0]
    if not (isinstance(a, ast.Assign) and isinstance(b, ast.Assign) and len(a.targets) == 1 and len(b.targets) == 1):
        return False
    if not (isinstance(a.targets[0], ast.Name) and isinstance(b.targets[0], ast.Name) and a.targets[0].id == b.targets[0].id):
        return False
    X = a.targets[0].id
    m = re.fullmatch(r'len\((\w+)\) == 0', ast.unparse(st.test))
    if not m or m.group(1) != X:
        return False
    m2 = re.fullmatch(r'(\w+)\.copy\(\)', ast.unparse(a.value))
    if not m2:
        return False
    Y = m2.group(1)
    return ast.unparse(b.value) == f'pd.concat([{X}, {Y}.copy()])'


def _is_dropped(st):
    if isinstance(st, ast.Pass):
        return True
    if isinstance(st, ast.Expr):
        v = st.value
        if isinstance(v, ast.Constant):
            return True
        if isinstance(v, ast.Call) and isinstance(v.func, ast.Name) and v.func.id == 'print':
            return True
    return False


def _sz(t):
    if is_z3(t):
        t = z3.simplify(t)
        c = concrete_int(t)
        return c if c is not None else t
    return t


def _as_load(t):
    import copy
    t2 = copy.copy(t)
    t2.ctx = ast.Load()
    return t2


def _as_store(t):
    import copy
    t2 = copy.copy(t)
    t2.ctx = ast.Store()
    return t2


def subst_value(v, k, t):
    """value v with the loop variable k replaced by term t (z3 terms, time stamps, arrays, tuples)"""
    if is_z3(v):
        return z3.substitute(v, (k, lift(t)))
    if isinstance(v, TS):
        return TS(subst_value(v.t, k, t), v.tz)
    if isinstance(v, TD):
        return TD(subst_value(v.d, k, t))
    if isinstance(v, Arr):
        f0 = v.f
        out = Arr(subst_value(v.n, k, t), lambda i, f0=f0: subst_value(f0(i), k, t), kind=v.kind)
        return out
    if isinstance(v, (tuple, list)):
        return type(v)(subst_value(x, k, t) for x in v)
    if isinstance(v, Opt):
        return Opt(subst_value(v.null, k, t), subst_value(v.val, k, t))
    return v


def free_consts(t):
    """names of uninterpreted constants occurring in term t"""
    out = set()
    seen = set()
    stack = [t]
    while stack:
        x = stack.pop()
        if x.get_id() in seen:
            continue
        seen.add(x.get_id())
        if z3.is_quantifier(x):
            stack.append(x.body())
            continue
        if z3.is_app(x):
            if x.num_args() == 0 and x.decl().kind() == z3.Z3_OP_UNINTERPRETED:
                out.add(x.decl().name())
            stack.extend(x.children())
    return out


def free_funcs(t):
    out = set()
    seen = set()
    stack = [t]
    while stack:
        x = stack.pop()
        if x.get_id() in seen:
            continue
        seen.add(x.get_id())
        if z3.is_quantifier(x):
            stack.append(x.body())
            continue
        if z3.is_app(x):
            if x.decl().kind() == z3.Z3_OP_UNINTERPRETED:
                out.add(x.decl().name())
            stack.extend(x.children())
    return out


def solve_unit(expr, v, target):
    """If expr = v + e with e free of v, return target - e (the solution of expr == target)."""
    if not is_z3(expr) or not z3.is_int(expr):
        return None
    e = z3.simplify(expr - v)
    if v.decl().name() in free_consts(e):
        e2 = z3.simplify(expr + v)      # expr = -v + e2
        if v.decl().name() in free_consts(e2):
            return None
        return z3.simplify(e2 - target)
    return z3.simplify(target - e)


def loop_bounds(guard, k, with_rest=False):
    """recover lo <= k < hi from a conjunction (syntactic); optionally also the remaining conjuncts"""
    lo = hi = None
    rest = []
    stack = [guard]
    while stack:
        g = stack.pop()
        if z3.is_and(g):
            stack.extend(reversed(g.children()))
            continue
        hit = False
        if z3.is_app(g) and g.num_args() == 2:
            a, b = g.children()
            kd = g.decl().kind()
            if kd == z3.Z3_OP_GE and a.eq(k) and lo is None:
                lo, hit = b, True
            elif kd == z3.Z3_OP_LT and a.eq(k) and hi is None:
                hi, hit = b, True
            elif kd == z3.Z3_OP_LE and b.eq(k) and lo is None:
                lo, hit = a, True
            elif kd == z3.Z3_OP_GT and b.eq(k) and hi is None:
                hi, hit = a, True
        if not hit and not z3.is_true(g):
            rest.append(g)
    if with_rest:
        return lo, hi, rest
    return lo, hi


def loop_carried(st):
    """Names / simple attributes (x.attr) that the loop body may read before it assigns them
    (conservative syntactic def-use scan in statement order)."""
    assigned_anywhere = set()
    attr_assigned = set()
    append_names, append_attrs = set(), set()
    extend_names = set()
    for n in ast.walk(st):
        if isinstance(n, ast.Name) and isinstance(n.ctx, ast.Store):
            assigned_anywhere.add(n.id)
        if isinstance(n, ast.Attribute) and isinstance(n.ctx, ast.Store) and isinstance(n.value, ast.Name):
            attr_assigned.add((n.value.id, n.attr))
        if isinstance(n, ast.AugAssign):
            t = n.target
            if isinstance(t, ast.Name):
                assigned_anywhere.add(t.id)
            elif isinstance(t, ast.Attribute) and isinstance(t.value, ast.Name):
                attr_assigned.add((t.value.id, t.attr))
    for n in ast.walk(st):
        if isinstance(n, ast.Call) and isinstance(n.func, ast.Attribute) and n.func.attr in ('append', 'extend'):
            tgt = n.func.value
            if isinstance(tgt, ast.Name):
                assigned_anywhere.add(tgt.id)
                append_names.add(tgt.id)
                if n.func.attr == 'extend':
                    extend_names.add(tgt.id)
            elif isinstance(tgt, ast.Attribute) and isinstance(tgt.value, ast.Name):
                attr_assigned.add((tgt.value.id, tgt.attr))
                append_attrs.add((tgt.value.id, tgt.attr))
    # loop targets are defined by the loop itself
    defined = set()
    for n in ast.walk(st.target):
        if isinstance(n, ast.Name):
            defined.add(n.id)
    carried = set()
    carried_attrs = set()

    def visit_expr(e, defined_now):
        for n in ast.walk(e):
            if isinstance(n, ast.Name) and isinstance(n.ctx, ast.Load):
                if n.id in assigned_anywhere and n.id not in defined_now:
                    carried.add(n.id)
            if isinstance(n, ast.Attribute) and isinstance(n.ctx, ast.Load) and isinstance(n.value, ast.Name):
                if (n.value.id, n.attr) in attr_assigned:
                    carried_attrs.add((n.value.id, n.attr))

    def visit_block(body, defined_now):
        for s in body:
            if isinstance(s, ast.Assign):
                visit_expr(s.value, defined_now)
                for t in s.targets:
                    for n in ast.walk(t):
                        if isinstance(n, ast.Name) and isinstance(n.ctx, ast.Store):
                            defined_now.add(n.id)
                        elif isinstance(n, ast.Name):
                            visit_expr(n, defined_now)
                    if isinstance(t, (ast.Subscript, ast.Attribute)):
                        visit_expr(t.value if isinstance(t, ast.Subscript) else t.value, defined_now)
                        if isinstance(t, ast.Subscript):
                            visit_expr(t.slice, defined_now)
            elif isinstance(s, ast.AugAssign):
                visit_expr(s.value, defined_now)
                t = s.target
                if isinstance(t, ast.Name):
                    if t.id not in defined_now:
                        carried.add(t.id)
                elif isinstance(t, ast.Attribute) and isinstance(t.value, ast.Name):
                    carried_attrs.add((t.value.id, t.attr))
                else:
                    visit_expr(t, defined_now)
            elif isinstance(s, ast.If):
                visit_expr(s.test, defined_now)
                d1, d2 = set(defined_now), set(defined_now)
                visit_block(s.body, d1)
                visit_block(s.orelse, d2)
                defined_now |= (d1 & d2)
            elif isinstance(s, ast.For):
                visit_expr(s.iter, defined_now)
                d1 = set(defined_now)
                for n in ast.walk(s.target):
                    if isinstance(n, ast.Name):
                        d1.add(n.id)
                visit_block(s.body, d1)
            elif isinstance(s, (ast.Expr, ast.Return, ast.Assert)):
                for ch in ast.iter_child_nodes(s):
                    visit_expr(ch, defined_now)
            else:
                for ch in ast.iter_child_nodes(s):
                    if isinstance(ch, ast.expr):
                        visit_expr(ch, defined_now)
    visit_block(st.body, set(defined))
    return dict(names=carried | append_names, attrs=carried_attrs | append_attrs, extend_names=extend_names)
