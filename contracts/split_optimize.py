"""Contract for eaopack.optimization: SplitOptimProblem.optimize  (C14 "value is the sum of the interval optima", C03 "concatenation of
interval solutions", C18: the nodal duals of the intervals are concatenated in interval order -- the order in which
SplitOptimProblem.__init__ concatenates the intervals' map_nodal_restr).

Harness: two interval problems (Python list: the loop is unrolled -- the number of intervals is a bound of this harness); each interval's
optimize() is the callee contract of OptimProblem.optimize (Results with value, x of the interval's length, duals per row class or None).
An interval that is not solved (a status string instead of Results) makes the run report that status (case second_fails; fix D20)."""
import z3

from pyvc import sym, spec as S
from pyvc.sym import Arr, Obj, Havoc, lift
from .common import Contract, register


@register
class SplitOptimize(Contract):
    qualname = 'optimization:SplitOptimProblem.optimize'
    prefix = 'C14.split_optimize'
    properties = ('C14', 'C03', 'C18')

    def cases(self):
        return [dict(duals='both'), dict(duals='none'), dict(duals='second_mip'), dict(duals='second_fails')]

    def harness(self, H, case):
        ops, results = [], []
        for k in range(2):
            n, nN = H.int(f'n{k}'), H.int(f'nN{k}')
            H.assume(z3.And(n >= 0, nN >= 0))
            x = H.real_arr(f'x{k}', n)
            if case['duals'] == 'none' or (case['duals'] == 'second_mip' and k == 1):
                d = None
            else:
                d = {'N': H.real_arr(f'dualN{k}', nN), 'bound_u': H.real_arr(f'dualU{k}', n), 'S': None}
            r = Obj('Results', value=H.real(f'value{k}'), x=x, duals=d)
            if case['duals'] == 'second_fails' and k == 1:
                r = 'not successful'          # the interval is not solved: its optimize() returns a status string
            op = Obj('OptimProblem', __result__=r)
            ops.append(op)
            results.append(r)
        self_obj = Obj('SplitOptimProblem', ops=ops)
        return dict(self_obj=self_obj, ops=ops, results=results, args=[],
                    snapshot=[(r.get('value'), r.get('x'), r.get('duals') and dict(r.get('duals'))) if isinstance(r, Obj) else None for r in results])

    def callees(self, case, ctx=None):
        def opt(I, self_obj, args, kwargs):
            ctx.setdefault('calls', []).append(self_obj)
            return self_obj.get('__result__')

        def results(I, self_obj, args, kwargs):
            vals = dict(zip(['value', 'x', 'duals'], args))
            vals.update(kwargs)
            return Obj('Results', **vals)
        return {'optimization:OptimProblem.optimize': opt, 'optimization:Results': results}

    def post(self, H, case, outcome, I, ctx):
        if outcome[0] != 'return':
            yield ('C14.split_optimize.no_raise', False if outcome[0] == 'raise' else Havoc(outcome[1]))
            return
        res = outcome[1]
        snap = ctx['snapshot']
        if case['duals'] == 'second_fails':
            # C03 / C14: an interval that is not solved makes the split run report that status (no partial result)
            yield ('C14.split_optimize.failure_of_an_interval_is_reported', res == 'not successful')
            return
        yield ('C14.split_optimize.every_interval_solved_once_in_order', ctx.get('calls') == ctx['ops'])
        ok = isinstance(res, Obj) and res.cls == 'Results' and isinstance(res.get('x'), Arr)
        yield ('C14.split_optimize.returns_results', ok)
        if not ok:
            return
        yield ('C14.value_is_sum_of_interval_optima', sym.cmpop('Eq', res.get('value'), snap[0][0] + snap[1][0]))
        x, (x0, x1) = res.get('x'), (snap[0][1], snap[1][1])
        i = z3.Int('i')
        yield ('C03.split.solution_is_concatenation_of_interval_solutions', z3.And(lift(x.n) == lift(x0.n) + lift(x1.n), z3.ForAll([i], z3.And(
            z3.Implies(z3.And(i >= 0, i < lift(x0.n)), lift(x.f(i)) == x0.f(i)),
            z3.Implies(z3.And(i >= 0, i < lift(x1.n)), lift(x.f(lift(x0.n) + i)) == x1.f(i))))))
        d = res.get('duals')
        if case['duals'] == 'none':
            yield ('C18.split.no_duals_without_duals', d is None)
        elif case['duals'] == 'both':
            okd = isinstance(d, dict) and isinstance(d.get('N'), Arr)
            yield ('C18.split.duals_by_class', okd)
            if okd:
                a, b = snap[0][2]['N'], snap[1][2]['N']
                dn = d['N']
                yield ('C18.split.nodal_duals_concatenated_in_interval_order', z3.And(lift(dn.n) == lift(a.n) + lift(b.n), z3.ForAll([i], z3.And(
                    z3.Implies(z3.And(i >= 0, i < lift(a.n)), lift(dn.f(i)) == a.f(i)),
                    z3.Implies(z3.And(i >= 0, i < lift(b.n)), lift(dn.f(lift(a.n) + i)) == b.f(i))))))
                yield ('C18.split.absent_class_stays_absent', d.get('S') is None)


@register
class SplitInit(Contract):
    """SplitOptimProblem.__init__: the joint cost vector and the joint record of nodal rows are the intervals' in interval order -- the same
    order in which optimize() concatenates the interval solutions and duals (C04 split accounting, C18 placement of split nodal prices)."""
    qualname = 'optimization:SplitOptimProblem.__init__'
    prefix = 'C14.split_init'
    properties = ('C14', 'C04', 'C18')

    def cases(self):
        return [dict(nodal=True), dict(nodal=False)]

    def harness(self, H, case):
        ops = []
        for k in range(2):
            n = H.int(f'n{k}')
            H.assume(n >= 0)
            ops.append(Obj('OptimProblem', c=H.real_arr(f'c{k}', n), map_nodal_restr=Obj('list', __token__=f'map_nodal_restr of interval {k}') if case['nodal'] else None))
        mapping = Obj('DataFrame', __token__='joint mapping')
        self_obj = Obj('SplitOptimProblem')
        return dict(self_obj=self_obj, ops=ops, mapping=mapping, args=[ops, mapping])

    def post(self, H, case, outcome, I, ctx):
        if outcome[0] != 'return':
            yield ('C14.split_init.no_raise', False if outcome[0] == 'raise' else Havoc(outcome[1]))
            return
        so, ops = ctx['self_obj'], ctx['ops']
        yield ('C14.split_init.keeps_intervals_and_mapping', so.has('ops') and so.get('ops') is ops and so.get('mapping') is ctx['mapping'])
        c = so.get('c') if so.has('c') else None
        ok = isinstance(c, Arr)
        yield ('C04.split.joint_cost_vector', ok)
        if ok:
            c0, c1 = ops[0].get('c'), ops[1].get('c')
            i = z3.Int('i')
            yield ('C04.split.joint_cost_vector_is_concatenation_in_interval_order', z3.And(lift(c.n) == lift(c0.n) + lift(c1.n), z3.ForAll([i], z3.And(
                z3.Implies(z3.And(i >= 0, i < lift(c0.n)), lift(c.f(i)) == c0.f(i)),
                z3.Implies(z3.And(i >= 0, i < lift(c1.n)), lift(c.f(lift(c0.n) + i)) == c1.f(i))))))
        rec = so.get('map_nodal_restr') if so.has('map_nodal_restr') else Havoc('no record')
        if not case['nodal']:
            yield ('C18.split.no_record_without_records', rec is None)
        else:
            parts = rec.get('__parts__') if isinstance(rec, Obj) and rec.has('__parts__') else ([rec] if isinstance(rec, Obj) else None)
            yield ('C18.split.joint_record_is_concatenation_in_interval_order', parts is not None and len(parts) == 2 and
                   parts[0] is ops[0].get('map_nodal_restr') and parts[1] is ops[1].get('map_nodal_restr'))
