"""Contract for the nodal-restriction builder nested in eaopack.portfolio: Portfolio.setup_optim_problem.<locals>.create_nodal_restr
(C01 nodal balance, C07 one nodal row per (node, step) that has dispatch, C18 record of (step, node) per nodal row).

What the assembly contract (contracts/portfolio_asm.py) consumes is the triple (cols, rows, vals) of E sparse entries for N
rows and the record `expl`.  Proved here, for every mapping (any number of rows per variable, any order, any dispatch
factors) and a symbolic number of time steps:

  C01.nodal.entries_are_the_dispatch_rows     the entries are in one-to-one correspondence with the mapping rows of type 'd'
                                              at a (non-skipped) node: entry e of row p has column = variable of p, value =
                                              dispatch factor of p, and lies in the nodal row recorded for (step of p, node of p)
  C07.nodal.one_row_per_active_node_step      the recorded (step, node) pairs are pairwise distinct, each has dispatch, and
                                              every (node, step) with dispatch has its row;  N = number of records
  C18.rowmap.records_step_and_node            expl[r] = (t, n) of the entries in row r

From these:  sum over the entries of row r of value x x[column]  =  sum over the dispatch rows p at (n, t) of
disp_factor(p) x x[variable(p)]  =  net flow at node n in step t, and the assembly contract proves that this row is an
equality with right-hand side 0 (C01.asm.nodal_block / nodal_rhs): the nodal balance.

The loop over the time steps has a data-dependent counter and appends segments of data-dependent length: it is verified
against a loop invariant (pyvc.interp.invariant_for) with ghost witnesses
   pi    : entry -> mapping row          sigma : mapping row -> entry          omega : nodal row -> one of its mapping rows
updated by ghost code from the selection functions of the iteration's mask (A2).  The loop over the nodes is a Python list
of two nodes (unrolled); with skip_nodes None or a list containing the second node.
"""
import z3

from pyvc import sym, spec as S
from pyvc.sym import Arr, Obj, Havoc, lift, to_bool
from .common import Contract, register


def _R(x):
    x = lift(x)
    return z3.ToReal(x) if z3.is_int(x) else x


class _StepLoop:
    label = 'C01.nodal.loop'
    names = ('cols', 'rows', 'vals', 'n_nodal_restr', 'nodal_restr_map_expl', 'map_nodal_restr', '__pi', '__sigma', '__omega')

    def __init__(self, ctx):
        self.c = ctx

    # ---- helpers
    def node_pos(self, env):
        n = env['n']
        for m, nm in enumerate(self.c['nodes']):
            if nm is n:
                return m
        raise sym.Unsupported('loop over an unknown node')

    def done(self, env, k):
        """D(p, k): mapping row p is a dispatch row whose entry has been produced when iteration k of the current node starts"""
        c = self.c
        m = self.node_pos(env)
        earlier = [nm for nm in c['active_nodes'] if c['nodes'].index(nm) < m]
        cur = c['nodes'][m]

        def D(p):
            alts = [c['node'](p) == nm for nm in earlier] + [z3.And(c['node'](p) == cur, c['ts'](p) < k)]
            return z3.And(c['type'](p) == sym.strlit('d'), z3.Or(*alts))
        return D

    def ghost_init(self, I, env):
        z = z3.Function(sym.fresh_name('ghost0'), z3.IntSort(), z3.IntSort())
        return {'__pi': z, '__sigma': z, '__omega': z}

    def fresh(self, I, k, env, tag):
        c = self.c
        E, cnt = z3.Int(sym.fresh_name('E_' + tag)), z3.Int(sym.fresh_name('c_' + tag))
        fr = lambda nm: z3.Function(sym.fresh_name(nm + '_' + tag), z3.IntSort(), z3.RealSort())
        fc, frw, fv, fm = fr('cols'), fr('rows'), fr('vals'), fr('mnr')
        et = z3.Function(sym.fresh_name('expl_t_' + tag), z3.IntSort(), z3.IntSort())
        en = z3.Function(sym.fresh_name('expl_n_' + tag), z3.IntSort(), sym.Str)
        gi = lambda nm: z3.Function(sym.fresh_name(nm + '_' + tag), z3.IntSort(), z3.IntSort())
        return {'cols': Arr(E, lambda i: fc(lift(i))), 'rows': Arr(E, lambda i: frw(lift(i))), 'vals': Arr(E, lambda i: fv(lift(i))),
                'n_nodal_restr': cnt, 'nodal_restr_map_expl': Arr(cnt, lambda r: (et(lift(r)), en(lift(r))), kind='list'),
                'map_nodal_restr': Arr(c['R'], lambda i: fm(lift(i))), '__pi': gi('pi'), '__sigma': gi('sigma'), '__omega': gi('omega')}

    def ghost_step(self, I, k, before, after, env):
        c = self.c
        cur = c['nodes'][self.node_pos(env)]
        mask = Arr(c['R'], lambda p: z3.And(c['type'](lift(p)) == sym.strlit('d'), c['node'](lift(p)) == cur, c['ts'](lift(p)) == k))
        cnt, sel, rank = sym.COMP.get(mask)
        E0, c0 = lift(before['cols'].n), lift(before['n_nodal_restr'])
        pi0, sg0, om0 = before['__pi'], before['__sigma'], before['__omega']
        e, p, r = z3.Ints('gh!e gh!p gh!r')
        pi1 = z3.Function(sym.fresh_name('pi_next'), z3.IntSort(), z3.IntSort())
        sg1 = z3.Function(sym.fresh_name('sigma_next'), z3.IntSort(), z3.IntSort())
        om1 = z3.Function(sym.fresh_name('omega_next'), z3.IntSort(), z3.IntSort())
        I.assume(z3.ForAll([e], pi1(e) == z3.If(e < E0, pi0(e), sel(e - E0)), patterns=[pi1(e)]))
        I.assume(z3.ForAll([p], sg1(p) == z3.If(to_bool(mask.f(p)), E0 + rank(p), sg0(p)), patterns=[sg1(p)]))
        I.assume(z3.ForAll([r], om1(r) == z3.If(r == c0, sel(0), om0(r)), patterns=[om1(r)]))
        return {'__pi': pi1, '__sigma': sg1, '__omega': om1}

    def inv(self, I, k, st, env):
        c = self.c
        D = self.done(env, k)
        cols, rows, vals, cnt, expl = st['cols'], st['rows'], st['vals'], lift(st['n_nodal_restr']), st['nodal_restr_map_expl']
        pi, sg, om = st['__pi'], st['__sigma'], st['__omega']
        if isinstance(expl, list):
            expl = sym.arr_from_list(expl) if expl else Arr(0, lambda rr: (z3.IntVal(0), c['nodes'][0]), kind='list')
        E = lift(cols.n)
        R = c['R']
        e, e2, p, r, r2 = z3.Ints('inv!e inv!e2 inv!p inv!r inv!r2')
        yield ('sizes', z3.And(E >= 0, cnt >= 0, lift(rows.n) == E, lift(vals.n) == E, lift(expl.n) == cnt))
        if z3.is_true(z3.simplify(E == 0)) and z3.is_true(z3.simplify(cnt == 0)):
            return
        et = lambda rr: expl.f(rr)[0]
        en = lambda rr: expl.f(rr)[1]
        row_of = lambda ee: z3.ToInt(_R(rows.f(ee)))
        yield ('entry_is_a_dispatch_row', z3.ForAll([e], z3.Implies(z3.And(e >= 0, e < E), z3.And(
            pi(e) >= 0, pi(e) < R, D(pi(e)), _R(cols.f(e)) == _R(c['idx'](pi(e))), _R(vals.f(e)) == c['dispf'](pi(e)),
            z3.IsInt(_R(rows.f(e))), row_of(e) >= 0, row_of(e) < cnt,
            lift(et(row_of(e))) == c['ts'](pi(e)), lift(en(row_of(e))) == c['node'](pi(e)), sg(pi(e)) == e)),
            patterns=[pi(e)] + [t for t in (lift(cols.f(e)), lift(rows.f(e)), lift(vals.f(e))) if z3.is_app(t) and t.decl().kind() == z3.Z3_OP_UNINTERPRETED and t.num_args() == 1]))
        yield ('every_dispatch_row_has_its_entry', z3.ForAll([p], z3.Implies(z3.And(p >= 0, p < R, D(p)), z3.And(
            sg(p) >= 0, sg(p) < E, pi(sg(p)) == p)), patterns=[sg(p)]))
        ni = lambda rr: z3.If(lift(en(rr)) == c['nodes'][0], 0, 1)
        yield ('records_ordered_by_node_then_step', z3.ForAll([r, r2], z3.Implies(z3.And(r >= 0, r < r2, r2 < cnt), z3.Or(
            ni(r) < ni(r2), z3.And(ni(r) == ni(r2), lift(et(r)) < lift(et(r2)))))))
        yield ('record_has_dispatch', z3.ForAll([r], z3.Implies(z3.And(r >= 0, r < cnt), z3.And(
            om(r) >= 0, om(r) < R, D(om(r)), c['ts'](om(r)) == lift(et(r)), c['node'](om(r)) == lift(en(r)),
            z3.Or(*[lift(en(r)) == nm for nm in c['active_nodes']]))), patterns=[om(r)]))


@register
class CreateNodalRestr(Contract):
    qualname = 'portfolio:Portfolio.setup_optim_problem.<locals>.create_nodal_restr'
    prefix = 'C01.nodal'
    properties = ('C01', 'C07', 'C18')

    def cases(self):
        return [dict(skip=None), dict(skip='second')]

    def harness(self, H, case):
        R, T, n_vars = H.int('n_maprows'), H.int('T'), H.int('n_vars')
        H.assume(z3.And(R >= 0, T >= 0, n_vars >= 0))
        idx = H.fun('map_index', z3.IntSort(), z3.IntSort())
        ts = H.fun('map_time_step', z3.IntSort(), z3.IntSort())
        node = H.fun('map_node', z3.IntSort(), sym.Str)
        typ = H.fun('map_type', z3.IntSort(), sym.Str)
        dispf = H.fun('map_disp_factor', z3.IntSort(), z3.RealSort())
        p = z3.Int('h!p')
        # WF of the assembled mapping (C07.asm): steps on the grid, indices are variables
        H.assume(z3.ForAll([p], z3.Implies(z3.And(p >= 0, p < R), z3.And(ts(p) >= 0, ts(p) < T)), patterns=[ts(p)]))
        H.assume(z3.ForAll([p], z3.Implies(z3.And(p >= 0, p < R), z3.And(idx(p) >= 0, idx(p) < n_vars)), patterns=[idx(p)]))
        nodes = [H.str('nodeA'), H.str('nodeB')]
        H.assume(nodes[0] != nodes[1])
        skip = None if case['skip'] is None else [nodes[1]]
        active = [nm for nm in nodes if skip is None or nm is not nodes[1]]
        arr = lambda f: Arr(R, lambda q: f(lift(q)))
        args = [list(nodes), arr(node), arr(typ), arr(idx), arr(dispf), arr(ts), Arr(T, lambda k: lift(k)), skip, n_vars]
        for a, nm in zip(args[1:6], ('map_nodes', 'map_types', 'map_idx', 'map_dispf', 'map_times')):
            H.protect[id(a)] = nm
        # the nested function may refer to the enclosing set-up's `self` (the portfolio with its grid): free variable of the closure
        dtf = H.fun('g_dt', z3.IntSort(), z3.RealSort())
        portfolio = Obj('Portfolio', timegrid=Obj('Timegrid', T=T, I=Arr(T, lambda k: lift(k)), dt=Arr(T, lambda k: dtf(lift(k)))))
        return dict(args=args, R=R, T=T, idx=idx, ts=ts, node=node, type=typ, dispf=dispf, nodes=nodes, active_nodes=active, n_vars=n_vars,
                    closure=dict(self=portfolio))

    def loops(self, case, ctx):
        return {('portfolio:Portfolio.create_nodal_restr', 1): _StepLoop(ctx), ('portfolio:create_nodal_restr', 1): _StepLoop(ctx)}

    def post(self, H, case, outcome, I, ctx):
        if outcome[0] != 'return':
            yield ('C01.nodal.no_raise', False if outcome[0] == 'raise' else Havoc(outcome[1]))
            return
        ret = outcome[1]
        ok = isinstance(ret, tuple) and len(ret) == 5 and all(isinstance(x, Arr) for x in ret[:4])
        yield ('C01.nodal.returns_triple_record_and_count', ok)
        if not ok:
            return
        cols, rows, vals, expl, N = ret
        c = ctx
        R, E = c['R'], lift(cols.n)
        st = I.final_ghost if hasattr(I, 'final_ghost') else None
        pi, sg, om = (I.last_frame_env.get(g) for g in ('__pi', '__sigma', '__omega')) if hasattr(I, 'last_frame_env') else (None, None, None)
        if pi is None:
            yield ('C01.nodal.ghost_witnesses_available', False)
            return
        Dfull = lambda p: z3.And(c['type'](p) == sym.strlit('d'), z3.Or(*[c['node'](p) == nm for nm in c['active_nodes']]))
        e, e2, p, r, r2 = z3.Ints('po!e po!e2 po!p po!r po!r2')
        et = lambda rr: expl.f(rr)[0]
        en = lambda rr: expl.f(rr)[1]
        row_of = lambda ee: z3.ToInt(_R(rows.f(ee)))
        yield ('C01.nodal.sizes', z3.And(lift(rows.n) == E, lift(vals.n) == E, lift(expl.n) == lift(N), lift(N) >= 0))
        yield ('C01.nodal.entries_are_the_dispatch_rows', z3.And(
            z3.ForAll([e], z3.Implies(z3.And(e >= 0, e < E), z3.And(
                pi(e) >= 0, pi(e) < R, Dfull(pi(e)), _R(cols.f(e)) == _R(c['idx'](pi(e))), _R(vals.f(e)) == c['dispf'](pi(e)),
                row_of(e) >= 0, row_of(e) < lift(N), _R(rows.f(e)) == z3.ToReal(row_of(e)),
                lift(et(row_of(e))) == c['ts'](pi(e)), lift(en(row_of(e))) == c['node'](pi(e))))),
            # one entry per dispatch row, none twice
            z3.ForAll([p], z3.Implies(z3.And(p >= 0, p < R, Dfull(p)), z3.And(sg(p) >= 0, sg(p) < E, pi(sg(p)) == p))),
            z3.ForAll([e, e2], z3.Implies(z3.And(e >= 0, e < e2, e2 < E), pi(e) != pi(e2)))))
        yield ('C07.nodal.one_row_per_active_node_step', z3.And(
            z3.ForAll([r, r2], z3.Implies(z3.And(r >= 0, r < r2, r2 < lift(N)), z3.Or(lift(et(r)) != lift(et(r2)), lift(en(r)) != lift(en(r2))))),
            z3.ForAll([r], z3.Implies(z3.And(r >= 0, r < lift(N)), z3.And(om(r) >= 0, om(r) < R, Dfull(om(r)), c['ts'](om(r)) == lift(et(r)),
                                                                            c['node'](om(r)) == lift(en(r))))),
            z3.ForAll([p], z3.Implies(z3.And(p >= 0, p < R, Dfull(p)), z3.And(row_of(sg(p)) >= 0, row_of(sg(p)) < lift(N),
                                                                              lift(et(row_of(sg(p)))) == c['ts'](p), lift(en(row_of(sg(p)))) == c['node'](p))))))
        yield ('C18.rowmap.records_step_and_node', z3.ForAll([r], z3.Implies(z3.And(r >= 0, r < lift(N)), z3.And(
            lift(et(r)) >= 0, lift(et(r)) < c['T'], z3.Or(*[lift(en(r)) == nm for nm in c['active_nodes']])))))
        yield ('C01.nodal.columns_are_variables', z3.ForAll([e], z3.Implies(z3.And(e >= 0, e < E), z3.And(_R(cols.f(e)) >= 0, _R(cols.f(e)) < _R(c['n_vars'])))))


    # ------------------------------------------------------------------ run-time twin: the nested function is extracted
    # mechanically from the real source (ast; nothing dropped; its closure variable `self` is a stand-in portfolio with a non-uniform
    # grid) and executed on random mappings
    def schema(self, case):
        return [('n_maprows', 'int', None), ('T', 'int', None)]

    def sample(self, case, rng):
        from pyvc import native as N
        R, T, nv = rng.randint(0, 7), rng.randint(1, 4), rng.randint(1, 5)
        return N.Params(n_maprows=R, T=T, n_vars=nv, idx=[rng.randint(0, nv - 1) for _ in range(R)], ts=[rng.randint(0, T - 1) for _ in range(R)],
                        node=[rng.choice(['nodeA', 'nodeB', 'nodeB', 'other']) for _ in range(R)], type=[rng.choice(['d', 'd', 'd', 'i', 'size']) for _ in range(R)],
                        dispf=[rng.choice([1., 1., -1., .9, .5]) for _ in range(R)])

    def native(self, case, P):
        import ast as _ast
        import os
        import numpy as np
        root = os.environ.get('PYVC_REPO', '/repo')
        src = open(os.path.join(root, 'eaopack', 'portfolio.py')).read()
        fn = next(n for n in _ast.walk(_ast.parse(src)) if isinstance(n, _ast.FunctionDef) and n.name == 'create_nodal_restr')
        import types
        T_ = int(P['T'])
        dt_ = np.asarray([[1., .5, 2., .25][k % 4] for k in range(T_)])
        # closure of the nested function: the enclosing portfolio (with a grid whose steps differ in length)
        ns = {'np': np, 'self': types.SimpleNamespace(timegrid=types.SimpleNamespace(T=T_, I=np.arange(T_), dt=dt_), nodes={})}
        exec(compile(_ast.Module(body=[fn], type_ignores=[]), 'portfolio.py:create_nodal_restr', 'exec'), ns)
        f = ns['create_nodal_restr']
        nodes = ['nodeA', 'nodeB']
        skip = None if case['skip'] is None else ['nodeB']
        R = int(P['n_maprows'])
        a = lambda key, dt: np.asarray(list(P[key])[:R], dtype=dt)
        args = (nodes, a('node', object), a('type', object), a('idx', np.int64), a('dispf', float), a('ts', np.int64), np.arange(int(P['T'])), skip, int(P['n_vars']))
        ctx = dict(native_args=args, active=[n for n in nodes if skip is None or n not in skip], P=P, R=R)
        return (lambda: f(*args)), ctx


_sym_post = CreateNodalRestr.post


def _post(self, H, case, outcome, I, ctx):
    if I is not None:
        yield from _sym_post(self, H, case, outcome, I, ctx)
        return
    if outcome[0] != 'return':
        yield ('C01.nodal.no_raise', False)
        return
    P, R = ctx['P'], ctx['R']
    cols, rows, vals, expl, N = outcome[1]
    E = int(cols.n)
    ent = sorted((int(round(rows.f(e))), int(round(cols.f(e))), float(vals.f(e))) for e in range(E))
    recs = [tuple(x) for x in expl]
    disp = [p for p in range(R) if P['type'][p] == 'd' and P['node'][p] in ctx['active']]
    pairs = sorted({(int(P['ts'][p]), P['node'][p]) for p in disp}, key=lambda x: (ctx['active'].index(x[1]), x[0]))
    ok_rec = [(int(t), n) for (t, n) in recs] == pairs and int(N) == len(pairs)
    yield ('C07.nodal.one_row_per_active_node_step', ok_rec)
    yield ('C18.rowmap.records_step_and_node', ok_rec)
    yield ('C01.nodal.sizes', int(rows.n) == E and int(vals.n) == E)
    if ok_rec:
        want = sorted((pairs.index((int(P['ts'][p]), P['node'][p])), int(P['idx'][p]), float(P['dispf'][p])) for p in disp)
        yield ('C01.nodal.entries_are_the_dispatch_rows', ent == want)
    yield ('C01.nodal.columns_are_variables', all(0 <= c < int(P['n_vars']) for (_, c, _) in ent))


CreateNodalRestr.post = _post
