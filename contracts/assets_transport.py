"""Contract for eaopack.assets: Transport.setup_optim_problem  (C01, C02, C07, C08, C10, C12, C17).

LP_Transport, from the parameter documentation ("min_cap/max_cap: flow/capacity for transporting
from node 1 to node 2; efficiency of transport; costs_time_series / costs_const: costs for
transporting") and C02 ("per-flow costs", "per-step volume limit = rate x step length", discounting):

  one flow variable x_i per step of the window,  min_cap*dt_i <= x_i <= max_cap*dt_i,
  cost of step i = (cts_i + costs_const) * |x_i| * df_i,
  what leaves node 1 is x_i (factor -1), what arrives at node 2 is efficiency * x_i.

|x| is linear only if the flow cannot change sign (or the cost is zero); the class refuses other
parameter sets (NotImplementedError), and the contract says exactly when it may do so.
"""
import z3

from pyvc import sym, spec as S
from pyvc.sym import Arr, Obj, DF, Havoc, lift
from .common import (Contract, register, mk_root_grid, mk_restricted, disc_fun, set_timegrid_handler, mk_node,
                     OptimProblemInit)


@register
class TransportSetup(Contract):
    qualname = 'assets:Transport.setup_optim_problem'
    prefix = 'C02.transport'
    properties = ('C01', 'C02', 'C07', 'C08', 'C10', 'C12', 'C17')

    def cases(self):
        out = []
        for cts in (None, 'c'):
            for costs_only in (False, True):
                for tg in ('given', 'preset', 'same'):
                    if tg != 'given' and costs_only:
                        continue
                    out.append(dict(cts=cts, costs_only=costs_only, tg=tg))
        return out

    def harness(self, H, case):
        g = mk_root_grid(H)
        df = disc_fun(H)
        R = mk_restricted(H, g, df=df)
        nodes = [mk_node(H, 'node0'), mk_node(H, 'node1')]
        vals = {p: H.real(p) for p in ('min_cap', 'max_cap', 'costs_const', 'efficiency')}
        H.assume(vals['min_cap'] <= vals['max_cap'])     # Transport.__init__ asserts
        H.assume(vals['efficiency'] > 0)
        # excluded corner (stated in the evidence): a cost series of length 1 is treated as a scalar by the code and
        # relies on numpy's length-1 broadcasting, which the array model does not cover
        self_obj = Obj('Transport', name=H.str('asset_name'), nodes=nodes, wacc=H.real('wacc'), start=None, end=None,
                       freq=None, profile=None, costs_time_series=case['cts'], periodicity=None, periodicity_duration=None,
                       **vals)
        Tc = H.int('len_costs')
        H.assume(Tc != 1)
        prices = {'c': H.real_arr('cts', Tc)}
        ctx = dict(g=g, R=R, df=df, self_obj=self_obj, prices=prices, Tc=Tc, vals=vals)
        if case['tg'] == 'preset':
            # the grid was set before (set_timegrid) and is NOT passed again; meanwhile ANOTHER asset sharing the grid object has
            # overwritten its derived cache (other window, other wacc): the set-up derives the asset's own part anew (C10; defect D42 of
            # the pinned tree: the stale cache was used)
            self_obj.set('timegrid', g)
            pdf = disc_fun(H, 'stale')
            g.set('restricted', mk_restricted(H, g, pfx='stale', df=pdf))
            g.set('discount_factors', Arr(g.get('T'), lambda k: pdf(lift(k))))
            tg_arg = None
        elif case['tg'] == 'same':
            # the asset already holds this very grid object, whose derived cache was overwritten by ANOTHER asset since
            # (other window, other wacc): the set-up has to rebuild it all the same (C10 / C20: no short cut on identity)
            self_obj.set('timegrid', g)
            sdf = disc_fun(H, 'stale')
            g.set('restricted', mk_restricted(H, g, pfx='stale', df=sdf))
            g.set('discount_factors', Arr(g.get('T'), lambda k: sdf(lift(k))))
            tg_arg = g
        else:
            g.set('restricted', Havoc('stale cache: restricted grid of an earlier set-up'))
            g.set('discount_factors', Havoc('stale cache: discount factors of an earlier set-up'))
            tg_arg = g
        ctx['args'] = [prices, tg_arg, case['costs_only']]
        H.protect[id(prices)] = 'prices'
        H.protect[id(prices['c'])] = 'prices[c]'
        return ctx

    def callees(self, case, ctx=None):
        return {'assets:Asset.set_timegrid': set_timegrid_handler(ctx),
                'optimization:OptimProblem': OptimProblemInit()}

    def ref(self, case, ctx):
        R, v = ctx['R'], ctx['vals']
        n = R.get('T')
        dt, dfR, rI = R.get('dt'), R.get('discount_factors'), R.get('I')
        lo = lambda i: v['min_cap'] * dt.f(i)
        hi = lambda i: v['max_cap'] * dt.f(i)
        if case['cts'] is None:
            k = lambda i: 0.0 + v['costs_const']
        else:
            cs = ctx['prices']['c']
            k = lambda i: cs.f(rI.f(i)) + v['costs_const']
        d = lambda i: dfR.f(i)
        return n, lo, hi, k, d

    def post(self, H, case, outcome, I, ctx):
        n, lo, hi, k, d = self.ref(case, ctx)
        T = ctx['g'].get('T')
        v = ctx['vals']
        if outcome[0] == 'raise':
            if outcome[1] == 'NotImplementedError':
                linear_ok = S.or_(S.forall(n, lambda i: S.le(hi(i), 0)), S.forall(n, lambda i: S.ge(lo(i), 0)),
                                  S.forall(n, lambda i: S.eq(k(i), 0)))
                yield ('C08.transport.refuses_only_sign_changing', S.not_(linear_ok))
            else:
                # a cost series of length 1 is accepted as a scalar by the code; any other length must match the grid
                bad_len = S.not_(S.eq(ctx['Tc'], T)) if case['cts'] is not None else False
                yield ('C08.transport.no_spurious_raise', bad_len)
            return
        if outcome[0] == 'havoc':
            yield ('C02.transport.modelled', Havoc(outcome[1]))
            return
        res = outcome[1]
        if case['costs_only']:
            yield ('C17.costs_only.transport.is_vector', isinstance(res, Arr))
            if not isinstance(res, Arr):
                return
        c = res if case['costs_only'] else res.get('c')
        if isinstance(c, Havoc):
            yield ('C02.transport.cost', c)
            return
        yield ('C07.transport.lengths', S.eq(c.n, n))
        yield ('C17.costs_only.transport.equals_full_cost' if case['costs_only'] else 'C02.transport.cost', S.forall(n, lambda i: S.or_(
            S.and_(S.ge(lo(i), 0), S.eq(c.f(i), k(i) * d(i))),
            S.and_(S.le(hi(i), 0), S.eq(c.f(i), -k(i) * d(i))),
            S.and_(S.eq(k(i), 0), S.eq(c.f(i), 0)),
            S.and_(S.eq(lo(i), 0), S.eq(hi(i), 0)))))
        if case['costs_only']:
            return
        l, u, m = res.get('l'), res.get('u'), res.get('mapping')
        yield ('C02.transport.bounds', S.and_(S.eq(l.n, n), S.eq(u.n, n), S.forall(n, lambda i: S.and_(
            S.eq(l.f(i), lo(i)), S.eq(u.f(i), hi(i))))))
        yield ('C07.transport.l_le_u', S.forall(n, lambda i: S.le(l.f(i), u.f(i))))
        yield ('C07.transport.no_rows', res.get('A') is None and res.get('b') is None and res.get('cType') is None)
        if isinstance(m, Havoc) or not isinstance(m, DF):
            yield ('C07.transport.mapping', m if isinstance(m, Havoc) else Havoc('mapping not a frame'))
            return
        rI = ctx['R'].get('I')
        so = ctx['self_obj']
        names = [nd.get('name') for nd in so.get('nodes')]
        col = lambda name: m.cols[name]
        nr = 2 * n
        first = lambda j: S.lt(j, n)
        var = lambda j: S.ite(first(j), j, j - n)
        yield ('C07.transport.mapping.rows', S.eq(m.n, nr))
        yield ('C07.transport.mapping.index', S.forall(nr, lambda j: S.eq(m.index.f(j), var(j))))
        yield ('C07.transport.mapping.step', S.forall(nr, lambda j: S.eq(col('time_step').f(j), rI.f(var(j)))))
        yield ('C08.transport.window', S.forall(nr, lambda j: S.and_(S.ge(col('time_step').f(j), 0), S.lt(col('time_step').f(j), T))))
        yield ('C07.transport.mapping.asset', S.forall(nr, lambda j: S.eq(col('asset').f(j), so.get('name'))))
        yield ('C07.transport.mapping.type', S.forall(nr, lambda j: S.eq(col('type').f(j), 'd')))
        yield ('C01.nodes.transport', S.forall(nr, lambda j: S.eq(col('node').f(j), S.ite(first(j), names[0], names[1]))))
        yield ('C02.transport.factors', S.forall(nr, lambda j: S.eq(col('disp_factor').f(j), S.ite(first(j), -1.0, v['efficiency']))))
        yield ('C07.transport.mapping.var_name', S.forall(nr, lambda j: S.eq(col('var_name').f(j), 'disp')))

    # ------------------------------------------------------------------ run-time twin / replay
    def schema(self, case):
        return [('g_T', 'int', None), ('r_n', 'int', None), ('len_costs', 'int', None), ('wacc', 'real', None)] + \
               [(p, 'real', None) for p in ('min_cap', 'max_cap', 'costs_const', 'efficiency')] + \
               [('g_dt', 'real_fun', 'g_T'), ('g_df', 'real_fun', 'g_T'), ('r_I', 'int_fun', 'r_n'), ('cts', 'real_fun', 'len_costs')]

    size_syms = ('g_T', 'r_n', 'len_costs')

    def menu(self, case, H, ctx):
        rI = ctx['R'].get('__fun__')['I']
        k = z3.Int('menu!k')
        return [z3.ForAll([k], z3.Implies(z3.And(k >= 0, k < ctx['R'].get('T')), rI(k) == rI(0) + k)), ctx['g'].get('T') >= 1], [
                H.real('wacc') == 0, z3.ForAll([k], ctx['df'](k) == 1), z3.ForAll([k], ctx['g'].get('__fun__')['dt'](k) == 1), ctx['Tc'] != 1]

    def native(self, case, P):
        import numpy as np
        import eaopack as eao
        from pyvc import native as N
        T, n = int(P['g_T']), int(P['r_n'])
        P = N.realisable_wacc(P)
        tg, synthetic = N.synthetic_grid(T, P['g_dt'])
        rI = [int(x) for x in P['r_I']]
        if n and rI != list(range(rI[0], rI[0] + n)):
            raise N.NotRealisable('window not contiguous')
        a0 = rI[0] if n else T
        pts = list(tg.timepoints) + [tg.end]
        start, end = (pts[a0], pts[a0 + n]) if n else (tg.end, tg.end)
        prices = {'c': np.array([P.fun('cts')(k) for k in range(int(P['len_costs']))], dtype=float)}
        nodes = [eao.assets.Node('node0'), eao.assets.Node('node1')]
        kw = {p: float(P[p]) for p in ('min_cap', 'max_cap', 'costs_const', 'efficiency')}
        if not (kw['min_cap'] <= kw['max_cap'] and kw['efficiency'] > 0):
            raise N.NotRealisable('constructor precondition')
        a = eao.assets.Transport(name='asset_name', nodes=nodes, start=start, end=end, wacc=float(P['wacc']),
                                 costs_time_series=case['cts'], **kw)
        if case['tg'] == 'same':
            a.set_timegrid(tg)
            _pts = list(tg.timepoints) + [tg.end]
            _other = eao.assets.SimpleContract(name='other asset', nodes=eao.assets.Node('elsewhere'), start=_pts[min(1, len(_pts) - 1)], end=_pts[-1], wacc=0.37)
            _other.set_timegrid(tg)      # overwrites the shared grid's restricted part and discount factors
            call = lambda: a.setup_optim_problem(prices, tg, case['costs_only'])
        elif case['tg'] == 'preset':
            a.set_timegrid(tg)
            _pts = list(tg.timepoints) + [tg.end]
            _other = eao.assets.SimpleContract(name='other asset', nodes=eao.assets.Node('elsewhere'), start=_pts[min(1, len(_pts) - 1)], end=_pts[-1], wacc=0.37)
            _other.set_timegrid(tg)      # overwrites the shared grid's restricted part and discount factors
            call = lambda: a.setup_optim_problem(prices, None, case['costs_only'])
        else:
            call = lambda: a.setup_optim_problem(prices, tg, case['costs_only'])
        tg2, _ = N.synthetic_grid(T, P['g_dt'])
        dt = [float(x) for x in tg2.dt]
        Dt = np.cumsum(dt)
        dff = [(1.0 + float(P['wacc'])) ** (-(Dt[k] / 24.0) / 365.0) for k in range(T)]
        R = Obj('Timegrid', T=n, dt=S.from_numpy([dt[k] for k in rI]), I=S.from_numpy(rI),
                discount_factors=S.from_numpy([dff[k] for k in rI]))
        g = Obj('Timegrid', T=T)
        so = Obj('Transport', name='asset_name', nodes=[Obj('Node', name=nd.name) for nd in nodes])
        ctx = dict(R=R, g=g, self_obj=so, prices={'c': S.from_numpy(prices['c'])}, Tc=int(P['len_costs']),
                   vals=kw, synthetic=synthetic)
        return call, ctx
