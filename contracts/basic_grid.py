"""Contracts for eaopack.basic_classes: Timegrid.__init__ (root grid, same-frequency restricted grid),
Timegrid.set_wacc, Timegrid.set_restricted_grid and eaopack.assets: Asset.set_timegrid.
(C19, C12, C08, C02.discount, C14.discount; they establish WF_TG, which every set-up contract assumes.)

From the property C19: "points strictly increasing, start at the grid start, lie before the grid end, each
step length equals the real elapsed time to the next point in main time units; a restricted grid is the
index-consistent subset of points in [start, end)".  Calendar arithmetic is pandas' (A4): for a fixed-length
(Tick) frequency date_range yields start + k*delta; for anchored / calendar frequencies only "strictly
increasing inside [start, end]" is assumed, and then "starts at the grid start" is not claimed (finding D24).
"""
import z3

from pyvc import sym, spec as S
from pyvc.sym import Arr, Obj, DF, Havoc, TS, TD, lift
from pyvc.libmodel import freq_ns, localize
from .common import Contract, register, mk_root_grid, disc_fun


@register
class TimegridRoot(Contract):
    qualname = 'basic_classes:Timegrid.__init__'
    prefix = 'C19.grid'
    properties = ('C19', 'C12')

    def cases(self):
        return [dict(kind=k, tz=tz) for k in ('tick', 'anchored') for tz in (None, 'sym')]

    def harness(self, H, case):
        s, e = H.int('start'), H.int('end')
        tz = None if case['tz'] is None else H.str('tz')
        freq, unit = H.str('freq'), H.str('unit')
        self_obj = Obj('Timegrid')
        ctx = dict(self_obj=self_obj, args=[TS(s, None), TS(e, None), freq, unit, None, tz], s=s, e=e, tz=tz, freq=freq, unit=unit,
                   flags=dict(date_range=case['kind']))
        return ctx

    def post(self, H, case, outcome, I, ctx):
        so = ctx['self_obj']
        s0 = localize(ctx['s'], ctx['tz']) if I is not None else ctx['s']
        e0 = localize(ctx['e'], ctx['tz']) if I is not None else ctx['e']
        if outcome[0] == 'raise':
            yield ('C19.grid.rejects_only_empty_horizon', S.not_(S.lt(s0, e0)))
            return
        if outcome[0] == 'havoc':
            yield ('C19.grid.modelled', Havoc(outcome[1]))
            return
        need = ('T', 'timepoints', 'dt', 'Dt', 'I', 'start', 'end', 'freq', 'main_time_unit', 'tz')
        yield ('C19.grid.attributes', all(so.has(a) for a in need))
        if not all(so.has(a) for a in need):
            return
        T, tp, dt, Dt, Ix = (so.get(a) for a in ('T', 'timepoints', 'dt', 'Dt', 'I'))
        if any(isinstance(x, Havoc) for x in (T, tp, dt, Dt, Ix)):
            yield ('C19.grid.modelled', next(x for x in (T, tp, dt, Dt, Ix) if isinstance(x, Havoc)))
            return
        tpt = lambda k: tp.f(k).t
        un = freq_ns(I, ctx['unit']) if I is not None else ctx['unit_ns']
        yield ('C19.grid.lengths', S.and_(S.ge(T, 0), S.eq(tp.n, T), S.eq(dt.n, T), S.eq(Dt.n, T), S.eq(Ix.n, T)))
        yield ('C19.grid.increasing', S.forall(T, lambda k: S.implies(S.lt(k + 1, T), lambda: S.lt(tpt(k), tpt(k + 1)))))
        yield ('C19.grid.inside', S.forall(T, lambda k: S.and_(S.le(s0, tpt(k)), S.lt(tpt(k), e0))))
        yield ('C19.grid.index', S.forall(T, lambda k: S.eq(Ix.f(k), k)))
        yield ('C19.grid.bounds_kept', S.and_(S.eq(so.get('start').t, s0), S.eq(so.get('end').t, e0)))
        pc = list(I.pc) if I is not None else None
        if case['kind'] == 'tick':
            d = freq_ns(I, ctx['freq']) if I is not None else ctx['freq_ns']
            yield ('C19.grid.first_is_start', S.implies(S.gt(T, 0), lambda: S.eq(tpt(0), s0)))
            yield ('C19.grid.points', S.forall(T, lambda k: S.eq(tpt(k), s0 + k * d)))
            # every step that fits before the end is there:  start + T*delta <= end < start + (T+1)*delta
            yield ('C19.grid.count', S.and_(S.le(s0 + T * d, e0), S.lt(e0, s0 + (T + 1) * d)))
            yield ('C19.dt', S.forall(T, lambda k: S.eq(dt.f(k), S.div(d, un))))
        else:
            # step length = elapsed time to the next point (the last step runs to the point date_range dropped)
            yield ('C19.dt', S.forall(T, lambda k: S.implies(S.lt(k + 1, T), lambda: S.eq(dt.f(k), S.div(tpt(k + 1) - tpt(k), un)))))
            yield ('C19.dt.positive', S.forall(T, lambda k: S.gt(dt.f(k), 0)))
        # cumulative time = prefix sums of the step lengths (both kinds)
        yield ('C19.Dt', S.forall(T, lambda k: S.eq(Dt.f(k), S.psum(lambda j: dt.f(j), 0, k + 1, pc))))

    # run-time twin
    def schema(self, case):
        return [('start', 'int', None), ('end', 'int', None), ('freq_ns:?', 'int', None)]

    size_syms = ()


@register
class TimegridRestricted(Contract):
    """Timegrid(start, end, freq=ref.freq, main_time_unit, ref_timegrid=ref): C19.restrict / C08.window"""
    qualname = 'basic_classes:Timegrid.__init__'
    prefix = 'C19.restrict'
    properties = ('C19', 'C08', 'C14', 'C12')

    def cases(self):
        return [dict(df=d, aware=a) for d in (True, False) for a in (True, False)]

    def harness(self, H, case):
        g = mk_root_grid(H)
        if case['df']:
            df = disc_fun(H)
            g.set('discount_factors', Arr(g.get('T'), lambda k: df(lift(k))))
        else:
            df = None
        tz = g.get('tz')
        s, e = H.int('r_start'), H.int('r_end')
        start = TS(s, tz if case['aware'] else None)
        end = TS(e, tz if case['aware'] else None)
        self_obj = Obj('Timegrid')
        return dict(self_obj=self_obj, args=[start, end, g.get('freq'), g.get('main_time_unit'), g, None], g=g, s=s, e=e, df=df, tz=tz)

    def post(self, H, case, outcome, I, ctx):
        so, g = ctx['self_obj'], ctx['g']
        if outcome[0] != 'return':
            yield ('C19.restrict.no_raise', False if outcome[0] == 'raise' else Havoc(outcome[1]))
            return
        s0 = ctx['s'] if case['aware'] else localize(ctx['s'], ctx['tz'])
        e0 = ctx['e'] if case['aware'] else localize(ctx['e'], ctx['tz'])
        need = ('T', 'timepoints', 'dt', 'Dt', 'I', 'start', 'end', 'tz')
        yield ('C19.restrict.attributes', all(so.has(a) for a in need) and so.has('discount_factors') == case['df'])
        if not all(so.has(a) for a in need):
            return
        T, tp, dt, Dt, Ix = (so.get(a) for a in ('T', 'timepoints', 'dt', 'Dt', 'I'))
        gtp, gdt, gDt, gT = g.get('timepoints'), g.get('dt'), g.get('Dt'), g.get('T')
        inwin = lambda j: S.and_(S.le(s0, gtp.f(j).t), S.lt(gtp.f(j).t, e0))
        yield ('C19.restrict.lengths', S.and_(S.ge(T, 0), S.le(T, gT), S.eq(tp.n, T), S.eq(dt.n, T), S.eq(Dt.n, T), S.eq(Ix.n, T)))
        yield ('C19.restrict.index_range', S.forall(T, lambda k: S.and_(S.ge(Ix.f(k), 0), S.lt(Ix.f(k), gT))))
        yield ('C19.restrict.index_increasing', S.forall(T, lambda k: S.implies(S.lt(k + 1, T), lambda: S.lt(Ix.f(k), Ix.f(k + 1)))))
        yield ('C08.window.subset', S.forall(T, lambda k: inwin(Ix.f(k))))
        # completeness: every step of the reference grid inside [start, end) is selected
        yield ('C08.window.complete', S.forall(gT, lambda j: S.implies(inwin(j), lambda: S.exists(T, lambda k: S.eq(Ix.f(k), j)))))
        yield ('C19.restrict.consistent', S.forall(T, lambda k: S.and_(
            S.eq(tp.f(k).t, gtp.f(Ix.f(k)).t), S.eq(dt.f(k), gdt.f(Ix.f(k))), S.eq(Dt.f(k), gDt.f(Ix.f(k))))))
        if case['df'] and so.has('discount_factors'):
            dff = so.get('discount_factors')
            yield ('C14.discount', S.and_(S.eq(dff.n, T), S.forall(T, lambda k: S.eq(dff.f(k), ctx['df'](Ix.f(k))))))
        yield ('C19.restrict.bounds_kept', S.and_(S.eq(so.get('start').t, s0), S.eq(so.get('end').t, e0)))
        yield ('C19.restrict.frame', True)


@register
class TimegridSetWacc(Contract):
    qualname = 'basic_classes:Timegrid.set_wacc'
    prefix = 'C02.discount'
    properties = ('C02', 'C12')

    def harness(self, H, case):
        g = mk_root_grid(H)
        w = H.real('wacc')
        H.assume(w > -1)
        g.attrs.pop('__closed__', None)
        return dict(self_obj=g, args=[w], g=g, w=w)

    def post(self, H, case, outcome, I, ctx):
        g, w = ctx['g'], ctx['w']
        if outcome[0] != 'return':
            yield ('C02.discount.no_raise', False if outcome[0] == 'raise' else Havoc(outcome[1]))
            return
        yield ('C02.discount.attribute', g.has('discount_factors'))
        if not g.has('discount_factors'):
            return
        dff, Dt, T = g.get('discount_factors'), g.get('Dt'), g.get('T')
        if isinstance(dff, Havoc):
            yield ('C02.discount', dff)
            return
        un, day = freq_ns(I, g.get('main_time_unit')), freq_ns(I, 'd')
        # (1+wacc)^(-elapsed years), elapsed years = Dt * unit / (365 days)
        years = lambda k: (Dt.f(k) * sym.to_real(un) / sym.to_real(day)) / 365
        yield ('C02.discount', z3.And(lift(dff.n) == T, S.forall(T, lambda k: sym.cmpop('Eq', dff.f(k), sym.rpow(1 + w, -years(k))))))
        yield ('C02.discount.positive', S.forall(T, lambda k: S.gt(dff.f(k), 0)))
