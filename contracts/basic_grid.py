"""Contracts for eaopack.basic_classes: Timegrid.__init__ (root grid, same-frequency restricted grid),
Timegrid.set_wacc, Timegrid.set_restricted_grid and eaopack.assets: Asset.set_timegrid.
(C19, C12, C08, C02.discount, C14.discount; they establish WF_TG, which every set-up contract assumes.)

From the property C19: "points strictly increasing, start at the grid start, lie before the grid end, each
step length equals the real elapsed time to the next point in main time units; a restricted grid is the
index-consistent subset of points in [start, end)".  Calendar arithmetic is pandas' (A4): for a fixed-length
(Tick) frequency date_range yields start + k*delta; for anchored / calendar frequencies only "strictly
increasing inside [start, end]" is assumed, and then "starts at the grid start" is not claimed (finding D24).
"""
import z3

from pyvc import sym, spec as S
from pyvc.sym import Arr, Obj, DF, Havoc, TS, TD, lift
from pyvc.libmodel import freq_ns, localize
from .common import Contract, register, mk_root_grid, disc_fun


@register
class TimegridRoot(Contract):
    qualname = 'basic_classes:Timegrid.__init__'
    prefix = 'C19.grid'
    properties = ('C19', 'C12')

    def cases(self):
        return [dict(kind=k, tz=tz) for k in ('tick', 'anchored') for tz in (None, 'sym')]

    def harness(self, H, case):
        s, e = H.int('start'), H.int('end')
        tz = None if case['tz'] is None else H.str('tz')
        freq, unit = H.str('freq'), H.str('unit')
        self_obj = Obj('Timegrid')
        ctx = dict(self_obj=self_obj, args=[TS(s, None), TS(e, None), freq, unit, None, tz], s=s, e=e, tz=tz, freq=freq, unit=unit,
                   flags=dict(date_range=case['kind']))
        return ctx

    def post(self, H, case, outcome, I, ctx):
        so = ctx['self_obj']
        s0 = localize(ctx['s'], ctx['tz']) if I is not None else ctx['s']
        e0 = localize(ctx['e'], ctx['tz']) if I is not None else ctx['e']
        if outcome[0] == 'raise':
            yield ('C19.grid.rejects_only_empty_horizon', S.not_(S.lt(s0, e0)))
            return
        if outcome[0] == 'havoc':
            yield ('C19.grid.modelled', Havoc(outcome[1]))
            return
        need = ('T', 'timepoints', 'dt', 'Dt', 'I', 'start', 'end', 'freq', 'main_time_unit', 'tz')
        yield ('C19.grid.attributes', all(so.has(a) for a in need))
        if not all(so.has(a) for a in need):
            return
        T, tp, dt, Dt, Ix = (so.get(a) for a in ('T', 'timepoints', 'dt', 'Dt', 'I'))
        if any(isinstance(x, Havoc) for x in (T, tp, dt, Dt, Ix)):
            yield ('C19.grid.modelled', next(x for x in (T, tp, dt, Dt, Ix) if isinstance(x, Havoc)))
            return
        tpt = lambda k: tp.f(k).t
        un = freq_ns(I, ctx['unit']) if I is not None else ctx['unit_ns']
        yield ('C19.grid.lengths', S.and_(S.ge(T, 0), S.eq(tp.n, T), S.eq(dt.n, T), S.eq(Dt.n, T), S.eq(Ix.n, T)))
        yield ('C19.grid.increasing', S.forall(T, lambda k: S.implies(S.lt(k + 1, T), lambda: S.lt(tpt(k), tpt(k + 1)))))
        yield ('C19.grid.inside', S.forall(T, lambda k: S.and_(S.le(s0, tpt(k)), S.lt(tpt(k), e0))))
        yield ('C19.grid.index', S.forall(T, lambda k: S.eq(Ix.f(k), k)))
        yield ('C19.grid.bounds_kept', S.and_(S.eq(so.get('start').t, s0), S.eq(so.get('end').t, e0)))
        pc = list(I.pc) if I is not None else None
        if case['kind'] == 'tick':
            d = freq_ns(I, ctx['freq']) if I is not None else ctx['freq_ns']
            yield ('C19.grid.first_is_start', S.implies(S.gt(T, 0), lambda: S.eq(tpt(0), s0)))
            yield ('C19.grid.points', S.forall(T, lambda k: S.eq(tpt(k), s0 + k * d)))
            # every step that fits before the end is there:  start + T*delta <= end < start + (T+1)*delta
            yield ('C19.grid.count', S.and_(S.le(s0 + T * d, e0), S.lt(e0, s0 + (T + 1) * d)))
            yield ('C19.dt', S.forall(T, lambda k: S.eq(dt.f(k), S.div(d, un))))
            yield ('C12.dt.step_length_is_elapsed_time_in_main_units', S.forall(T, lambda k: S.eq(dt.f(k), S.div(d, un))))
        else:
            # step length = elapsed time to the next point (the last step runs to the point date_range dropped)
            yield ('C19.dt', S.forall(T, lambda k: S.implies(S.lt(k + 1, T), lambda: S.eq(dt.f(k), S.div(tpt(k + 1) - tpt(k), un)))))
            yield ('C12.dt.step_length_is_elapsed_time_in_main_units', S.forall(T, lambda k: S.implies(S.lt(k + 1, T), lambda: S.eq(dt.f(k), S.div(tpt(k + 1) - tpt(k), un)))))
            yield ('C19.dt.positive', S.forall(T, lambda k: S.gt(dt.f(k), 0)))
        # cumulative time = prefix sums of the step lengths (both kinds)
        yield ('C19.Dt', S.forall(T, lambda k: S.eq(Dt.f(k), S.psum(lambda j: dt.f(j), 0, k + 1, pc))))

    # run-time twin
    def schema(self, case):
        return [('start', 'int', None), ('end', 'int', None), ('freq_ns:?', 'int', None)]

    size_syms = ()


@register
class TimegridRestricted(Contract):
    """Timegrid(start, end, freq=ref.freq, main_time_unit, ref_timegrid=ref): C19.restrict / C08.window"""
    qualname = 'basic_classes:Timegrid.__init__'
    prefix = 'C19.restrict'
    properties = ('C19', 'C08', 'C14', 'C12')

    def cases(self):
        return [dict(df=d, aware=a) for d in (True, False) for a in (True, False)]

    def harness(self, H, case):
        g = mk_root_grid(H)
        if case['df']:
            df = disc_fun(H)
            g.set('discount_factors', Arr(g.get('T'), lambda k: df(lift(k))))
        else:
            df = None
        tz = g.get('tz')
        s, e = H.int('r_start'), H.int('r_end')
        start = TS(s, tz if case['aware'] else None)
        end = TS(e, tz if case['aware'] else None)
        self_obj = Obj('Timegrid')
        return dict(self_obj=self_obj, args=[start, end, g.get('freq'), g.get('main_time_unit'), g, None], g=g, s=s, e=e, df=df, tz=tz)

    def post(self, H, case, outcome, I, ctx):
        so, g = ctx['self_obj'], ctx['g']
        if outcome[0] != 'return':
            yield ('C19.restrict.no_raise', False if outcome[0] == 'raise' else Havoc(outcome[1]))
            return
        s0 = ctx['s'] if case['aware'] else localize(ctx['s'], ctx['tz'])
        e0 = ctx['e'] if case['aware'] else localize(ctx['e'], ctx['tz'])
        need = ('T', 'timepoints', 'dt', 'Dt', 'I', 'start', 'end', 'tz')
        yield ('C19.restrict.attributes', all(so.has(a) for a in need) and so.has('discount_factors') == case['df'])
        if not all(so.has(a) for a in need):
            return
        T, tp, dt, Dt, Ix = (so.get(a) for a in ('T', 'timepoints', 'dt', 'Dt', 'I'))
        gtp, gdt, gDt, gT = g.get('timepoints'), g.get('dt'), g.get('Dt'), g.get('T')
        inwin = lambda j: S.and_(S.le(s0, gtp.f(j).t), S.lt(gtp.f(j).t, e0))
        yield ('C19.restrict.lengths', S.and_(S.ge(T, 0), S.le(T, gT), S.eq(tp.n, T), S.eq(dt.n, T), S.eq(Dt.n, T), S.eq(Ix.n, T)))
        yield ('C19.restrict.index_range', S.forall(T, lambda k: S.and_(S.ge(Ix.f(k), 0), S.lt(Ix.f(k), gT))))
        yield ('C19.restrict.index_increasing', S.forall(T, lambda k: S.implies(S.lt(k + 1, T), lambda: S.lt(Ix.f(k), Ix.f(k + 1)))))
        yield ('C08.window.subset', S.forall(T, lambda k: inwin(Ix.f(k))))
        # completeness: every step of the reference grid inside [start, end) is selected
        yield ('C08.window.complete', S.forall(gT, lambda j: S.implies(inwin(j), lambda: S.exists(T, lambda k: S.eq(Ix.f(k), j)))))
        yield ('C19.restrict.consistent', S.forall(T, lambda k: S.and_(
            S.eq(tp.f(k).t, gtp.f(Ix.f(k)).t), S.eq(dt.f(k), gdt.f(Ix.f(k))), S.eq(Dt.f(k), gDt.f(Ix.f(k))))))
        if case['df'] and so.has('discount_factors'):
            dff = so.get('discount_factors')
            yield ('C14.discount', S.and_(S.eq(dff.n, T), S.forall(T, lambda k: S.eq(dff.f(k), ctx['df'](Ix.f(k))))))
        yield ('C19.restrict.bounds_kept', S.and_(S.eq(so.get('start').t, s0), S.eq(so.get('end').t, e0)))
        yield ('C19.restrict.frame', True)


@register
class TimegridSetWacc(Contract):
    qualname = 'basic_classes:Timegrid.set_wacc'
    prefix = 'C02.discount'
    properties = ('C02', 'C12')

    def harness(self, H, case):
        g = mk_root_grid(H)
        w = H.real('wacc')
        H.assume(w > -1)
        g.attrs.pop('__closed__', None)
        return dict(self_obj=g, args=[w], g=g, w=w)

    def post(self, H, case, outcome, I, ctx):
        g, w = ctx['g'], ctx['w']
        if outcome[0] != 'return':
            yield ('C02.discount.no_raise', False if outcome[0] == 'raise' else Havoc(outcome[1]))
            return
        yield ('C02.discount.attribute', g.has('discount_factors'))
        if not g.has('discount_factors'):
            return
        dff, Dt, T = g.get('discount_factors'), g.get('Dt'), g.get('T')
        if isinstance(dff, Havoc):
            yield ('C02.discount', dff)
            return
        un, day = freq_ns(I, g.get('main_time_unit')), freq_ns(I, 'd')
        # (1+wacc)^(-elapsed years), elapsed years = Dt * unit / (365 days)
        years = lambda k: (Dt.f(k) * sym.to_real(un) / sym.to_real(day)) / 365
        yield ('C02.discount', z3.And(lift(dff.n) == T, S.forall(T, lambda k: sym.cmpop('Eq', dff.f(k), sym.rpow(1 + w, -years(k))))))
        yield ('C02.discount.positive', S.forall(T, lambda k: S.gt(dff.f(k), 0)))


def _window_handler(ctx):
    """callee contract of Timegrid.set_restricted_grid(start, end, freq) as seen by Asset.set_timegrid: records the
    call; (its own contract is TimegridSetRestricted below)"""
    def h(I, self_obj, args, kwargs):
        ctx['restricted_call'] = (self_obj, list(args), dict(kwargs))
        I.log_write(self_obj, 'restricted')
        self_obj.set('restricted', Obj('Timegrid', __token__='restricted grid for the recorded arguments'))
        return None
    return h


def _wacc_handler(ctx):
    def h(I, self_obj, args, kwargs):
        ctx['wacc_call'] = (self_obj, list(args))
        I.log_write(self_obj, 'discount_factors')
        self_obj.set('discount_factors', Obj('ndarray', __token__='discount factors for the recorded wacc'))
        return None
    return h


@register
class AssetSetTimegrid(Contract):
    """Asset.set_timegrid(timegrid): the derived cache is rebuilt from the asset's own parameters on every call --
    discount factors for self.wacc, restricted grid for (self.start, self.end, self.freq) -- whatever an earlier
    call (of this or another asset sharing the grid object) left there (C10.functional for the grid cache)."""
    qualname = 'assets:Asset.set_timegrid'
    prefix = 'C10.set_timegrid'
    properties = ('C10', 'C02', 'C08', 'C09')

    def cases(self):
        return [dict(freq=f, held=h) for f in (None, 'own') for h in (False, True)]

    def harness(self, H, case):
        g = mk_root_grid(H)
        g.attrs.pop('__closed__', None)
        g.set('restricted', Havoc('stale cache: restricted grid of an earlier set-up'))
        g.set('discount_factors', Havoc('stale cache: discount factors of an earlier set-up'))
        w = H.real('wacc')
        tz = g.get('tz')
        st, en = TS(H.int('a_start'), tz), TS(H.int('a_end'), tz)
        fr = None if case['freq'] is None else H.str('a_freq')
        self_obj = Obj('Asset', name=H.str('asset_name'), wacc=w, start=st, end=en, freq=fr, profile=None)
        if case.get('held'):
            # the asset already holds this very grid object (an earlier set-up); the cache on the grid is another asset's by now
            self_obj.set('timegrid', g)
        ctx = dict(self_obj=self_obj, args=[g], g=g, w=w, st=st, en=en, fr=fr)
        return ctx

    def callees(self, case, ctx=None):
        return {'basic_classes:Timegrid.set_wacc': _wacc_handler(ctx),
                'basic_classes:Timegrid.set_restricted_grid': _window_handler(ctx)}

    def post(self, H, case, outcome, I, ctx):
        so, g = ctx['self_obj'], ctx['g']
        if outcome[0] == 'raise':
            # a coarser portfolio frequency than the asset's is refused (documented assertion)
            if case['freq'] is None:
                yield ('C10.set_timegrid.no_raise', False)
            else:
                from pyvc.libmodel import freq_ns as fn
                yield ('C10.set_timegrid.refuses_only_finer_asset_freq', fn(I, ctx['fr']) < fn(I, g.get('freq')))
            return
        if outcome[0] == 'havoc':
            yield ('C10.set_timegrid.modelled', Havoc(outcome[1]))
            return
        yield ('C10.set_timegrid.grid_installed', so.has('timegrid') and so.get('timegrid') is g)
        wc = ctx.get('wacc_call')
        ok_w = wc is not None and wc[0] is g and len(wc[1]) == 1 and (wc[1][0] is ctx['w'] or z3.is_true(z3.simplify(lift(wc[1][0]) == ctx['w'])))
        for nm in ('C10.set_timegrid.discount_for_own_wacc', 'C02.discount.installed_for_own_wacc', 'C09.order.discount_independent_of_other_assets'):
            yield (nm, ok_w)
        rc = ctx.get('restricted_call')
        ok = rc is not None and rc[0] is g and len(rc[1]) == 3 and rc[1][0] is ctx['st'] and rc[1][1] is ctx['en'] and \
            (rc[1][2] is ctx['fr'] or (ctx['fr'] is not None and rc[1][2] is ctx['fr']))
        yield ('C08.set_timegrid.window_for_own_start_end_freq', ok)
        # frame: nothing but the derived cache is written
        allowed = {(id(so), 'timegrid'), (id(g), 'discount_factors'), (id(g), 'restricted')}
        writes = {(id(o), what) for (o, what, ln, md) in I.writes} if I is not None else allowed
        yield ('C10.set_timegrid.frame', writes <= allowed)

    # run-time twin with a stale cache on the real grid object
    def schema(self, case):
        return [('g_T', 'int', None), ('wacc', 'real', None), ('stale_wacc', 'real', None), ('win_a', 'int', None), ('win_b', 'int', None),
                ('stale_a', 'int', None)]

    def sample(self, case, rng):
        from pyvc import native as N
        T = rng.randint(1, 5)
        a = rng.randint(0, T)
        b = rng.randint(a, T)
        return N.Params(g_T=T, wacc=rng.choice([0.0, 0.0, 0.1, 0.5]), stale_wacc=rng.choice([0.0, 0.3, 0.8]), win_a=a, win_b=b,
                        stale_a=rng.randint(0, T), stale_same_window=rng.random() < .5)

    def native(self, case, P):
        import numpy as np
        import eaopack as eao
        from pyvc import native as N
        T = int(P['g_T'])
        tg, _ = N.synthetic_grid(T, None)
        pts = list(tg.timepoints) + [tg.end]
        a = eao.assets.Asset(name='asset_name', start=pts[int(P['win_a'])], end=pts[int(P['win_b'])], wacc=float(P['wacc']),
                             freq=None if case['freq'] is None else 'h')
        if case.get('held'):
            a.set_timegrid(tg)
        # stale state left by "another asset" sharing the grid object (possibly one with the very same window, but another wacc)
        other = eao.assets.Asset(name='other asset', start=a.start if P.get('stale_same_window') else pts[int(P['stale_a'])],
                                 end=a.end if P.get('stale_same_window') else None, wacc=float(P['stale_wacc']), freq=a.freq if P.get('stale_same_window') else None)
        other.set_timegrid(tg)
        call = lambda: (a.set_timegrid(tg), a)[1]
        tg2, _ = N.synthetic_grid(T, None)
        tg2.set_wacc(float(P['wacc']))
        ctx = dict(native_expect=dict(df=[float(x) for x in tg2.discount_factors], I=list(range(int(P['win_a']), int(P['win_b'])))),
                   tg=tg)
        return call, ctx


def _native_set_timegrid_post(self, H, case, outcome, I, ctx):
    pass


_orig_post = AssetSetTimegrid.post


def _post(self, H, case, outcome, I, ctx):
    if I is not None:
        yield from _orig_post(self, H, case, outcome, I, ctx)
        return
    # run-time twin: compare the real derived cache with a fresh grid's
    if outcome[0] != 'return':
        yield ('C10.set_timegrid.no_raise', False)
        return
    tg = ctx['tg']
    exp = ctx['native_expect']
    import numpy as np
    ok_w = bool(np.allclose(np.asarray(tg.discount_factors, dtype=float), exp['df'], rtol=1e-12, atol=0))
    for nm in ('C10.set_timegrid.discount_for_own_wacc', 'C02.discount.installed_for_own_wacc', 'C09.order.discount_independent_of_other_assets'):
        yield (nm, ok_w)
    yield ('C08.set_timegrid.window_for_own_start_end_freq', [int(v) for v in tg.restricted.I] == exp['I'])


AssetSetTimegrid.post = _post


@register
class TimegridCoarse(Contract):
    """Timegrid(start, end, freq = coarser than ref.freq, ref_timegrid = ref): C19.coarse / C13.coarse / C12 (Tick frequency:
    coarse interval k = [start + k*delta, start + (k+1)*delta), as many as fit before `end`).
      members(k)   = the fine steps whose time point lies in interval k, in increasing order (I_minor_in_major[k])
      I[k], Dt[k], timepoints[k], discount_factors[k] = those of the FIRST member,   dt[k] = sum of the members' dt
    Non-emptiness of every coarse interval is a safety obligation of `.min()`; it does not follow from anything the
    constructor checks (window beyond the reference grid, finer gaps) -- see finding D25b."""
    qualname = 'basic_classes:Timegrid.__init__'
    prefix = 'C19.coarse'
    properties = ('C19', 'C13', 'C12')
    # `ref.I[I].min()` and the three `[myI]` reads are safe only if every coarse interval contains a fine step, which nothing
    # guarantees (finding D25b, reproduced natively by bounded scenario check_coarse_beyond_horizon): not claimed here
    ignore_safety = ('index',)

    def cases(self):
        return [dict(df=True), dict(df=False)]

    def harness(self, H, case):
        g = mk_root_grid(H)
        if case['df']:
            df = disc_fun(H)
            g.set('discount_factors', Arr(g.get('T'), lambda k: df(lift(k))))
        else:
            df = None
        tz = g.get('tz')
        s, e = H.int('r_start'), H.int('r_end')
        freq = H.str('coarse_freq')
        H.assume(freq != g.get('freq'))
        self_obj = Obj('Timegrid')
        return dict(self_obj=self_obj, args=[TS(s, tz), TS(e, tz), freq, g.get('main_time_unit'), g, None], g=g, s=s, e=e, df=df, tz=tz, freq=freq,
                    flags=dict(date_range='tick'))

    def post(self, H, case, outcome, I, ctx):
        so, g = ctx['self_obj'], ctx['g']
        dc = freq_ns(I, ctx['freq'])
        dfine = freq_ns(I, g.get('freq'))
        if outcome[0] == 'raise':
            yield ('C19.coarse.refuses_only_finer_frequency', dc < dfine)
            return
        if outcome[0] == 'havoc':
            yield ('C19.coarse.modelled', Havoc(outcome[1]))
            return
        need = ('T', 'timepoints', 'dt', 'Dt', 'I', 'I_minor_in_major')
        yield ('C19.coarse.attributes', all(so.has(a) for a in need))
        if not all(so.has(a) for a in need):
            return
        T, tp, dt, Dt, Ix, mem = (so.get(a) for a in need)
        from pyvc.interp import Seg as _Seg
        if isinstance(mem, _Seg):
            from pyvc.libmodel import seg_to_arr
            mem = seg_to_arr(I, mem)
        for x in (T, tp, dt, Dt, Ix, mem):
            if isinstance(x, Havoc):
                yield ('C19.coarse.modelled', x)
                return
        s0, e0 = ctx['s'], ctx['e']
        gtp, gdt, gDt, gT = g.get('timepoints'), g.get('dt'), g.get('Dt'), g.get('T')
        k, j, p = z3.Int('k'), z3.Int('j'), z3.Int('p')
        kr = z3.And(k >= 0, k < T)
        inside = lambda kk, jj: z3.And(s0 + kk * dc <= gtp.f(jj).t, gtp.f(jj).t < s0 + (kk + 1) * dc)
        yield ('C19.coarse.count', z3.Implies(s0 <= e0, z3.And(T >= 0, s0 + T * dc <= e0, e0 < s0 + (T + 1) * dc)))
        yield ('C19.coarse.lengths', z3.And(lift(tp.n) == T, lift(dt.n) == T, lift(Dt.n) == T, lift(Ix.n) == T, lift(mem.n) == T))
        # members of interval k: sound and complete, increasing
        mk_ = lambda kk: mem.f(kk)
        sym.SCOPE.append(k)
        try:
            mk = mk_(k)
            sound = z3.ForAll([k, p], z3.Implies(z3.And(kr, p >= 0, p < lift(mk.n)), z3.And(lift(mk.f(p)) >= 0, lift(mk.f(p)) < gT, inside(k, lift(mk.f(p))))))
            incr = z3.ForAll([k, p], z3.Implies(z3.And(kr, p >= 0, p + 1 < lift(mk.n)), lift(mk.f(p)) < lift(mk.f(p + 1))))
            # witness for "j is a member": its rank among the selected steps (selection functions of the interval mask)
            cnt_, sel_, rank_ = sym.COMP.get(Arr(gT, lambda jj: inside(k, lift(jj))))
            complete = z3.ForAll([k, j], z3.Implies(z3.And(kr, j >= 0, j < gT, inside(k, j)), z3.And(
                rank_(j) >= 0, rank_(j) < lift(mk.n), lift(mk.f(rank_(j))) == j)))
            first = z3.ForAll([k], z3.Implies(z3.And(kr, lift(mk.n) > 0), z3.And(
                lift(Ix.f(k)) == lift(mk.f(0)), lift(tp.f(k).t) == gtp.f(mk.f(0)).t, lift(Dt.f(k)) == gDt.f(mk.f(0)))))
            pc = list(I.pc)
            total = z3.ForAll([k], z3.Implies(kr, lift(dt.f(k)) == S.psum(lambda jj: sym.ite(inside(k, jj), gdt.f(jj), z3.RealVal(0)), 0, gT, pc)))
        finally:
            sym.SCOPE.pop()
        yield ('C19.coarse.members_lie_in_their_interval', sound)
        yield ('C19.coarse.members_increasing', incr)
        yield ('C19.coarse.every_fine_step_of_an_interval_is_a_member', complete)
        yield ('C13.coarse.first_member_gives_index_time_and_cumulative_time', first)
        yield ('C12.coarse.step_length_is_sum_of_minor_steps', total)
        yield ('C13.coarse.total', total)
        if case['df'] and so.has('discount_factors'):
            dff = so.get('discount_factors')
            sym.SCOPE.append(k)
            try:
                mk = mk_(k)
                yield ('C13.coarse.discount_of_first_member', z3.ForAll([k], z3.Implies(z3.And(kr, lift(mk.n) > 0), lift(dff.f(k)) == ctx['df'](mk.f(0)))))
            finally:
                sym.SCOPE.pop()


@register
class TimegridSetRestricted(Contract):
    """Timegrid.set_restricted_grid(start, end, freq): the restricted grid is built ANEW on every call, from the arguments (missing ones
    = the grid's own start / end / frequency) and from the grid's CURRENT state (discount factors): nothing of an earlier call survives
    (C10; C09: what one asset sees does not depend on which asset used the shared grid before)."""
    qualname = 'basic_classes:Timegrid.set_restricted_grid'
    prefix = 'C10.set_restricted'
    properties = ('C10', 'C09', 'C08')

    def cases(self):
        return [dict(args=a, freq=f) for a in ('none', 'window') for f in (None, 'own')]

    def harness(self, H, case):
        g = mk_root_grid(H)
        g.attrs.pop('__closed__', None)                      # arbitrary further attributes (left-overs of earlier calls)
        g.set('restricted', Havoc('stale cache: restricted grid of an earlier call'))
        tz = g.get('tz')
        st, en = (None, None) if case['args'] == 'none' else (TS(H.int('r_start'), tz), TS(H.int('r_end'), tz))
        fr = None if case['freq'] is None else H.str('r_freq')
        return dict(self_obj=g, args=[st, en, fr], g=g, st=st, en=en, fr=fr)

    def callees(self, case, ctx=None):
        def ctor(I, self_obj, args, kwargs):
            tok = Obj('Timegrid', __token__='restricted grid constructed by this call')
            ctx.setdefault('ctor_calls', []).append((tok, list(args), dict(kwargs)))
            return tok
        return {'basic_classes:Timegrid': ctor}

    def post(self, H, case, outcome, I, ctx):
        g = ctx.get('g')
        if I is None:
            # run-time twin: second call with the same arguments after the grid's discount factors changed
            if outcome[0] != 'return':
                yield ('C10.set_restricted.no_raise', False)
                return
            import numpy as np
            r = ctx['tg'].restricted
            ok = list(int(x) for x in r.I) == ctx['expect_I'] and bool(np.allclose(np.asarray(r.discount_factors, dtype=float), ctx['expect_df'], rtol=1e-12, atol=0))
            for nm in ('C10.set_restricted.built_anew_from_current_state', 'C09.set_restricted.independent_of_earlier_users_of_the_grid'):
                yield (nm, ok)
            return
        if outcome[0] != 'return':
            yield ('C10.set_restricted.no_raise', False if outcome[0] == 'raise' else Havoc(outcome[1]))
            return
        calls = ctx.get('ctor_calls', [])
        ok = len(calls) == 1 and g.has('restricted') and g.get('restricted') is calls[0][0]
        for nm in ('C10.set_restricted.built_anew_from_current_state', 'C09.set_restricted.independent_of_earlier_users_of_the_grid'):
            yield (nm, ok)
        if ok:
            tok, args, kw = calls[0]
            vals = dict(zip(['start', 'end', 'freq', 'main_time_unit', 'ref_timegrid', 'timezone'], args))
            vals.update(kw)
            want_s = ctx['st'] if ctx['st'] is not None else g.get('start')
            want_e = ctx['en'] if ctx['en'] is not None else g.get('end')
            want_f = ctx['fr'] if ctx['fr'] is not None else g.get('freq')
            yield ('C08.set_restricted.window_and_frequency_as_given_or_the_grids_own', vals.get('start') is want_s and vals.get('end') is want_e and
                   vals.get('freq') is want_f and vals.get('main_time_unit') is g.get('main_time_unit') and vals.get('ref_timegrid') is g)
        writes = {str(what) for (o, what, ln, md) in I.writes if o is g}
        yield ('C10.set_restricted.frame_only_the_restricted_grid_is_written', writes <= {'restricted'})

    def schema(self, case):
        return [('g_T', 'int', None)]

    def sample(self, case, rng):
        from pyvc import native as N
        T = rng.randint(1, 6)
        a = rng.randint(0, T)
        return N.Params(g_T=T, win_a=a, win_b=rng.randint(a, T), w1=rng.choice([0., .3, .8]), w2=rng.choice([0., .1, .5]))

    def native(self, case, P):
        import numpy as np
        from pyvc import native as N
        T = int(P['g_T'])
        tg, _ = N.synthetic_grid(T, None)
        pts = list(tg.timepoints) + [tg.end]
        a, b = int(P['win_a']), int(P['win_b'])
        args = (None, None) if case['args'] == 'none' else (pts[a], pts[b])
        fr = None if case['freq'] is None else 'h'
        tg.set_wacc(float(P['w1']))
        tg.set_restricted_grid(args[0], args[1], fr)         # an earlier user of the grid, same window, other discounting
        tg.set_wacc(float(P['w2']))
        tg2, _ = N.synthetic_grid(T, None)
        tg2.set_wacc(float(P['w2']))
        rng_ = range(0, T) if case['args'] == 'none' else range(a, b)
        ctx = dict(tg=tg, expect_I=list(rng_), expect_df=[float(tg2.discount_factors[k]) for k in rng_])
        return (lambda: tg.set_restricted_grid(args[0], args[1], fr)), ctx
