"""Contract for eaopack.portfolio: Portfolio.create_cost_samples(price_samples, timegrid)  (C17 mechanism "cost vectors per price sample").

From the statement C17 (the scenarios of a stochastic / robust problem are price scenarios of ONE portfolio on ONE grid): the k-th cost vector
is the cost vector of the portfolio's own set-up for the k-th price sample on the given grid -- one vector per sample, in the order of the
samples, obtained with costs_only (proved equal to the cost vector of the full set-up: C17.costs_only.* on the asset classes and the
portfolio concatenation); the price samples are not written.  The list of samples is a Python list (1-3 samples, loop unrolled)."""
import z3

from pyvc import sym
from pyvc.sym import Arr, Obj, Havoc, lift
from .common import Contract, register


@register
class CostSamples(Contract):
    qualname = 'portfolio:Portfolio.create_cost_samples'
    prefix = 'C17.cost_samples'
    properties = ('C17',)

    def cases(self):
        return [dict(samples=k, grid=g) for k in (1, 3) for g in ('given', 'none')] + [dict(samples=0, grid='given')]

    def harness(self, H, case):
        n, T = H.int('n_vars'), H.int('T')
        H.assume(z3.And(n >= 0, T >= 0))
        samples = [{'p': H.real_arr(f'price_sample_{k}', T)} for k in range(case['samples'])]
        for k, s in enumerate(samples):
            H.protect[id(s)] = f'price sample {k}'
            H.protect[id(s['p'])] = f"price sample {k}['p']"
        tg = Obj('Timegrid', __token__='the grid') if case['grid'] == 'given' else None
        self_obj = Obj('Portfolio', assets=[], timegrid=Obj('Timegrid', __token__='grid set before'))
        costs = [H.real_arr(f'cost_vector_{k}', n) for k in range(case['samples'])]
        return dict(self_obj=self_obj, args=[samples, tg], samples=samples, tg=tg, costs=costs, calls=[])

    def callees(self, case, ctx=None):
        def setup(I, self_obj, args, kwargs):
            a = list(args)
            kw = dict(kwargs)
            ps = a[0] if a else kw.get('prices')
            tg = a[1] if len(a) > 1 else kw.get('timegrid')
            co = a[2] if len(a) > 2 else kw.get('costs_only', False)
            k = len(ctx['calls'])
            ctx['calls'].append(dict(self_obj=self_obj, prices=ps, timegrid=tg, costs_only=co))
            if k >= len(ctx['costs']):
                raise sym.Unsupported('more set-ups than samples')
            return ctx['costs'][k]
        return {'portfolio:Portfolio.setup_optim_problem': setup}

    def post(self, H, case, outcome, I, ctx):
        if outcome[0] != 'return':
            yield ('C17.cost_samples.no_raise', False if outcome[0] == 'raise' else Havoc(outcome[1]))
            return
        res = outcome[1]
        calls, S_ = ctx['calls'], case['samples']
        yield ('C17.cost_samples.one_set_up_per_sample_in_order_on_the_given_grid_costs_only', len(calls) == S_ and all(
            c['self_obj'] is ctx['self_obj'] and c['prices'] is ctx['samples'][k] and c['timegrid'] is ctx['tg'] and c['costs_only'] is True for k, c in enumerate(calls)))
        ok = isinstance(res, list) and len(res) == S_ and all(r is ctx['costs'][k] for k, r in enumerate(res))
        yield ('C17.cost_samples.kth_vector_is_the_cost_vector_of_the_kth_sample', ok)
