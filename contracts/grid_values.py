"""Contract for eaopack.basic_classes: Timegrid.values_to_grid  (C19 interval data, C10 no mutation of the user's
dictionary).

From the property C19: "Interval data assigns to each grid point the value of the unique interval [start_i, end_i)
containing it, leaves points outside all intervals undefined, rejects overlapping intervals".

The function's loop runs over a symbolic number K of intervals and reads what earlier iterations wrote (overlap test),
so it is verified against a loop invariant (pyvc.interp.invariant_for: entry / step / exit obligations):

  INV(k):  for every grid point t
             (a) grid[t] is NaN  unless some interval j < k contains t
             (b) every interval j < k containing t has written its value:  grid[t] == values[j]
             (c) no two intervals j < j' < k contain the same grid point

Preconditions (harness): the three lists have equal length; values are numbers (not NaN -- a NaN value makes the
overlap test blind, which the property does not speak about); grid and dictionary agree on naive / zone-aware.
Cases: explicit ends / implicit ends (end = next start, last one extended) / one start without end (valid for ever).
"""
import math
import z3

from pyvc import sym, spec as S
from pyvc.sym import Arr, Obj, Havoc, TS, TD, lift
from .common import Contract, register, mk_root_grid


def _null(v):
    if isinstance(v, float):
        return math.isnan(v)
    return sym.is_null(v)


def _val(v):
    return sym.null_parts(v)[1] if not isinstance(v, float) else v


class _IntervalLoop:
    """invariant of `for s, e, v in zip(inp['start'], inp['end'], inp['values'])`"""
    label = 'C19.values.loop'
    names = ('grid',)

    def __init__(self, ctx):
        self.ctx = ctx

    def fresh(self, I, k, env, tag):
        T = self.ctx['T']
        nul = z3.Function(sym.fresh_name('grid_nan_' + tag), z3.IntSort(), z3.BoolSort())
        val = z3.Function(sym.fresh_name('grid_val_' + tag), z3.IntSort(), z3.RealSort())
        return {'grid': Arr(T, lambda i: sym.mk_opt(nul(lift(i)), val(lift(i))))}

    def inv(self, I, k, state, env):
        c = self.ctx
        grid, T = state['grid'], c['T']
        inn = c['inn']
        t, j, j2 = z3.Ints('inv!t inv!j inv!j2')
        dom = z3.And(t >= 0, t < T)
        yield ('length', lift(grid.n) == T)
        yield ('undefined_outside', z3.ForAll([t], z3.Implies(z3.And(dom, z3.Not(sym.to_bool(_null(grid.f(t))))),
                                                              z3.Exists([j], z3.And(j >= 0, j < k, inn(j, t))))))
        yield ('value_of_containing', z3.ForAll([t, j], z3.Implies(z3.And(dom, j >= 0, j < k, inn(j, t)), z3.And(
            z3.Not(sym.to_bool(_null(grid.f(t)))), lift(_val(grid.f(t))) == c['v'](j)))))
        yield ('disjoint_so_far', z3.ForAll([t, j, j2], z3.Implies(z3.And(dom, j >= 0, j < j2, j2 < k), z3.Not(z3.And(inn(j, t), inn(j2, t))))))


@register
class ValuesToGrid(Contract):
    qualname = 'basic_classes:Timegrid.values_to_grid'
    prefix = 'C19.values'
    properties = ('C19', 'C10')

    def cases(self):
        return [dict(form='lists'), dict(form='implicit_end'), dict(form='single'), dict(form='scalar')]

    def harness(self, H, case):
        g = mk_root_grid(H, tz=None)
        T = g.get('T')
        tpf = g.get('__fun__')['tp']
        K = H.int('K')
        H.assume(K >= 1)
        sf, ef = H.fun('iv_start', z3.IntSort(), z3.IntSort()), H.fun('iv_end', z3.IntSort(), z3.IntSort())
        vf = H.fun('iv_value', z3.IntSort(), z3.RealSort())
        form = case['form']
        if form == 'scalar':
            inp = dict(start=TS(sf(0), None), end=TS(ef(0), None), values=vf(0))
            H.assume(K == 1)
        elif form == 'single':
            inp = dict(start=TS(sf(0), None), values=vf(0))
            H.assume(K == 1)
        else:
            starts = Arr(K, lambda i: TS(sf(lift(i)), None), kind='list')
            vals = Arr(K, lambda i: vf(lift(i)), kind='list')
            inp = dict(start=starts, values=vals)
            H.protect[id(starts)] = "inp['start']"
            H.protect[id(vals)] = "inp['values']"
            if form == 'lists':
                ends = Arr(K, lambda i: TS(ef(lift(i)), None), kind='list')
                inp['end'] = ends
                H.protect[id(ends)] = "inp['end']"
            else:
                H.assume(K >= 2)
        if form == 'implicit_end':
            # effective interval ends: the next start; the last interval is extended by twice the last spacing
            eff_end = lambda j: z3.If(j < K - 1, sf(j + 1), sf(K - 1) + 2 * (sf(K - 1) - sf(K - 2)))
        elif form == 'single':
            eff_end = None
        else:
            eff_end = lambda j: ef(j)
        if eff_end is None:
            inn = lambda j, t: sf(j) <= tpf(t)
            # A4: pandas' largest representable instant lies after every grid point
            t_ = z3.Int('h!t')
            H.assume(z3.ForAll([t_], z3.Implies(z3.And(t_ >= 0, t_ < T), tpf(t_) < z3.Int('Timestamp.max')), patterns=[tpf(t_)]))
        else:
            inn = lambda j, t: z3.And(sf(j) <= tpf(t), tpf(t) < eff_end(j))
        keys0 = tuple(inp)
        return dict(self_obj=g, args=[inp], g=g, T=T, K=K, inn=inn, v=lambda j: vf(j), inp=inp, keys0=keys0, vals0=tuple(inp.values()))

    def loops(self, case, ctx):
        return {('basic_classes:Timegrid.values_to_grid', 0): _IntervalLoop(ctx)}

    def post(self, H, case, outcome, I, ctx):
        T, K, inn, v = ctx['T'], ctx['K'], ctx['inn'], ctx['v']
        overlap = S.exists(T, lambda t: S.exists(K, lambda j: S.exists(K, lambda j2: S.and_(S.lt(j, j2), inn(j, t), inn(j2, t)))))
        if outcome[0] == 'raise':
            yield ('C19.values.rejects_only_overlapping_intervals', S.and_(outcome[1] == 'ValueError', overlap))
            return
        if outcome[0] == 'havoc':
            yield ('C19.values.modelled', Havoc(outcome[1]))
            return
        grid = outcome[1]
        ok = isinstance(grid, Arr)
        yield ('C19.values.returns_array', ok)
        if not ok:
            return
        yield ('C19.values.one_entry_per_grid_point', S.eq(grid.n, T))
        yield ('C19.values.rejects_overlapping_intervals', S.not_(overlap))
        yield ('C19.values.value_of_the_containing_interval', S.forall(T, lambda t: S.forall(K, lambda j: S.implies(
            inn(j, t), lambda: S.and_(S.not_(_null(grid.f(t))), S.eq(_val(grid.f(t)), v(j)))))))
        yield ('C19.values.undefined_outside_all_intervals', S.forall(T, lambda t: S.implies(
            S.not_(S.exists(K, lambda j: inn(j, t))), lambda: _null(grid.f(t)))))
        # C10: the caller's dictionary is not altered (same keys, same objects)
        inp = ctx['inp']
        yield ('C10.values.user_dictionary_unchanged', tuple(inp) == ctx['keys0'] and all(a is b for a, b in zip(inp.values(), ctx['vals0'])))

    # ------------------------------------------------------------------ run-time twin
    def schema(self, case):
        return [('g_T', 'int', None), ('K', 'int', None)]

    def sample(self, case, rng):
        from pyvc import native as N
        T = rng.randint(1, 6)
        form = case['form']
        K = 1 if form in ('single', 'scalar') else rng.randint(2 if form == 'implicit_end' else 1, 3)
        # interval borders in half-steps around the horizon (before, inside, after, empty, reversed)
        pts = sorted(rng.randint(-3, 2 * T + 3) for _ in range(K)) if form == 'implicit_end' and rng.random() < .8 else \
            [rng.randint(-3, 2 * T + 3) for _ in range(K)]
        if form == 'implicit_end':
            pts = sorted(set(pts))
            while len(pts) < 2:
                pts.append(pts[-1] + rng.randint(1, 3))
            K = len(pts)
        ends = [p + rng.randint(0, 5) for p in pts]
        if form == 'lists' and rng.random() < .6:
            # mostly disjoint lists, so that the return path is exercised
            pts = sorted(pts)
            ends = [min(e, pts[i + 1]) if i + 1 < K else e for i, e in enumerate(ends)]
        return N.Params(g_T=T, K=K, starts=pts, ends=ends, values=[float(rng.randint(-5, 5)) for _ in range(K)],
                        dt=[rng.choice([1.0, 1.0, 0.5, 2.0]) for _ in range(T)], as_array=rng.random() < .3,
                        as_index=rng.random() < .2)

    def native(self, case, P):
        import numpy as np
        import pandas as pd
        from pyvc import native as N
        T = int(P['g_T'])
        tg, syn = N.synthetic_grid(T, P.get('dt'))
        half = pd.Timedelta(30, 'min')
        s = [tg.start + half * int(x) for x in P['starts']]
        e = [tg.start + half * int(x) for x in P['ends']]
        vals = [float(x) for x in P['values']]
        form = case['form']
        if form == 'scalar':
            inp = dict(start=s[0], end=e[0], values=vals[0])
        elif form == 'single':
            inp = dict(start=s[0], values=vals[0])
        elif form == 'implicit_end':
            inp = dict(start=list(s), values=list(vals))
        else:
            inp = dict(start=list(s), end=list(e), values=list(vals))
        if form in ('lists', 'implicit_end'):
            if P.get('as_index'):
                inp['start'] = pd.DatetimeIndex(inp['start'])
            elif P.get('as_array'):
                inp['values'] = np.asarray(inp['values'])
        tp = [int(x.value) for x in tg.timepoints]
        K = len(s)
        sv = [int(x.value) for x in s]
        if form == 'implicit_end':
            ev = [sv[j + 1] if j < K - 1 else sv[K - 1] + 2 * (sv[K - 1] - sv[K - 2]) for j in range(K)]
        elif form == 'single':
            ev = None
        else:
            ev = [int(x.value) for x in e]
        inn = (lambda j, t: sv[int(j)] <= tp[int(t)]) if ev is None else (lambda j, t: sv[int(j)] <= tp[int(t)] < ev[int(j)])
        keys0 = tuple(inp)
        vals0 = tuple(inp.values())
        copies = [x.copy() if hasattr(x, 'copy') else x for x in vals0]
        ctx = dict(T=T, K=K, inn=inn, v=lambda j: vals[int(j)], inp=inp, keys0=keys0, vals0=vals0, synthetic=syn, copies=copies)
        return (lambda: tg.values_to_grid(inp)), ctx


_sym_post = ValuesToGrid.post


def _post(self, H, case, outcome, I, ctx):
    yield from _sym_post(self, H, case, outcome, I, ctx)
    if I is None and outcome[0] == 'return':
        # run-time twin only: the objects inside the caller's dictionary still hold the same content
        import numpy as np
        same = True
        for a, b in zip(ctx['inp'].values(), ctx['copies']):
            try:
                same = same and (a is b or bool(np.all(np.asarray(a, dtype=object) == np.asarray(b, dtype=object))))
            except Exception:
                same = False
        yield ('C10.values.user_dictionary_content_unchanged', same)


ValuesToGrid.post = _post


# ======================================================================================= Asset.make_vector
def _values_to_grid_callee(ctx):
    """callee contract of Timegrid.values_to_grid as proved above (ValuesToGrid), applied to the restricted grid:
    raises ValueError iff two intervals contain the same grid point; otherwise a fresh array, entry t = value of the
    interval containing point t, NaN where none does."""
    def h(I, self_obj, args, kwargs):
        R, K, inn, v = ctx['R'], ctx['K'], ctx['inn'], ctx['v']
        if self_obj is not R or args[0] is not ctx['value']:
            raise sym.Unsupported('values_to_grid on another grid / dictionary')
        n = R.get('T')
        t, j, j2 = z3.Ints('cal!t cal!j cal!j2')
        dom = z3.And(t >= 0, t < n)
        overlap = z3.Exists([t, j, j2], z3.And(dom, j >= 0, j < j2, j2 < K, inn(j, t), inn(j2, t)))
        if I.decide(overlap):
            raise sym.PyRaise('ValueError', 'Overlapping time intervals')
        nul = z3.Function(sym.fresh_name('vg_nan'), z3.IntSort(), z3.BoolSort())
        val = z3.Function(sym.fresh_name('vg_val'), z3.IntSort(), z3.RealSort())
        I.assume(z3.ForAll([t, j], z3.Implies(z3.And(dom, j >= 0, j < K, inn(j, t)), z3.And(z3.Not(nul(t)), val(t) == v(j)))))
        I.assume(z3.ForAll([t], z3.Implies(z3.And(dom, z3.Not(nul(t))), z3.Exists([j], z3.And(j >= 0, j < K, inn(j, t))))))
        return Arr(n, lambda i: sym.mk_opt(nul(lift(i)), val(lift(i))))
    return h


@register
class MakeVector(Contract):
    """Asset.make_vector(value, prices, default_value, convert): the parameter's value at every step of the asset's
    restricted grid -- constant, already-gridded array passing through unchanged (indexed by the restricted grid's
    positions in the full grid), or interval data; times the step length if `convert`."""
    qualname = 'assets:Asset.make_vector'
    prefix = 'C02.make_vector'
    properties = ('C02', 'C19', 'C12', 'C10')

    def cases(self):
        out = [dict(kind='none', convert=False, default=False),
               # an asset on a coarser frequency than the grid: its steps are longer than the grid steps they start at (C12: limits follow
               # the length of the ASSET's step)
               dict(kind='key', convert=True, default=False, coarse=True), dict(kind='scalar', convert=True, default=False, coarse=True)]
        for kind in ('scalar', 'array', 'key', 'dict'):
            for convert in (False, True):
                for default in ((False, True) if kind == 'dict' else (False,)):
                    out.append(dict(kind=kind, convert=convert, default=default))
        return out

    def harness(self, H, case):
        from .common import mk_restricted
        g = mk_root_grid(H, tz=None)
        R = mk_restricted(H, g, coarse=bool(case.get('coarse')))
        g.set('restricted', R)
        n = R.get('T')
        rI = R.get('__fun__')['I']
        tpf = g.get('__fun__')['tp']
        self_obj = Obj('Asset', name=H.str('asset_name'), timegrid=g)
        ctx = dict(self_obj=self_obj, g=g, R=R, n=n, rI=rI, kwargs=dict(convert=case['convert']))
        kind = case['kind']
        prices = {}
        default = H.real('default_value') if case['default'] else None
        if kind == 'none':
            value = None
        elif kind == 'scalar':
            value = H.real('value')
        elif kind == 'array':
            vf = H.fun('value_arr', z3.IntSort(), z3.RealSort())
            value = Arr(n, lambda i: vf(lift(i)))
            ctx['vf'] = vf
            H.protect[id(value)] = 'value (array)'
        elif kind == 'key':
            value = 'p'
            pf = H.fun('price', z3.IntSort(), z3.RealSort())
            parr = Arr(g.get('T'), lambda i: pf(lift(i)))
            prices = {'p': parr, 'other': Arr(g.get('T'), lambda i: z3.RealVal(0))}
            ctx['pf'] = pf
            H.protect[id(parr)] = "prices['p']"
        else:
            K = H.int('K')
            H.assume(K >= 1)
            sf, ef = H.fun('iv_start', z3.IntSort(), z3.IntSort()), H.fun('iv_end', z3.IntSort(), z3.IntSort())
            vf = H.fun('iv_value', z3.IntSort(), z3.RealSort())
            value = dict(start=Arr(K, lambda i: TS(sf(lift(i)), None), kind='list'), end=Arr(K, lambda i: TS(ef(lift(i)), None), kind='list'),
                         values=Arr(K, lambda i: vf(lift(i)), kind='list'))
            ctx.update(K=K, inn=lambda j, t: z3.And(sf(j) <= tpf(rI(t)), tpf(rI(t)) < ef(j)), v=lambda j: vf(j))
        ctx['value'] = value
        ctx['default'] = default
        ctx['args'] = [value, prices, default]
        return ctx

    def callees(self, case, ctx=None):
        return {'basic_classes:Timegrid.values_to_grid': _values_to_grid_callee(ctx)}

    def post(self, H, case, outcome, I, ctx):
        kind, n = case['kind'], ctx['n']
        if outcome[0] == 'havoc':
            yield ('C02.make_vector.modelled', Havoc(outcome[1]))
            return
        if outcome[0] == 'raise':
            if kind != 'dict':
                yield ('C02.make_vector.no_raise', False)
            else:
                K, inn = ctx['K'], ctx['inn']
                yield ('C19.make_vector.rejects_only_overlapping_intervals', S.exists(n, lambda t: S.exists(K, lambda j: S.exists(
                    K, lambda j2: S.and_(S.lt(j, j2), inn(j, t), inn(j2, t))))))
            return
        vec = outcome[1]
        if kind == 'none':
            yield ('C02.make_vector.none_stays_none', vec is None)
            return
        ok = isinstance(vec, Arr)
        yield ('C02.make_vector.returns_array', ok)
        if not ok:
            return
        dt = ctx['R'].get('dt')
        w = (lambda t: dt.f(t)) if case['convert'] else (lambda t: 1)
        yield ('C02.make_vector.one_entry_per_step_of_the_window', S.eq(vec.n, n))
        if kind == 'scalar':
            yield ('C02.make_vector.constant', S.forall(n, lambda t: S.eq(vec.f(t), S.mul(ctx['value'], w(t)))))
        elif kind == 'array':
            yield ('C02.make_vector.array', S.forall(n, lambda t: S.eq(vec.f(t), S.mul(ctx['vf'](t), w(t)))))
        elif kind == 'key':
            # C19: "already-gridded price arrays pass through unchanged": entry t is the price of the window's step t
            yield ('C19.make_vector.gridded_array_passes_through', S.forall(n, lambda t: S.eq(vec.f(t), S.mul(ctx['pf'](ctx['rI'](t)), w(t)))))
            if case['convert']:
                # C12: "per-step volume limits ... always scale with the actual length of the step" -- the ASSET's step (its own, possibly
                # coarser, frequency), not the grid step it starts at
                yield ('C12.make_vector.limit_given_by_name_follows_the_length_of_the_assets_step', S.forall(n, lambda t: S.eq(
                    vec.f(t), S.mul(ctx['pf'](ctx['rI'](t)), dt.f(t)))))
        else:
            K, inn, v = ctx['K'], ctx['inn'], ctx['v']
            yield ('C19.make_vector.value_of_the_containing_interval', S.forall(n, lambda t: S.forall(K, lambda j: S.implies(
                inn(j, t), lambda: S.and_(S.not_(_null(vec.f(t))), S.eq(_val(vec.f(t)), S.mul(v(j), w(t))))))))
            outside = lambda t: S.not_(S.exists(K, lambda j: inn(j, t)))
            if case['default']:
                yield ('C02.make_vector.default_outside_all_intervals', S.forall(n, lambda t: S.implies(
                    outside(t), lambda: S.and_(S.not_(_null(vec.f(t))), S.eq(_val(vec.f(t)), S.mul(ctx['default'], w(t)))))))
            else:
                yield ('C19.make_vector.undefined_outside_all_intervals', S.forall(n, lambda t: S.implies(outside(t), lambda: _null(vec.f(t)))))

    # ------------------------------------------------------------------ run-time twin
    def schema(self, case):
        return [('g_T', 'int', None)]

    def sample(self, case, rng):
        from pyvc import native as N
        T = rng.randint(1, 6)
        a = rng.randint(0, T)
        b = rng.randint(a, T)
        K = rng.randint(1, 3)
        pts = sorted(rng.randint(-2, 2 * T + 2) for _ in range(K))
        ends = [p + rng.randint(0, 4) for p in pts]
        if rng.random() < .7:
            ends = [min(e, pts[i + 1]) if i + 1 < K else e for i, e in enumerate(ends)]
        return N.Params(g_T=T, win_a=a, win_b=b, K=K, starts=pts, ends=ends, values=[float(rng.randint(-5, 5)) for _ in range(K)],
                        dt=[rng.choice([1.0, 1.0, 0.5, 2.0]) for _ in range(T)], value=float(rng.randint(-4, 4)),
                        default=float(rng.randint(-3, 3)), price=[float(rng.randint(-9, 9)) for _ in range(T)])

    def native(self, case, P):
        import numpy as np
        import pandas as pd
        import eaopack as eao
        from pyvc import native as N
        T = int(P['g_T'])
        if case.get('coarse'):
            # hourly grid of an even number of steps, the asset on 2-hour steps over the whole horizon
            T = T + T % 2
            tg, syn = N.synthetic_grid(T, None)
            asset = eao.assets.Asset(name='asset_name', freq='2h')
        else:
            tg, syn = N.synthetic_grid(T, P.get('dt'))
            pts = list(tg.timepoints) + [tg.end]
            a, b = int(P['win_a']), int(P['win_b'])
            asset = eao.assets.Asset(name='asset_name', start=pts[a], end=pts[b])
        asset.set_timegrid(tg)
        R = tg.restricted
        n = int(R.T)
        rI = [int(x) for x in R.I]
        kind = case['kind']
        ctx = dict(n=n, rI=lambda t: rI[int(t)], R=N.wrap(R), synthetic=syn, default=float(P['default']) if case['default'] else None)
        prices = {}
        if kind == 'none':
            value = None
        elif kind == 'scalar':
            value = float(P['value'])
        elif kind == 'array':
            arr = [float(x) for x in (P['price'] * 2)[:n]]
            value = np.asarray(arr, dtype=float)
            ctx['vf'] = lambda t: arr[int(t)]
        elif kind == 'key':
            value = 'p'
            pr = [float(x) for x in (list(P['price']) * 2)[:T]]
            prices = {'p': np.asarray(pr, dtype=float)}
            ctx['pf'] = lambda t: pr[int(t)]
        else:
            half = pd.Timedelta(30, 'min')
            s = [tg.start + half * int(x) for x in P['starts']]
            e = [tg.start + half * int(x) for x in P['ends']]
            vals = [float(x) for x in P['values']]
            value = dict(start=list(s), end=list(e), values=list(vals))
            tp = [int(x.value) for x in R.timepoints]
            sv, ev = [int(x.value) for x in s], [int(x.value) for x in e]
            ctx.update(K=len(s), inn=lambda j, t: sv[int(j)] <= tp[int(t)] < ev[int(j)], v=lambda j: vals[int(j)])
        ctx['value'] = value
        return (lambda: asset.make_vector(value, prices, ctx['default'], convert=case['convert'])), ctx
