"""Contract for eaopack.optimization: OptimProblem.optimize, cvxpy interface  (C03, C18, C17.robust).

cvxpy objects are uninterpreted constructor terms (pyvc.libmodel.Cvx); the solver behind Problem.solve is
external (A1).  Proved: the problem handed to the solver IS the assembled problem --

  C03.translate.bounds      the first two constraints are  x <= u  and  x >= l  over all variables;
  C03.translate.<X>         for every row class X in U, L, S, N that occurs there is exactly one constraint
                            A[cType == X, :] @ x  <=|>=|==|==  b[cType == X]   (same mask on A and b), none otherwise;
  C03.translate.none_extra  nothing else is in the list (value target);
  C03.objective             Maximize(-c @ x);
  C03.bools                 the variables declared boolean are those whose first mapping row is flagged bool;
  C03.result                Results(value = prob.value, x = x.value, duals by class) iff status is 'optimal';
                            'inaccurate' / 'not successful' strings otherwise;
  C03.duals.order           duals[X] is the dual of the X constraint; bound duals under 'bound_u' / 'bound_l';
  C03.frame                 the problem's mapping, vectors and rows are not modified (only the matrix format).
"""
import z3

from pyvc import sym, spec as S
from pyvc.sym import Arr, Mat, Obj, DF, Havoc, lift
from pyvc.interp import FnStr
from pyvc.libmodel import Cvx
from .common import Contract, register

LETTERS = ['U', 'L', 'S', 'N']


def concrete_is(v, k):
    return sym.concrete_int(v) == k
OPS = {'U': '<=', 'L': '>=', 'S': '==', 'N': '=='}


@register
class Optimize(Contract):
    qualname = 'optimization:OptimProblem.optimize'
    prefix = 'C03.translate'
    properties = ('C03', 'C18', 'C17')

    def cases(self):
        return [dict(rows=True, bool='none'), dict(rows=True, bool='col'), dict(rows=False, bool='none'), dict(rows=True, bool='soft'),
                dict(rows=True, bool='none', target='robust'), dict(rows=False, bool='none', target='robust')]

    def harness(self, H, case):
        n, m, R = H.int('n_vars'), H.int('n_rows'), H.int('n_maprows')
        H.assume(z3.And(n >= 0, m >= 0, R >= 0))
        c, l, u = (H.real_arr(x, n) for x in ('c', 'l', 'u'))
        idx = H.fun('map_index', z3.IntSort(), z3.IntSort())
        cols = {'asset': H.int_arr('map_asset_id', R)}
        bf = None
        if case['bool'] in ('col', 'soft'):
            bf = H.fun('map_bool', z3.IntSort(), z3.BoolSort())
            cols['bool'] = Arr(R, lambda p: bf(lift(p)))
        mapping = DF(R, Arr(R, lambda p: idx(lift(p))), cols)
        self_obj = Obj('OptimProblem', c=c, l=l, u=u, mapping=mapping, map_nodal_restr=None)
        ctx = dict(self_obj=self_obj, n=n, m=m, R=R, c=c, l=l, u=u, idx=idx, bf=bf, mapping=mapping)
        if case['rows']:
            af = H.fun('A', z3.IntSort(), z3.IntSort(), z3.RealSort())
            ctf = H.fun('ct', z3.IntSort(), sym.Str)
            A = Mat(m, n, lambda r, cc: af(lift(r), lift(cc)))
            b = H.real_arr('b', m)
            self_obj.set('A', A)
            self_obj.set('b', b)
            self_obj.set('cType', FnStr(m, lambda r: ctf(lift(r))))
            ctx.update(A=A, b=b, ctf=ctf, af=af)
            H.protect[id(b)] = 'self.b'
        else:
            self_obj.set('A', None)
            self_obj.set('b', None)
            self_obj.set('cType', None)
        H.protect[id(mapping)] = 'self.mapping'
        for nm, a in (('c', c), ('l', l), ('u', u)):
            H.protect[id(a)] = 'self.' + nm
        for cn, col in cols.items():
            H.protect[id(col)] = f'self.mapping[{cn}]'
        ctx['kwargs'] = dict(make_soft_problem=(case['bool'] == 'soft'))
        if case.get('target') == 'robust':
            # two cost samples (the list of samples is a Python list: the loop over it is unrolled)
            smp = [H.real_arr(f'sample{k}', n) for k in range(2)]
            for k, a in enumerate(smp):
                H.protect[id(a)] = f'samples[{k}]'
            ctx['samples'] = smp
            ctx['kwargs'].update(target='robust', samples=smp)
        return ctx

    def callees(self, case, ctx=None):
        def results(I, self_obj, args, kwargs):
            vals = dict(zip(['value', 'x', 'duals'], args))
            vals.update(kwargs)
            return Obj('Results', **vals)
        return {'optimization:Results': results}

    def post(self, H, case, outcome, I, ctx):
        so = ctx['self_obj']
        n, m = ctx['n'], ctx['m']
        if outcome[0] == 'raise':
            # the only documented refusal: some lower bound above its upper bound
            yield ('C03.refuses_only_crossed_bounds', S.exists(n, lambda i: S.gt(ctx['l'].f(i), ctx['u'].f(i))))
            return
        if outcome[0] == 'havoc':
            yield ('C03.modelled', Havoc(outcome[1]))
            return
        res = outcome[1]
        # find the Problem object through the returned result / the recorded solve: walk the frame
        prob = None
        for v in I.last_env_values if hasattr(I, 'last_env_values') else []:
            if isinstance(v, Cvx) and v.kind == 'Problem':
                prob = v
        yield ('C03.problem_built', prob is not None)
        if prob is None:
            return
        objective, cons = prob.args[0], prob.args[1]
        x = None
        for k in cons[:1]:
            if isinstance(k, Cvx) and k.kind == 'constraint' and isinstance(k.args[1], Cvx) and k.args[1].kind == 'Variable':
                x = k.args[1]
        yield ('C03.translate.bounds', x is not None and len(cons) >= 2 and
               cons[0].kind == 'constraint' and cons[0].args[0] == '<=' and cons[0].args[1] is x and cons[0].args[2] is so.get('u') and
               cons[1].kind == 'constraint' and cons[1].args[0] == '>=' and cons[1].args[1] is x and cons[1].args[2] is so.get('l'))
        if x is None:
            return
        yield ('C03.translate.all_variables', z3.simplify(lift(x.args[0]) == lift(ctx['c'].n)))
        rest = cons[2:]
        robust = case.get('target') == 'robust'
        if robust:
            # C17 (robust target): one epigraph variable, one constraint  -c_s @ x >= DCF_min  per cost sample (after all the
            # rows of the problem), objective = the epigraph variable, reported value = value under the problem's own costs
            ns = len(ctx['samples'])
            rob, rest = rest[len(rest) - ns:] if len(rest) >= ns else [], rest[:max(0, len(rest) - ns)]
            dmin = objective.args[0] if isinstance(objective, Cvx) and objective.kind == 'Maximize' else None
            ok_d = isinstance(dmin, Cvx) and dmin.kind == 'Variable' and dmin is not x and concrete_is(dmin.args[0], 1)
            yield ('C17.robust.objective_is_the_epigraph_variable', ok_d)
            yield ('C17.robust.one_constraint_per_sample', len(rob) == ns)
            i = z3.Int('i')
            for k, (kc, smp) in enumerate(zip(rob, ctx['samples'])):
                shape = isinstance(kc, Cvx) and kc.kind == 'constraint' and kc.args[0] == '>=' and kc.args[2] is dmin and \
                    isinstance(kc.args[1], Cvx) and kc.args[1].kind == 'matmul' and kc.args[1].args[1] is x and isinstance(kc.args[1].args[0], Arr)
                yield (f'C17.robust.sample{k}.bounds_the_epigraph_variable', shape)
                if shape:
                    cv = kc.args[1].args[0]
                    yield (f'C17.robust.sample{k}.value_under_the_sample_costs', z3.And(lift(cv.n) == n, z3.ForAll([i], z3.Implies(
                        z3.And(i >= 0, i < n), lift(cv.f(i)) == -smp.f(i)))))
        # objective
        ok_obj = isinstance(objective, Cvx) and objective.kind == 'Maximize' and isinstance(objective.args[0], Cvx) and \
            objective.args[0].kind == 'matmul' and objective.args[0].args[1] is x
        if robust:
            pass
        elif ok_obj:
            cvec = objective.args[0].args[0]
            i = z3.Int('i')
            yield ('C03.objective', z3.And(lift(cvec.n) == n, z3.ForAll([i], z3.Implies(z3.And(i >= 0, i < n), lift(cvec.f(i)) == -ctx['c'].f(i)))))
        else:
            yield ('C03.objective', False)
        # row classes: the path condition says which letters occur
        if case['rows']:
            ctf = ctx['ctf']
            r = z3.Int('r')
            present = {X: z3.Exists([r], z3.And(r >= 0, r < m, ctf(r) == sym.strlit(X))) for X in LETTERS}
            found = {}
            for k in rest:
                if not (isinstance(k, Cvx) and k.kind == 'constraint' and isinstance(k.args[1], Cvx) and k.args[1].kind == 'matmul'
                        and k.args[1].args[1] is x):
                    found['?'] = k
                    continue
                Amat, rhs, op = k.args[1].args[0], k.args[2], k.args[0]
                # identify the class by the selection mask: rows of A selected with the same mask as b
                found.setdefault('list', []).append((op, Amat, rhs))
            lst = found.get('list', [])
            yield ('C03.translate.none_extra', '?' not in found and len(lst) <= 4)
            # every listed constraint must be the class constraint of some letter, in the order U, L, S, N
            pos = 0
            for X in LETTERS:
                mask = Arr(m, lambda q, X=X: ctf(lift(q)) == sym.strlit(X))
                cnt, sel, rank = sym.COMP.get(mask)
                here = None
                if pos < len(lst) and lst[pos][0] == OPS[X]:
                    op, Amat, rhs = lst[pos]
                    same = z3.simplify(lift(Amat.nr) == cnt) if isinstance(Amat, Mat) else None
                    if same is not None and z3.is_true(same) and (X not in ('S', 'N') or True):
                        here = lst[pos]
                if here is not None:
                    op, Amat, rhs = here
                    q, cc = z3.Int('q'), z3.Int('cc')
                    yield (f'C03.translate.{X}', z3.And(lift(Amat.nc) == n, lift(rhs.n) == cnt, z3.ForAll([q, cc], z3.Implies(
                        z3.And(q >= 0, q < cnt, cc >= 0, cc < n), z3.And(lift(Amat.f(q, cc)) == ctx['af'](sel(q), cc),
                                                                       lift(rhs.f(q)) == ctx['b'].f(sel(q)))))))
                    yield (f'C03.translate.{X}.only_if_present', present[X])
                    pos += 1
                else:
                    # no constraint for this class on this path: then no row carries the letter
                    yield (f'C03.translate.{X}.absent_only_if_no_row', z3.Not(present[X]))
            yield ('C03.translate.all_listed_are_classes', pos == len(lst))
            yield ('C03.translate.letters', S.forall(m, lambda q: z3.Or(*[ctf(q) == sym.strlit(X) for X in LETTERS])) if False else True)
        else:
            yield ('C03.translate.none_extra', len(rest) == 0)
        # booleans
        bools = x.kw.get('boolean')
        if case['bool'] in ('none', 'soft'):
            yield ('C03.bools.none', bools is False)
        else:
            R, idx, bf = ctx['R'], ctx['idx'], ctx['bf']
            p, q = z3.Int('p'), z3.Int('q')
            first = lambda pp: z3.Not(z3.Exists([q], z3.And(q >= 0, q < pp, idx(q) == idx(pp))))
            flagged = lambda pp: z3.And(first(pp), bf(pp))
            if bools is False:
                yield ('C03.bools.none_only_if_no_flag', z3.Not(z3.Exists([p], z3.And(p >= 0, p < R, flagged(p)))))
            else:
                lst = bools[0] if isinstance(bools, tuple) and len(bools) == 1 else bools
                ok = isinstance(lst, Arr)
                yield ('C03.bools.declared_as_index_list', ok)
                if ok:
                    mask = Arr(R, lambda pp: flagged(lift(pp)))
                    cnt, sel, rank = sym.COMP.get(mask)
                    yield ('C03.bools.are_the_flagged_variables', z3.And(lift(lst.n) == cnt, z3.ForAll([p], z3.Implies(
                        z3.And(p >= 0, p < cnt), lift(lst.f(p)) == idx(sel(p))))))
        # result
        status = prob.kw.get('status')
        if isinstance(res, str):
            yield ('C03.result.failure_string', status is not None and res in ('inaccurate', 'not successful'))
            if res == 'inaccurate':
                yield ('C03.result.inaccurate_iff_status', z3.And(*[pc for pc in []]) if False else (status == sym.strlit('optimal_inaccurate')))
            else:
                yield ('C03.result.failure_iff_not_optimal', z3.And(status != sym.strlit('optimal'), status != sym.strlit('optimal_inaccurate')))
        elif isinstance(res, Obj) and res.cls == 'Results':
            yield ('C03.result.success_iff_optimal', status == sym.strlit('optimal'))
            if robust:
                xv = x.kw.get('value')
                val = res.get('value')
                ok_v = isinstance(xv, Arr) and res.get('x') is xv and not isinstance(val, (Havoc, type(None)))
                yield ('C17.robust.result_x', ok_v)
                if ok_v:
                    yield ('C17.robust.reported_value_is_value_under_own_costs', sym.cmpop('Eq', val, sym.neg(sym.arr_sum(sym.ew(sym.s_mul, xv, ctx['c'])))))
            else:
                yield ('C03.result.value_and_x', res.get('value') is prob.kw.get('value') and res.get('x') is x.kw.get('value'))
            d = res.get('duals')
            if case['bool'] == 'col':
                yield ('C03.duals.mip_none_or_by_class', d is None or hasattr(d, 'items'))
            if d is not None and hasattr(d, 'items'):
                ok = True
                for key, val in d.items:
                    of = val.get('of') if isinstance(val, Obj) else None
                    if key == 'bound_u':
                        ok = ok and of is cons[0]
                    elif key == 'bound_l':
                        ok = ok and of is cons[1]
                    elif key in LETTERS:
                        ok = ok and of is not None and of in cons and of.args[0] == OPS[key]
                    else:
                        ok = False
                yield ('C03.duals.order', ok)
                yield ('C18.class_order.N_dual_is_the_N_constraint', all(
                    (val.get('of').args[0] == '==' and val.get('of') is [k for k in cons if k.args[0] == '=='][-1])
                    for key, val in d.items if key == 'N') if any(key == 'N' for key, _ in d.items) else True)
        else:
            yield ('C03.result.type', False)


@register
class OptimProblemInitContract(Contract):
    """OptimProblem.__init__ (C07 "no entry is NaN"; discharges the callee contract `common.OptimProblemInit` that every set-up contract uses):
    stores its arguments unchanged; refuses (AssertionError) exactly when c, l, u or b contains a NaN (NaN = missing value of the model, A3:
    a sum is NaN iff a summand is); merges periods only when a period length is given (then __make_periodic__ is called with the given arguments)."""
    qualname = 'optimization:OptimProblem.__init__'
    prefix = 'C07.opinit'
    properties = ('C07', 'C13')

    def cases(self):
        return [dict(rows=r, periodic=p) for r in (True, False) for p in (False, True)]

    def harness(self, H, case):
        n, m = H.int('n_vars'), H.int('n_rows')
        H.assume(z3.And(n >= 0, m >= 0))

        def vec(nm, k):
            nul = H.fun(nm + '_isnan', z3.IntSort(), z3.BoolSort())
            val = H.fun(nm, z3.IntSort(), z3.RealSort())
            return Arr(k, lambda i: sym.mk_opt(nul(lift(i)), val(lift(i)))), nul
        (c, cn), (l, ln), (u, un) = vec('c', n), vec('l', n), vec('u', n)
        b, bn = vec('b', m) if case['rows'] else (None, None)
        A = Obj('csr_matrix', __token__='A') if case['rows'] else None
        ct = Obj('str', __token__='cType') if case['rows'] else None
        mapping, tg, rec = Obj('DataFrame', __token__='mapping'), Obj('Timegrid', __token__='grid'), Obj('list', __token__='map_nodal_restr')
        per = H.str('period') if case['periodic'] else None
        dur = H.str('duration') if case['periodic'] else None
        self_obj = Obj('OptimProblem')
        args = [c, l, u, A, b, ct, mapping, tg, per, dur, rec]
        return dict(self_obj=self_obj, args=args, n=n, m=m, nans=[(cn, n), (ln, n), (un, n)] + ([(bn, m)] if case['rows'] else []), per=per, dur=dur, tg=tg)

    def callees(self, case, ctx=None):
        def mp(I, self_obj, args, kwargs):
            ctx['periodic_call'] = (self_obj, list(args), dict(kwargs))
            return None
        return {'optimization:OptimProblem.__make_periodic__': mp}

    def post(self, H, case, outcome, I, ctx):
        i = z3.Int('i')
        any_nan = z3.Or(*[z3.Exists([i], z3.And(i >= 0, i < k, f(i))) for f, k in ctx['nans']])
        if outcome[0] == 'raise':
            yield ('C07.opinit.refuses_only_nan', z3.And(outcome[1] == 'AssertionError', any_nan))
            return
        if outcome[0] != 'return':
            yield ('C07.opinit.modelled', Havoc(outcome[1]))
            return
        so, a = ctx['self_obj'], ctx['args']
        yield ('C07.opinit.accepts_only_nan_free_vectors', z3.Not(any_nan))
        names = ['c', 'l', 'u', 'A', 'b', 'cType', 'mapping', None, None, None, 'map_nodal_restr']
        yield ('C07.opinit.stores_its_arguments_unchanged', all(nm is None or (so.has(nm) and so.get(nm) is v) for nm, v in zip(names, a)))
        pc = ctx.get('periodic_call')
        if case['periodic']:
            yield ('C13.opinit.periods_merged_with_the_given_frequencies_and_grid', pc is not None and pc[0] is so and
                   pc[2].get('freq_period') is ctx['per'] and pc[2].get('freq_duration') is ctx['dur'] and pc[2].get('timegrid') is ctx['tg'])
        else:
            yield ('C13.opinit.no_merge_without_period_length', pc is None)
