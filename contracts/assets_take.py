"""Contract for eaopack.assets: Contract.setup_optim_problem -- the driver that adds the minimum / maximum take rows to the SimpleContract
problem (C02 "minimum/maximum take", C08).  define_restr (period -> covered steps -> one row, prorated right-hand side) is a callee here with the
contract that the bounded take scenario checks on the real function (bounded/scenarios.py check_take): it returns k rows over the n variables,
k right-hand sides and the type letter it was given, k times.

Proved: the SimpleContract problem is extended by the rows define_restr returns for max_take under 'U' (<=) and for min_take under 'L' (>=), in
that order, after the rows that were there; define_restr receives the take dictionary, the matching letter, the number of variables, the
mapping and the asset's own grid; vectors and mapping are untouched; costs_only returns the cost vector unchanged; the user's take
dictionaries are not written."""
import z3

from pyvc import sym, spec as S
from pyvc.sym import Arr, Mat, Obj, DF, Havoc, lift
from pyvc.interp import FnStr, RepStr, Seg
from .common import Contract, register


@register
class ContractTakeDriver(Contract):
    qualname = 'assets:Contract.setup_optim_problem'
    prefix = 'C02.take_driver'
    properties = ('C02', 'C08', 'C10')

    def cases(self):
        return [dict(mx=a, mn=b, rows=r, costs_only=False) for a in (False, True) for b in (False, True) for r in (False, True)] + [dict(mx=True, mn=True, rows=False, costs_only=True)]

    def harness(self, H, case):
        n, m0 = H.int('n_vars'), H.int('n_rows0')
        H.assume(z3.And(n >= 0, m0 >= 0))
        c, l, u = (H.real_arr(x, n) for x in ('c', 'l', 'u'))
        mapping = Obj('DataFrame', __token__='mapping of the SimpleContract problem')
        op = Obj('OptimProblem', c=c, l=l, u=u, mapping=mapping)
        if case['rows']:
            af = H.fun('A0', z3.IntSort(), z3.IntSort(), z3.RealSort())
            ctf = H.fun('ct0', z3.IntSort(), sym.Str)
            op.set('A', Mat(m0, n, lambda r, cc: af(lift(r), lift(cc))))
            op.set('b', H.real_arr('b0', m0))
            op.set('cType', FnStr(m0, lambda r: ctf(lift(r))))
        else:
            af = ctf = None
            op.set('A', None)
            op.set('b', None)
            op.set('cType', None)
        takes = {}
        for key in ('mx', 'mn'):
            if case[key]:
                K = H.int(f'K_{key}')
                H.assume(K >= 0)
                d = {'start': Arr(K, lambda i: 0, kind='list'), 'end': Arr(K, lambda i: 0, kind='list'), 'values': Arr(K, lambda i: 0, kind='list')}
                takes[key] = d
                H.protect[id(d)] = 'max_take' if key == 'mx' else 'min_take'
        tg = Obj('Timegrid', __token__="the asset's grid")
        self_obj = Obj('Contract', name=H.str('asset_name'), min_take=takes.get('mn'), max_take=takes.get('mx'), timegrid=tg, periodicity=None, periodicity_duration=None)
        ctx = dict(self_obj=self_obj, op=op, n=n, m0=m0, c=c, l=l, u=u, af=af, ctf=ctf, b0=op.get('b'), mapping=mapping, takes=takes, tg=tg,
                   kwargs=dict(prices={'p': H.real_arr('price', H.int('T'))}, timegrid=None, costs_only=case['costs_only']))
        H.protect[id(c)] = 'op.c'
        H.protect[id(l)] = 'op.l'
        H.protect[id(u)] = 'op.u'
        return ctx

    def callees(self, case, ctx=None):
        def base(I, self_obj, args, kwargs):
            ctx['base_call'] = dict(kwargs)
            if kwargs.get('costs_only'):
                return ctx['c']
            return ctx['op']

        def restr(I, self_obj, args, kwargs):
            k = len(ctx.setdefault('restr_calls', []))
            H = ctx['H']
            m = H.int(f'restr_rows_{k}')
            I.assume(m >= 0)
            f = z3.Function(f'restr_A_{k}', z3.IntSort(), z3.IntSort(), z3.RealSort())
            bf = z3.Function(f'restr_b_{k}', z3.IntSort(), z3.RealSort())
            ctx['restr_calls'].append(dict(args=list(args), m=m, f=f, bf=bf))
            letter = args[1]
            return (Mat(m, args[2], lambda r, cc: f(lift(r), lift(cc))), Arr(m, lambda r: bf(lift(r))), RepStr(letter, m))
        return {'assets:SimpleContract.setup_optim_problem': base, 'assets:define_restr': restr}

    def post(self, H, case, outcome, I, ctx):
        if outcome[0] != 'return':
            yield ('C02.take_driver.no_raise', False if outcome[0] == 'raise' else Havoc(outcome[1]))
            return
        res = outcome[1]
        bc = ctx.get('base_call')
        yield ('C02.take_driver.simple_contract_problem_first', bc is not None and bc.get('costs_only') is case['costs_only'] and bc.get('timegrid') is None)
        if case['costs_only']:
            yield ('C17.costs_only.contract_with_take.equals_simple_contract_costs', res is ctx['c'])
            return
        calls = ctx.get('restr_calls', [])
        want = ([('mx', 'U')] if case['mx'] else []) + ([('mn', 'L')] if case['mn'] else [])
        ok = len(calls) == len(want) and all(cl['args'][0] is ctx['takes'][k] and cl['args'][1] == let and cl['args'][2] is not None and
                                             z3.is_true(z3.simplify(lift(cl['args'][2]) == ctx['n'])) and cl['args'][3] is ctx['mapping'] and cl['args'][4] is ctx['tg']
                                             for cl, (k, let) in zip(calls, want))
        yield ('C02.take_driver.max_take_as_upper_min_take_as_lower_rows', ok)
        yield ('C02.take_driver.same_problem_object_vectors_and_mapping_untouched', res is ctx['op'] and res.get('c') is ctx['c'] and res.get('l') is ctx['l'] and
               res.get('u') is ctx['u'] and res.get('mapping') is ctx['mapping'])
        if not ok:
            return
        A, b, ct = (res.get(k) for k in ('A', 'b', 'cType'))
        n, m0 = ctx['n'], (ctx['m0'] if case['rows'] else 0)
        tot = sum((cl['m'] for cl in calls), 0)
        if not calls and not case['rows']:
            yield ('C02.take_driver.no_rows_without_take', A is None and b is None and ct is None)
            return
        if A is None:
            # nothing added: only if define_restr returned no row at all (no period covers a step) and the problem had no rows
            yield ('C02.take_driver.nothing_added_only_if_no_row_returned', z3.And(lift(tot) == 0, not case['rows']))
            return
        if isinstance(A, Havoc):
            yield ('C02.take_driver.rows', A)
            return
        r, cc = z3.Int('r'), z3.Int('cc')
        Af = A.f if isinstance(A, Mat) else None
        if Af is None:
            yield ('C02.take_driver.rows', Havoc('rows not a matrix'))
            return
        # either some take row exists (then rows = old ++ max ++ min) or none (then the problem is unchanged)
        some = (tot > 0) if not isinstance(tot, int) else (tot > 0)
        offs = [m0]
        for cl in calls:
            offs.append(offs[-1] + cl['m'])
        cl_ok = []
        if case['rows']:
            cl_ok.append(z3.ForAll([r, cc], z3.Implies(z3.And(r >= 0, r < m0, cc >= 0, cc < n), z3.And(
                lift(Af(r, cc)) == ctx['af'](r, cc), lift(b.f(r)) == ctx['b0'].f(r), lift(S.char_at(ct, r)) == ctx['ctf'](r)))))
        for k, (cl, (_, let)) in enumerate(zip(calls, want)):
            cl_ok.append(z3.ForAll([r, cc], z3.Implies(z3.And(r >= 0, r < cl['m'], cc >= 0, cc < n), z3.And(
                lift(Af(offs[k] + r, cc)) == cl['f'](r, cc), lift(b.f(offs[k] + r)) == cl['bf'](r), lift(S.char_at(ct, offs[k] + r)) == sym.strlit(let)))))
        yield ('C02.take_driver.rows_are_old_then_max_then_min', z3.And(lift(A.nr) == offs[-1], lift(A.nc) == n, lift(b.n) == offs[-1], lift(S.str_len(ct)) == offs[-1], *cl_ok))

    def harness_wrap(self):
        pass


_h = ContractTakeDriver.harness


def _harness(self, H, case):
    ctx = _h(self, H, case)
    ctx['H'] = H
    return ctx


ContractTakeDriver.harness = _harness


@register
class ExtendedTransportTakeDriver(Contract):
    """ExtendedTransport.setup_optim_problem: take limits on a transport refer to the volume taken OUT of the first node, whose dispatch is
    negative: a maximum take v becomes a LOWER bound -v on the first node's dispatch, a minimum take an UPPER bound -v (C02, C08).  Proved:
    define_restr is called with a COPY of the dictionary whose values are negated (the user's dictionary is not written), the swapped letter,
    restricted to the first node; rows appended as old ++ max ++ min; vectors and mapping untouched."""
    qualname = 'assets:ExtendedTransport.setup_optim_problem'
    prefix = 'C02.take_transport'
    properties = ('C02', 'C08', 'C10')

    def cases(self):
        return [dict(mx=a, mn=b, rows=r, costs_only=False) for a in (False, True) for b in (False, True) for r in (False, True)]

    def harness(self, H, case):
        ctx = _h(ContractTakeDriver, H, case) if False else None
        n, m0 = H.int('n_vars'), H.int('n_rows0')
        H.assume(z3.And(n >= 0, m0 >= 0))
        c, l, u = (H.real_arr(x, n) for x in ('c', 'l', 'u'))
        mapping = Obj('DataFrame', __token__='mapping of the Transport problem')
        op = Obj('OptimProblem', c=c, l=l, u=u, mapping=mapping)
        if case['rows']:
            af = H.fun('A0', z3.IntSort(), z3.IntSort(), z3.RealSort())
            ctf = H.fun('ct0', z3.IntSort(), sym.Str)
            op.set('A', Mat(m0, n, lambda r, cc: af(lift(r), lift(cc))))
            op.set('b', H.real_arr('b0', m0))
            op.set('cType', FnStr(m0, lambda r: ctf(lift(r))))
        else:
            af = ctf = None
            op.set('A', None)
            op.set('b', None)
            op.set('cType', None)
        takes, vals = {}, {}
        for key in ('mx', 'mn'):
            if case[key]:
                K = H.int(f'K_{key}')
                H.assume(K >= 0)
                vf = H.fun(f'take_values_{key}', z3.IntSort(), z3.RealSort())
                d = {'start': Arr(K, lambda i: 0, kind='list'), 'end': Arr(K, lambda i: 0, kind='list'), 'values': Arr(K, lambda i, _f=vf: _f(lift(i)), kind='list')}
                takes[key], vals[key] = d, (vf, K)
                H.protect[id(d)] = 'max_take' if key == 'mx' else 'min_take'
                H.protect[id(d['values'])] = ('max_take' if key == 'mx' else 'min_take') + "['values']"
        tg = Obj('Timegrid', __token__="the asset's grid")
        names = [H.str('node_from'), H.str('node_to')]
        self_obj = Obj('ExtendedTransport', name=H.str('asset_name'), min_take=takes.get('mn'), max_take=takes.get('mx'), timegrid=tg, periodicity=None,
                       periodicity_duration=None, node_names=names)
        return dict(self_obj=self_obj, op=op, n=n, m0=m0, c=c, l=l, u=u, af=af, ctf=ctf, b0=op.get('b'), mapping=mapping, takes=takes, vals=vals, tg=tg, names=names, H=H,
                    kwargs=dict(prices={}, timegrid=None, costs_only=False))

    def callees(self, case, ctx=None):
        d = ContractTakeDriver.callees(self, case, ctx)
        return {'assets:Transport.setup_optim_problem': d['assets:SimpleContract.setup_optim_problem'], 'assets:define_restr': lambda I, so, args, kw: d['assets:define_restr'](I, so, list(args) + [kw.get('node')], kw)}

    def post(self, H, case, outcome, I, ctx):
        if outcome[0] != 'return':
            yield ('C02.take_transport.no_raise', False if outcome[0] == 'raise' else Havoc(outcome[1]))
            return
        res = outcome[1]
        calls = ctx.get('restr_calls', [])
        want = ([('mx', 'L')] if case['mx'] else []) + ([('mn', 'U')] if case['mn'] else [])
        ok = len(calls) == len(want)
        i = z3.Int('i')
        neg = []
        for cl, (k, let) in zip(calls, want):
            a = cl['args']
            d = a[0]
            vf, K = ctx['vals'][k]
            ok = ok and isinstance(d, dict) and d is not ctx['takes'][k] and d.get('start') is ctx['takes'][k]['start'] and d.get('end') is ctx['takes'][k]['end'] and \
                isinstance(d.get('values'), Arr) and a[1] == let and z3.is_true(z3.simplify(lift(a[2]) == ctx['n'])) and a[3] is ctx['mapping'] and a[4] is ctx['tg'] and \
                len(a) >= 6 and a[5] is ctx['names'][0]
            if ok:
                neg.append(z3.And(lift(d['values'].n) == K, z3.ForAll([i], z3.Implies(z3.And(i >= 0, i < K), lift(d['values'].f(i)) == -vf(i)))))
        yield ('C02.take_transport.max_take_as_lower_min_take_as_upper_bound_on_the_first_node', ok)
        if ok and neg:
            yield ('C02.take_transport.values_negated_on_a_copy', z3.And(*neg))
        yield ('C02.take_transport.same_problem_object_vectors_and_mapping_untouched', res is ctx['op'] and res.get('c') is ctx['c'] and res.get('l') is ctx['l'] and
               res.get('u') is ctx['u'] and res.get('mapping') is ctx['mapping'])
        if not ok:
            return
        A, b, ct = (res.get(k) for k in ('A', 'b', 'cType'))
        n, m0 = ctx['n'], (ctx['m0'] if case['rows'] else 0)
        tot = sum((cl['m'] for cl in calls), 0)
        if not calls and not case['rows']:
            yield ('C02.take_transport.no_rows_without_take', A is None and b is None and ct is None)
            return
        if A is None:
            yield ('C02.take_transport.nothing_added_only_if_no_row_returned', z3.And(lift(tot) == 0, not case['rows']))
            return
        if isinstance(A, Havoc) or not isinstance(A, Mat):
            yield ('C02.take_transport.rows', A if isinstance(A, Havoc) else Havoc('rows not a matrix'))
            return
        r, cc = z3.Int('r'), z3.Int('cc')
        offs = [m0]
        for cl in calls:
            offs.append(offs[-1] + cl['m'])
        cl_ok = []
        if case['rows']:
            cl_ok.append(z3.ForAll([r, cc], z3.Implies(z3.And(r >= 0, r < m0, cc >= 0, cc < n), z3.And(
                lift(A.f(r, cc)) == ctx['af'](r, cc), lift(b.f(r)) == ctx['b0'].f(r), lift(S.char_at(ct, r)) == ctx['ctf'](r)))))
        for k, (cl, (_, let)) in enumerate(zip(calls, want)):
            cl_ok.append(z3.ForAll([r, cc], z3.Implies(z3.And(r >= 0, r < cl['m'], cc >= 0, cc < n), z3.And(
                lift(A.f(offs[k] + r, cc)) == cl['f'](r, cc), lift(b.f(offs[k] + r)) == cl['bf'](r), lift(S.char_at(ct, offs[k] + r)) == sym.strlit(let)))))
        yield ('C02.take_transport.rows_are_old_then_max_then_min', z3.And(lift(A.nr) == offs[-1], lift(A.nc) == n, lift(b.n) == offs[-1], lift(S.str_len(ct)) == offs[-1], *cl_ok))


@register
class MultiCommoditySetup(Contract):
    """MultiCommodityContract.setup_optim_problem: C02 "multi-commodity contracts" / C01 "commodity factors": the Contract problem stays as it is
    (same variables, vectors, rows); every dispatch row of the mapping is repeated once per node of the asset, at that node, with the
    commodity factor of the node (times a factor the row already carries, e.g. the minor-grid weight) -- so the dispatch of variable j at node
    i is factor_i x x_j.  Nodes: a Python list of two or three nodes (unrolled)."""
    qualname = 'assets:MultiCommodityContract.setup_optim_problem'
    prefix = 'C02.multi'
    properties = ('C02', 'C01', 'C07')

    def cases(self):
        return [dict(nodes=k, dispf=d, costs_only=False) for k in (2, 3) for d in (False, True)] + [dict(nodes=2, dispf=False, costs_only=True)]

    def harness(self, H, case):
        n, R = H.int('n_vars'), H.int('n_maprows')
        H.assume(z3.And(n >= 0, R >= 0))
        c, l, u = (H.real_arr(x, n) for x in ('c', 'l', 'u'))
        idx = H.fun('map_index', z3.IntSort(), z3.IntSort())
        ts = H.fun('map_time_step', z3.IntSort(), z3.IntSort())
        nm = H.str('asset_name')
        col = lambda f: Arr(R, lambda q: f(lift(q)))
        cols = {'time_step': col(ts), 'asset': Arr(R, lambda q: nm), 'type': Arr(R, lambda q: 'd'), 'node': Arr(R, lambda q: H.str('node_of_contract')),
                'var_name': Arr(R, lambda q: 'disp')}
        df0 = None
        if case['dispf']:
            df0 = H.fun('map_disp_factor', z3.IntSort(), z3.RealSort())
            cols['disp_factor'] = col(df0)
        mapping = DF(R, col(idx), cols)
        A = Obj('csr_matrix', __token__='rows of the Contract problem')
        op = Obj('OptimProblem', c=c, l=l, u=u, A=A, b=Obj('ndarray', __token__='b'), cType=Obj('str', __token__='cType'), mapping=mapping)
        k = case['nodes']
        names = [H.str(f'node{i}') for i in range(k)]
        fac = [H.real(f'factor{i}') for i in range(k)]
        self_obj = Obj('MultiCommodityContract', name=nm, nodes=[Obj('Node', name=x) for x in names], factors_commodities=fac, periodicity=None)
        H.protect[id(c)] = 'op.c'
        return dict(self_obj=self_obj, op=op, n=n, R=R, c=c, l=l, u=u, A=A, idx=idx, ts=ts, df0=df0, names=names, fac=fac,
                    kwargs=dict(prices={}, timegrid=None, costs_only=case['costs_only']))

    def callees(self, case, ctx=None):
        def base(I, self_obj, args, kwargs):
            ctx['base_call'] = dict(kwargs)
            return ctx['c'] if kwargs.get('costs_only') else ctx['op']
        return {'assets:Contract.setup_optim_problem': base}

    def post(self, H, case, outcome, I, ctx):
        if outcome[0] != 'return':
            yield ('C02.multi.no_raise', False if outcome[0] == 'raise' else Havoc(outcome[1]))
            return
        res = outcome[1]
        if case['costs_only']:
            yield ('C17.costs_only.multi_commodity.equals_contract_costs', res is ctx['c'])
            return
        yield ('C02.multi.problem_of_the_contract_kept', res is ctx['op'] and all(res.get(k) is ctx[k] for k in ('c', 'l', 'u', 'A')))
        m = res.get('mapping')
        if not isinstance(m, DF) or any(not isinstance(m.cols.get(k), Arr) for k in ('node', 'disp_factor', 'time_step', 'type')):
            yield ('C02.multi.modelled', Havoc('mapping of the multi-commodity problem is not a modelled frame'))
            return
        R, k = ctx['R'], case['nodes']
        q = z3.Int('q')
        yield ('C02.multi.one_copy_of_the_dispatch_rows_per_node', lift(m.n) == k * R)
        for i in range(k):
            want = (lambda qq, i=i: ctx['df0'](qq) * ctx['fac'][i]) if case['dispf'] else (lambda qq, i=i: ctx['fac'][i])
            dfv = lambda qq, i=i: sym.null_parts(m.cols['disp_factor'].f(i * R + qq))
            yield (f'C01.multi.node{i}.dispatch_is_commodity_factor_times_variable', z3.ForAll([q], z3.Implies(z3.And(q >= 0, q < R), z3.And(
                lift(m.index.f(i * R + q)) == ctx['idx'](q), lift(m.cols['time_step'].f(i * R + q)) == ctx['ts'](q),
                lift(m.cols['node'].f(i * R + q)) == ctx['names'][i], lift(m.cols['type'].f(i * R + q)) == sym.strlit('d'),
                z3.Not(sym.to_bool(dfv(q)[0])), lift(dfv(q)[1]) == want(q)))))
