"""Contract for eaopack.io: extract_output(portf, op, res, prices) -- the function through which C01, C04, C05 and C18 observe a
solution ("as reported in the dispatch output", "the reported value", "the fill level and charge/discharge series reported",
"the nodal price reported for a node and step").

Taken from the statements, for an ARBITRARY result vector x (not only optimiser output), an arbitrary mapping satisfying WF_OP
(rows point to existing variables, rows of the portfolio's assets carry steps of the grid) and an arbitrary grid:

  C01  dispatch[t, asset (node)] = sum over the asset's dispatch rows p at that node and step of  x[var(p)] * disp_factor(p)
       (one column per asset and node; the column label carries the node unless the portfolio has a single node)
  C04  DCF[., asset] is the asset's own dcf() (callee, proved in assets_report.AssetDcf); summary value = res.value
  C05  storage charge[t]    = sum over the storage's dispatch rows at step t of  max(0, -x) * factor
       storage discharge[t] = sum ...                                            min(0, -x) * factor
       storage fill level   = the storage's own fill_level() (callee, proved in assets_report.StorageFillLevel)
  C18  prices[step_k, 'nodal price: ' + node_k] = - (dual of nodal row k)  for every recorded nodal row k (records pairwise
       different: post of create_nodal_restr), and no other entry of a nodal price column is set
  a failed optimisation (res is a status string) reports the status and no table.

Harness assumptions (listed in the evidence): asset and node names are fixed distinct literals (independence of names is C09's
business, label collisions of names containing ' (' are outside every statement: DESIGN D13); portfolios of one or two assets
(list loop unrolled) with one or two nodes each; no asset has internal variables (mapping rows of type 'i': their columns are
created under labels computed from data -- bounded scenario check_extract_output); `prices` None; no SLP columns.
"""
import z3

from pyvc import sym, spec as S
from pyvc.sym import Arr, Obj, DF, Havoc, TS, lift
from .common import Contract, register, mk_root_grid


KINDS = {
    'plain': ('SimpleContract', 1),
    'two_node': ('Transport', 2),
    'storage': ('Storage', 1),
    'storage2': ('Storage', 2),
}


@register
class ExtractOutput(Contract):
    qualname = 'io:extract_output'
    prefix = 'C01.output'
    properties = ('C01', 'C04', 'C05', 'C18')

    def cases(self):
        return [dict(assets=('plain',), nodes=1, duals=True),
                dict(assets=('two_node',), nodes=2, duals=True),
                dict(assets=('storage', 'plain'), nodes=1, duals=False),
                dict(assets=('plain', 'storage2'), nodes=2, duals=True),
                dict(assets=('plain',), nodes=1, duals='noneN'),
                dict(assets=('plain',), nodes=1, duals=True, failed=True)]

    def harness(self, H, case):
        g = mk_root_grid(H, tz=None)
        T = g.get('T')
        R, nv, M = H.int('n_rows'), H.int('n_vars'), H.int('n_nodal_rows')
        H.assume(z3.And(R >= 0, nv >= 0, M >= 0))
        F = dict(idx=H.fun('map_index', z3.IntSort(), z3.IntSort()), asset=H.fun('map_asset', z3.IntSort(), sym.Str),
                 type=H.fun('map_type', z3.IntSort(), sym.Str), node=H.fun('map_node', z3.IntSort(), sym.Str),
                 ts=H.fun('map_step', z3.IntSort(), z3.IntSort()), df=H.fun('map_disp_factor', z3.IntSort(), z3.RealSort()),
                 var=H.fun('map_var_name', z3.IntSort(), sym.Str))
        col = lambda f: Arr(R, lambda p, f=f: f(lift(p)))
        m = DF(R, col(F['idx']), {'asset': col(F['asset']), 'type': col(F['type']), 'node': col(F['node']), 'time_step': col(F['ts']),
                                  'disp_factor': col(F['df']), 'var_name': col(F['var'])})
        node_names = ['N0', 'N1'][:case['nodes']]
        nodes = {nm: Obj('Node', name=nm) for nm in node_names}
        assets = []
        for k, kind in enumerate(case['assets']):
            cls, nn = KINDS[kind]
            assets.append(Obj(cls, name=f'A{k}', nodes=[nodes[nm] for nm in node_names[:nn]] if nn <= len(node_names) else None))
        names = [a.get('name') for a in assets]
        p = z3.Int('wf!p')
        # WF_OP: every row points to an existing variable; rows of the portfolio's assets carry steps of the grid
        H.assume(z3.ForAll([p], z3.Implies(z3.And(p >= 0, p < R), z3.And(F['idx'](p) >= 0, F['idx'](p) < nv)), patterns=[F['idx'](p)]))
        mine = lambda q: z3.Or(*[F['asset'](q) == sym.strlit(nm) for nm in names])
        H.assume(z3.ForAll([p], z3.Implies(z3.And(p >= 0, p < R, mine(p)), z3.And(F['ts'](p) >= 0, F['ts'](p) < T)), patterns=[F['ts'](p)]))
        # no internal variables (see the module docstring)
        H.assume(z3.ForAll([p], z3.Implies(z3.And(p >= 0, p < R), F['type'](p) != sym.strlit('i')), patterns=[F['type'](p)]))
        c, x = H.real_arr('c', nv), H.real_arr('x', nv)
        # nodal records (step, node), pairwise different, steps on the grid (post of create_nodal_restr / the assembly)
        rs, rn = H.fun('rec_step', z3.IntSort(), z3.IntSort()), H.fun('rec_node', z3.IntSort(), sym.Str)
        k1, k2 = z3.Ints('wf!k1 wf!k2')
        H.assume(z3.ForAll([k1], z3.Implies(z3.And(k1 >= 0, k1 < M), z3.And(rs(k1) >= 0, rs(k1) < T)), patterns=[rs(k1)]))
        H.assume(z3.ForAll([k1, k2], z3.Implies(z3.And(k1 >= 0, k1 < k2, k2 < M), z3.Or(rs(k1) != rs(k2), rn(k1) != rn(k2))),
                           patterns=[z3.MultiPattern(rs(k1), rs(k2))]))
        recs = Arr(M, lambda k: (rs(lift(k)), rn(lift(k))), kind='list')
        op = Obj('OptimProblem', mapping=m, c=c, map_nodal_restr=recs)
        dN = H.real_arr('dual_N', M)
        if case.get('failed'):
            res = 'infeasible'
        else:
            duals = None if case['duals'] is False else {'N': (None if case['duals'] == 'noneN' else dN), 'bound_u': None, 'bound_l': None}
            res = Obj('Results', x=x, value=H.real('value'), duals=duals)
        portf = Obj('Portfolio', timegrid=g, assets=assets, nodes=nodes)
        for o, nm in ((m, 'op.mapping'), (c, 'op.c'), (x, 'res.x'), (dN, "res.duals['N']"), (recs, 'op.map_nodal_restr')):
            H.protect[id(o)] = nm
        dcf = {nm: H.fun(f'dcf_{nm}', z3.IntSort(), z3.RealSort()) for nm in names}
        fill = {nm: H.fun(f'fill_{nm}', z3.IntSort(), z3.RealSort()) for nm in names}
        return dict(args=[portf, op, res], kwargs={}, g=g, T=T, R=R, nv=nv, M=M, F=F, x=x, c=c, assets=assets, names=names, node_names=node_names,
                    rs=rs, rn=rn, dN=dN, res=res, dcf=dcf, fill=fill, op=op, value=None if case.get('failed') else res.get('value'))

    def callees(self, case, ctx=None):
        def dcf(I, self_obj, args, kwargs):
            ok = kwargs.get('optim_problem', args[0] if args else None) is ctx['op'] and kwargs.get('results', args[1] if len(args) > 1 else None) is ctx['res']
            I.require('callee-pre:dcf.of_this_problem_and_result', z3.BoolVal(bool(ok)), kind='callee-pre')
            f = ctx['dcf'][self_obj.get('name')]
            return Arr(ctx['T'], lambda t: f(lift(t)))

        def fill(I, self_obj, args, kwargs):
            ok = len(args) == 2 and args[0] is ctx['op'] and args[1] is ctx['res']
            I.require('callee-pre:fill_level.of_this_problem_and_result', z3.BoolVal(bool(ok)), kind='callee-pre')
            f = ctx['fill'][self_obj.get('name')]
            return Arr(ctx['T'], lambda t: f(lift(t)))
        return {'assets:Asset.dcf': dcf, 'assets:Storage.fill_level': fill}

    # ------------------------------------------------------------------------------------------------------------- post
    def post(self, H, case, outcome, I, ctx):
        if outcome[0] != 'return':
            yield ('C01.output.no_raise', False if outcome[0] == 'raise' else Havoc(outcome[1]))
            return
        out = outcome[1]
        if isinstance(out, sym.SymMap):
            out = {k: v for k, v in out.items if isinstance(k, str)}
        if not isinstance(out, dict):
            yield ('C01.output.returns_tables', Havoc('result is not a dictionary') if isinstance(out, Havoc) else False)
            return
        if case.get('failed'):
            summ = out.get('summary')
            if isinstance(summ, sym.SymMap):
                summ = dict(summ.items)
            yield ('C04.output.failed_run_reports_status_and_no_table', isinstance(summ, dict) and summ.get('status') == ctx['res'] and
                   all(out.get(k, 0) is None for k in ('DCF', 'dispatch', 'internal_variables', 'prices', 'special')))
            return
        T, R, F, x = ctx['T'], ctx['R'], ctx['F'], ctx['x']
        pc = list(I.pc) if I is not None else None
        single = case['nodes'] == 1 if I is not None else ctx['single']
        # ---- C04: summary value and DCF table
        summ = out.get('summary')
        yield ('C04.output.summary_value_is_result_value', _summary_value(summ, ctx))
        dcfs = out.get('DCF')
        for a in ctx['assets']:
            nm = a.get('name')
            colv = _col(dcfs, nm)
            if colv is None:
                yield (f'C04.output.dcf_table_is_the_assets_dcf[{nm}]', _missing(dcfs, nm))
                continue
            yield (f'C04.output.dcf_table_is_the_assets_dcf[{nm}]', S.and_(S.eq(colv.n, T), S.forall(T, lambda t, nm=nm, colv=colv: S.eq(colv.f(t), ctx['dcf'][nm](t)))))
        # ---- C01: dispatch
        disp = out.get('dispatch')
        want_cols = []
        for a in ctx['assets']:
            nm = a.get('name')
            for nd in a.get('nodes'):
                ndn = nd.get('name')
                label = nm if single else f'{nm} ({ndn})'
                want_cols.append(label)
                colv = _col(disp, label)
                if colv is None:
                    yield (f'C01.output.dispatch_is_sum_of_variable_times_factor[{label}]', _missing(disp, label))
                    continue
                sel = lambda p, nm=nm, ndn=ndn: S.and_(S.eq(F['asset'](p), nm), S.eq(F['type'](p), 'd'), S.eq(F['node'](p), ndn))
                want = lambda t, sel=sel: S.psum(lambda p: S.ite(S.and_(sel(p), S.eq(F['ts'](p), t)), x.f(F['idx'](p)) * F['df'](p), 0.0), 0, R, pc)
                yield (f'C01.output.dispatch_is_sum_of_variable_times_factor[{label}]', S.and_(S.eq(colv.n, T), S.forall(T, lambda t, colv=colv, want=want: S.eq(colv.f(t), want(t)))))
        if isinstance(disp, DF):
            yield ('C01.output.dispatch_column_per_asset_and_node', sorted(disp.cols) == sorted(want_cols))
        # ---- C05: storages
        iv = out.get('internal_variables')
        for a in ctx['assets']:
            if a.cls != 'Storage':
                continue
            nm = a.get('name')
            sel = lambda p, nm=nm: S.and_(S.eq(F['asset'](p), nm), S.eq(F['type'](p), 'd'))
            for what, fn in (('charge', lambda v: S.max_(0.0, -v)), ('discharge', lambda v: S.min_(0.0, -v))):
                label = f'{nm}_{what}'
                colv = _col(iv, label)
                if colv is None:
                    yield (f'C05.output.storage_{what}_reported_truly[{nm}]', _missing(iv, label))
                    continue
                want = lambda t, sel=sel, fn=fn: S.psum(lambda p: S.ite(S.and_(sel(p), S.eq(F['ts'](p), t)), fn(x.f(F['idx'](p))) * F['df'](p), 0.0), 0, R, pc)
                yield (f'C05.output.storage_{what}_reported_truly[{nm}]', S.and_(S.eq(colv.n, T), S.forall(T, lambda t, colv=colv, want=want: S.eq(colv.f(t), want(t)))))
            label = f'{nm}_fill_level'
            colv = _col(iv, label)
            if colv is None:
                yield (f'C05.output.fill_level_column_is_the_storages_fill_level[{nm}]', _missing(iv, label))
            else:
                yield (f'C05.output.fill_level_column_is_the_storages_fill_level[{nm}]', S.and_(S.eq(colv.n, T), S.forall(T, lambda t, nm=nm, colv=colv: S.eq(colv.f(t), ctx['fill'][nm](t)))))
        # ---- C18: nodal prices
        yield from self.post_prices(H, case, out, I, ctx)

    def post_prices(self, H, case, out, I, ctx):
        pr = out.get('prices')
        if case['duals'] is not True:
            # no duals: no nodal price is reported at all
            yield ('C18.output.no_nodal_price_without_duals', isinstance(pr, DF) and not pr.cols and not getattr(pr, 'keyed', None))
            return
        M, rs, rn, dN, T = ctx['M'], ctx['rs'], ctx['rn'], ctx['dN'], ctx['T']
        if I is None:
            recs = [(int(rs(k)), rn(k)) for k in range(int(M))]
            cell = lambda t, nd: (pr.cols['nodal price: ' + nd].f(t) if isinstance(pr, DF) and isinstance(pr.cols.get('nodal price: ' + nd), Arr) else None)
            yield ('C18.output.price_of_a_recorded_row_is_minus_its_dual', all(
                cell(t, nd) is not None and abs(cell(t, nd) + float(dN.f(k))) < 1e-9 for k, (t, nd) in enumerate(recs)))
            labels = [c[len('nodal price: '):] for c in (pr.cols if isinstance(pr, DF) else {}) if str(c).startswith('nodal price: ')]
            yield ('C18.output.no_price_without_a_recorded_row', all(
                cell(t, nd) is None for nd in labels for t in range(int(T)) if (t, nd) not in recs))
            return
        tab = getattr(pr, 'keyed', None) if isinstance(pr, DF) else None
        if tab is None:
            yield ('C18.output.price_of_a_recorded_row_is_minus_its_dual', Havoc('price table not modelled') if not isinstance(pr, Havoc) else pr)
            return
        # stated for an arbitrary record k / an arbitrary cell (t, node): free constants, i.e. universally quantified in the VC
        k = z3.Int('post!k')
        kk = z3.Int('post!kk')
        key = lambda q: sym.binop('Add', 'nodal price: ', rn(q))
        cell = sym.null_parts(tab.read(rs(k), key(k)))
        yield ('C18.output.price_of_a_recorded_row_is_minus_its_dual', z3.Implies(z3.And(k >= 0, k < M), z3.And(
            z3.Not(sym.to_bool(cell[0])), lift(cell[1]) == -dN.f(k))))
        t = z3.Int('post!t')
        nd = z3.Const('post!node', sym.Str)
        anycell = sym.null_parts(tab.read(t, sym.binop('Add', 'nodal price: ', nd)))
        yield ('C18.output.no_price_without_a_recorded_row', z3.Implies(
            z3.And(t >= 0, t < T, z3.Not(z3.Exists([kk], z3.And(kk >= 0, kk < M, rs(kk) == t, rn(kk) == nd)))), sym.to_bool(anycell[0])))


def _col(df, label):
    if isinstance(df, DF) and isinstance(df.cols.get(label), Arr):
        return df.cols[label]
    return None


def _missing(df, label):
    if isinstance(df, Havoc):
        return df
    if isinstance(df, DF) and isinstance(df.cols.get(label), Havoc):
        return df.cols[label]
    return False


def _summary_value(summ, ctx):
    """summary.loc['value', 'Values'] == res.value"""
    if isinstance(summ, Havoc):
        return summ
    v = None
    if isinstance(summ, DF) and isinstance(summ.cols.get('Values'), Arr) and sym.concrete_int(summ.n) is not None:
        labs = [summ.index.f(k) for k in range(sym.concrete_int(summ.n))]
        if labs.count('value') != 1 or labs.count('status') != 1:
            return False
        v = summ.cols['Values'].f(labs.index('value'))
        if summ.cols['Values'].f(labs.index('status')) != 'successful':
            return False
    if v is None:
        return Havoc('summary table not modelled')
    return S.eq(v, ctx['value'])


# ------------------------------------------------------------------------------------------------------------- run-time twin
def _schema(self, case):
    return [('g_T', 'int', None), ('n_rows', 'int', None), ('n_vars', 'int', None), ('n_nodal_rows', 'int', None)]


def _sample(self, case, rng):
    from pyvc import native as N
    T, nv = rng.randint(1, 4), rng.randint(1, 5)
    R = rng.randint(0, 8)
    names = [f'A{k}' for k in range(len(case['assets']))] + ['other']
    nodes = ['N0', 'N1'][:case['nodes']] + ['elsewhere']
    pairs = [(t, nd) for t in range(T) for nd in nodes[:case['nodes']]]
    rng.shuffle(pairs)
    M = rng.randint(0, len(pairs))
    return N.Params(g_T=T, n_rows=R, n_vars=nv, n_nodal_rows=M,
                    map_index=[rng.randint(0, nv - 1) for _ in range(R)], map_step=[rng.randint(0, T - 1) for _ in range(R)],
                    map_asset=[rng.choice(names) for _ in range(R)], map_node=[rng.choice(nodes) for _ in range(R)],
                    map_type=[rng.choice(['d', 'd', 'd', 'size', 'bool']) for _ in range(R)],
                    map_disp_factor=[rng.choice([1.0, 1.0, -1.0, 0.5, 2.0]) for _ in range(R)],
                    x=[rng.choice(N.VALUES) for _ in range(nv)], c=[rng.choice(N.VALUES) for _ in range(nv)],
                    recs=[list(p) for p in pairs[:M]], dual_N=[rng.choice(N.VALUES) for _ in range(M)], value=rng.choice(N.VALUES))


def _native(self, case, P):
    import numpy as np
    import pandas as pd
    import eaopack as eao
    from pyvc import native as N
    T, R, nv, M = int(P['g_T']), int(P['n_rows']), int(P['n_vars']), int(P['n_nodal_rows'])
    tg, _ = N.synthetic_grid(T, None)
    node_names = ['N0', 'N1'][:case['nodes']]
    nodes = {nm: eao.assets.Node(nm) for nm in node_names}
    assets = []
    for k, kind in enumerate(case['assets']):
        nn = KINDS[kind][1]
        nds = [nodes[nm] for nm in node_names[:nn]]
        if kind == 'plain':
            a = eao.assets.SimpleContract(name=f'A{k}', nodes=nds[0], min_cap=-1., max_cap=1.)
        elif kind == 'two_node':
            a = eao.assets.Transport(name=f'A{k}', nodes=nds, min_cap=0., max_cap=1.)
        else:
            a = eao.assets.Storage(name=f'A{k}', nodes=nds if nn == 2 else nds[0], size=5., cap_in=1., cap_out=1., start_level=1., eff_in=.9, inflow=.5)
        a.timegrid = tg
        assets.append(a)
    pf = eao.portfolio.Portfolio(assets)
    pf.timegrid = tg
    if len(pf.nodes) != case['nodes']:
        raise N.NotRealisable('node count')
    cols = {'asset': list(P['map_asset']), 'type': list(P['map_type']), 'node': list(P['map_node']), 'time_step': [int(v) for v in P['map_step']],
            'disp_factor': [float(v) for v in P['map_disp_factor']], 'var_name': ['v'] * R}
    m = pd.DataFrame(cols, index=[int(v) for v in P['map_index']]) if R else pd.DataFrame({k: pd.Series([], dtype=(float if k == 'disp_factor' else (int if k == 'time_step' else str))) for k in cols})
    x = np.array([float(v) for v in P['x']])
    c = np.array([float(v) for v in P['c']])
    op = eao.optimization.OptimProblem(c=c, l=np.zeros(nv), u=np.ones(nv), mapping=m)
    recs = [(int(t), str(nd)) for t, nd in P['recs']]
    op.map_nodal_restr = recs
    dN = np.array([float(v) for v in P['dual_N']])
    if case.get('failed'):
        res = 'infeasible'
    else:
        duals = None if case['duals'] is False else {'N': (None if case['duals'] == 'noneN' else dN), 'bound_u': None, 'bound_l': None}
        res = eao.optimization.Results(value=float(P['value']), x=x, duals=duals)
    idx, ts = [int(v) for v in P['map_index']], [int(v) for v in P['map_step']]
    F = dict(idx=lambda p: idx[int(p)], ts=lambda p: ts[int(p)], asset=lambda p: cols['asset'][int(p)], type=lambda p: cols['type'][int(p)],
             node=lambda p: cols['node'][int(p)], df=lambda p: cols['disp_factor'][int(p)])
    wa = [Obj(type(a).__name__, name=a.name, nodes=[Obj('Node', name=n.name) for n in a.nodes]) for a in assets]
    dcf, fill = {}, {}
    if not case.get('failed'):
        for a in assets:
            d = np.asarray(a.dcf(op, res), dtype=float)
            dcf[a.name] = (lambda t, d=d: float(d[int(t)]))
            if isinstance(a, eao.assets.Storage):
                f = np.asarray(a.fill_level(op, res), dtype=float)
                fill[a.name] = (lambda t, f=f: float(f[int(t)]))
    ctx = dict(T=T, R=R, nv=nv, M=M, F=F, x=S.from_numpy(x), c=S.from_numpy(c), assets=wa, names=[a.name for a in assets], node_names=node_names,
               rs=lambda k: recs[int(k)][0], rn=lambda k: recs[int(k)][1], dN=S.from_numpy(dN), res=res, dcf=dcf, fill=fill,
               value=None if case.get('failed') else float(P['value']), single=len(pf.nodes) == 1)
    return (lambda: eao.io.extract_output(pf, op, res)), ctx


ExtractOutput.schema = _schema
ExtractOutput.sample = _sample
ExtractOutput.native = _native
