"""Contract for eaopack.stoch_lin_prog: make_slp(optim_problem, portf, timegrid, start_future, samples)  (C17 mechanism: "duplication of
future variables/rows per sample, cost scaling by 1/(S+1), present columns shared").

From the statement C17 (two-stage problem: present-stage decisions common to all scenarios, one copy of the future per scenario, objective =
present costs + mean of the scenarios' future costs, every scenario satisfies the original constraints on its own copy):

  variables   the m original ones (present + future of the original scenario) followed by S blocks of copies of the n_f future variables
  bounds      copies carry the bounds of the variable they copy
  costs       present: unchanged; future of the original scenario: c / (S+1); copy r of sample s: c_s[future variable r] / (S+1)
  rows        S+1 blocks of the original rows (b, type letters repeated); block 0 on the original variables; block s >= 1: the present columns
              of the original variables, zero on the original future columns, the future columns on the s-th copy
Harness bounds (stated in the evidence): one mapping row per variable in variable order (several rows per variable: bounded scenario
check_slp); the present consists of the first two steps (the label of the SLP column is computed from the boundary position); S = 1 or 2
samples (Python list, unrolled).  Callees: Timegrid.set_restricted_grid (future / present part of the grid), Portfolio.create_cost_samples
(C17.cost_samples.*).  The mapping of the extended problem is not specified here (bounded: boolean flags on the copies, check_slp).
"""
import z3

from pyvc import sym, spec as S
from pyvc.sym import Arr, Mat, Obj, DF, Havoc, TS, lift
from pyvc.interp import FnStr
from .common import Contract, register, mk_root_grid

F0 = 2          # first future step


@register
class MakeSlp(Contract):
    qualname = 'stoch_lin_prog:make_slp'
    prefix = 'C17.slp'
    properties = ('C17',)

    def cases(self):
        return [dict(samples=1), dict(samples=2)]

    def harness(self, H, case):
        g = mk_root_grid(H, tz=None)
        T = g.get('T')
        H.assume(T >= F0 + 1)
        m, n = H.int('n_vars'), H.int('n_rows')
        H.assume(z3.And(m >= 0, n >= 0))
        ts = H.fun('map_time_step', z3.IntSort(), z3.IntSort())
        p = z3.Int('wf!p')
        H.assume(z3.ForAll([p], z3.Implies(z3.And(p >= 0, p < m), z3.And(ts(p) >= 0, ts(p) < T)), patterns=[ts(p)]))
        mapping = DF(m, Arr(m, lambda q: lift(q)), {'time_step': Arr(m, lambda q: ts(lift(q))), 'asset': Arr(m, lambda q: H.str('asset_name')),
                                                  'type': Arr(m, lambda q: 'd'), 'node': Arr(m, lambda q: H.str('node_name'))})
        c, l, u = (H.real_arr(x, m) for x in ('c', 'l', 'u'))
        b = H.real_arr('b', n)
        af = H.fun('A', z3.IntSort(), z3.IntSort(), z3.RealSort())
        ctf = H.fun('ct', z3.IntSort(), sym.Str)
        op = Obj('OptimProblem', c=c, l=l, u=u, A=Mat(n, m, lambda r, cc: af(lift(r), lift(cc))), b=b, cType=FnStr(n, lambda r: ctf(lift(r))), mapping=mapping)
        Sn = case['samples']
        samples = [{'p': H.real_arr(f'price_sample_{k}', T)} for k in range(Sn)]
        cs = [H.real_arr(f'cost_sample_{k}', m) for k in range(Sn)]
        portf = Obj('Portfolio', __token__='the portfolio')
        tpf = g.get('__fun__')['tp']
        start_future = TS(tpf(F0), None)
        ctx = dict(map_index=mapping.index, map_ts=mapping.cols['time_step'], args=[op, portf, g, start_future, samples], g=g, T=T, m=m, n=n, ts=ts, c0=c.copy(), l0=l.copy(), u0=u.copy(), b0=b.copy(), af=af, ctf=ctf,
                   cs=cs, samples=samples, portf=portf, op=op, Sn=Sn)
        return ctx

    def callees(self, case, ctx=None):
        def set_restricted(I, self_obj, args, kwargs):
            g, T = ctx['g'], ctx['T']
            I.require('callee-pre:set_restricted_grid.on_the_grid', z3.BoolVal(self_obj is g), kind='callee-pre')
            st, en = kwargs.get('start'), kwargs.get('end')
            if st is not None and en is None:
                r = Obj('Timegrid', T=T - F0, I=Arr(T - F0, lambda k: (F0 + k) if isinstance(k, int) else F0 + lift(k)))
            elif en is not None and st is None:
                r = Obj('Timegrid', T=F0, I=Arr(F0, lambda k: k if isinstance(k, int) else lift(k)))
            else:
                raise sym.Unsupported('set_restricted_grid form')
            I.log_write(g, 'restricted')
            g.set('restricted', r)
            return None

        def cost_samples(I, self_obj, args, kwargs):
            ps = kwargs.get('price_samples', args[0] if args else None)
            tg = kwargs.get('timegrid', args[1] if len(args) > 1 else None)
            I.require('callee-pre:create_cost_samples.of_the_samples_on_the_grid', z3.BoolVal(self_obj is ctx['portf'] and ps is ctx['samples'] and tg is ctx['g']), kind='callee-pre')
            return list(ctx['cs'])
        return {'basic_classes:Timegrid.set_restricted_grid': set_restricted, 'portfolio:Portfolio.create_cost_samples': cost_samples}

    def post(self, H, case, outcome, I, ctx):
        if outcome[0] != 'return':
            yield ('C17.slp.no_raise', False if outcome[0] == 'raise' else Havoc(outcome[1]))
            return
        op = outcome[1]
        if I is None:
            yield from self.post_native(case, op, ctx)
            return
        yield ('C17.slp.extends_the_given_problem', op is ctx['op'])
        c, l, u, A, b, ct = (op.get(k) for k in ('c', 'l', 'u', 'A', 'b', 'cType'))
        for nm, x in (('c', c), ('l', l), ('u', u), ('A', A), ('b', b), ('cType', ct)):
            if isinstance(x, Havoc):
                yield (f'C17.slp.modelled[{nm}]', x)
                return
        m, n, Sn, ts = ctx['m'], ctx['n'], ctx['Sn'], ctx['ts']
        # the variables in the order of their FIRST mapping row; a variable belongs to the future iff the step of that row is one of the steps
        # of the future part of the grid (steps F0 .. T-1).  (Built with the library's selection functions, like the code's own selections,
        # so that counts and positions are the same symbols: A2.)
        first_rows = sym.invert(sym.duplicated_first(ctx['map_index'], 'first'))
        step_of_var = sym.compress(ctx['map_ts'], first_rows)
        fut_steps = Arr(ctx['T'] - F0, lambda k: (F0 + k) if isinstance(k, int) else F0 + lift(k))
        futv = lambda j: sym.exists_arr(fut_steps, lambda x: sym.cmpop('Eq', x, step_of_var.f(lift(j))))
        fut = lambda j: sym.to_bool(futv(j))
        mask = Arr(step_of_var.n, lambda j: futv(j))
        nf, sel, rank = sym.COMP.get(mask)
        j, r, s_ = z3.Ints('post!j post!r post!s')
        yield ('C17.slp.present_shared_future_copied_per_sample', z3.And(lift(c.n) == m + Sn * nf, lift(l.n) == m + Sn * nf, lift(u.n) == m + Sn * nf))
        orig = z3.And(j >= 0, j < m)
        yield ('C17.slp.bounds_copied_per_sample', z3.And(
            z3.ForAll([j], z3.Implies(orig, z3.And(lift(l.f(j)) == ctx['l0'].f(j), lift(u.f(j)) == ctx['u0'].f(j)))),
            *[z3.ForAll([r], z3.Implies(z3.And(r >= 0, r < nf), z3.And(lift(l.f(m + k * nf + r)) == ctx['l0'].f(sel(r)), lift(u.f(m + k * nf + r)) == ctx['u0'].f(sel(r)))))
              for k in range(Sn)]))
        yield ('C17.slp.costs_present_once_future_mean_over_scenarios', z3.And(
            z3.ForAll([j], z3.Implies(orig, lift(c.f(j)) == z3.If(fut(j), ctx['c0'].f(j) / (Sn + 1), ctx['c0'].f(j)))),
            *[z3.ForAll([r], z3.Implies(z3.And(r >= 0, r < nf), lift(c.f(m + k * nf + r)) == ctx['cs'][k].f(sel(r)) / (Sn + 1))) for k in range(Sn)]))
        rr, cc = z3.Ints('post!row post!col')
        yield ('C17.slp.rhs_and_types_repeated_per_scenario', z3.And(lift(b.n) == (Sn + 1) * n, lift(S.str_len(ct)) == (Sn + 1) * n, *[
            z3.ForAll([rr], z3.Implies(z3.And(rr >= 0, rr < n), z3.And(lift(b.f(k * n + rr)) == ctx['b0'].f(rr), lift(S.char_at(ct, k * n + rr)) == ctx['ctf'](rr))))
            for k in range(Sn + 1)]))
        if not isinstance(A, Mat):
            from pyvc.libmodel import seg_to_mat
            try:
                A = seg_to_mat(I, A)
            except Exception as e:
                yield ('C17.slp.rows_repeated_per_scenario_on_its_own_future_copy', Havoc(f'matrix not modelled: {e}'))
                return
        af = ctx['af']
        clauses = [lift(A.nr) == (Sn + 1) * n, lift(A.nc) == m + Sn * nf,
                   # block 0: the original rows on the original variables, nothing on the copies
                   z3.ForAll([rr, cc], z3.Implies(z3.And(rr >= 0, rr < n, cc >= 0, cc < m + Sn * nf), lift(A.f(rr, cc)) == z3.If(cc < m, af(rr, cc), z3.RealVal(0))))]
        for k in range(1, Sn + 1):
            want = lambda row, col, k=k: z3.If(col < m, z3.If(fut(col), z3.RealVal(0), af(row, col)),
                                              z3.If(z3.And(col >= m + (k - 1) * nf, col < m + k * nf), af(row, sel(col - m - (k - 1) * nf)), z3.RealVal(0)))
            clauses.append(z3.ForAll([rr, cc], z3.Implies(z3.And(rr >= 0, rr < n, cc >= 0, cc < m + Sn * nf), lift(A.f(k * n + rr, cc)) == want(rr, cc))))
        yield ('C17.slp.rows_repeated_per_scenario_on_its_own_future_copy', z3.And(*clauses))


# ------------------------------------------------------------------------------------------------------------- run-time twin
def _post_native(self, case, op, ctx):
    import numpy as np
    nat = ctx['nat']
    m, n, Sn, fut = nat['m'], nat['n'], case['samples'], nat['fut']
    nf = int(fut.sum())
    c, l, u, b = (np.asarray([float(op[k].f(i)) for i in range(int(op[k].n))]) for k in ('c', 'l', 'u', 'b'))
    A = op['A']
    A = np.asarray([[float(A.f(r, j)) for j in range(int(A.nc))] for r in range(int(A.nr))]).reshape(int(A.nr), int(A.nc))
    ct = op['cType']
    yield ('C17.slp.present_shared_future_copied_per_sample', len(c) == m + Sn * nf and len(l) == m + Sn * nf and len(u) == m + Sn * nf)
    if len(c) != m + Sn * nf:
        return
    yield ('C17.slp.bounds_copied_per_sample', bool(np.allclose(l, np.concatenate([nat['l']] + [nat['l'][fut]] * Sn)) and np.allclose(u, np.concatenate([nat['u']] + [nat['u'][fut]] * Sn))))
    yield ('C17.slp.costs_present_once_future_mean_over_scenarios', bool(np.allclose(c, np.concatenate(
        [np.where(fut, nat['c'] / (Sn + 1), nat['c'])] + [cs[fut] / (Sn + 1) for cs in nat['cs']]))))
    yield ('C17.slp.rhs_and_types_repeated_per_scenario', bool(np.allclose(b, np.tile(nat['b'], Sn + 1))) and ct == nat['ct'] * (Sn + 1))
    ok = A.shape == ((Sn + 1) * n, m + Sn * nf)
    if ok:
        for k in range(Sn + 1):
            exp = np.zeros((n, m + Sn * nf))
            exp[:, :m][:, ~fut] = nat['A'][:, ~fut]
            if k == 0:
                exp[:, :m][:, fut] = nat['A'][:, fut]
            else:
                exp[:, m + (k - 1) * nf:m + k * nf] = nat['A'][:, fut]
            ok = ok and bool(np.allclose(A[k * n:(k + 1) * n, :], exp))
    yield ('C17.slp.rows_repeated_per_scenario_on_its_own_future_copy', ok)


def _schema(self, case):
    return [('g_T', 'int', None)]


def _sample(self, case, rng):
    from pyvc import native as N
    T = rng.randint(F0 + 1, 6)
    return N.Params(g_T=T, seed=rng.randint(0, 99999), storage=rng.random() < .7, load=rng.random() < .5)


def _native(self, case, P):
    import random
    from copy import deepcopy
    import numpy as np
    import pandas as pd
    import eaopack as eao
    from pyvc import native as N
    rng = random.Random(int(P['seed']))
    T = int(P['g_T'])
    tg, syn = N.synthetic_grid(T, None)
    pts = list(tg.timepoints) + [tg.end]
    A_ = eao.assets.Node('A')
    assets = [eao.assets.SimpleContract(name='m', nodes=A_, price='p', min_cap=-2., max_cap=2.)]
    if P.get('storage'):
        assets.append(eao.assets.Storage(name='s', nodes=A_, size=3., cap_in=1., cap_out=1., eff_in=.9, start_level=1., end_level=0.))
    if P.get('load'):
        assets.append(eao.assets.SimpleContract(name='q', nodes=A_, price='q', min_cap=0., max_cap=1., extra_costs=.2))
    pf = eao.portfolio.Portfolio(assets)
    base = {'p': np.asarray([float(rng.randint(1, 9)) for _ in range(T)]), 'q': np.asarray([float(rng.randint(1, 9)) for _ in range(T)])}
    samples = [{k: np.asarray([float(rng.randint(1, 9)) for _ in range(T)]) for k in base} for _ in range(case['samples'])]
    op0 = pf.setup_optim_problem(base, tg)
    first = op0.mapping[~op0.mapping.index.duplicated(keep='first')]
    fut = np.asarray(first['time_step'].values >= F0)
    cs = [np.asarray(pf.setup_optim_problem(s_, tg, costs_only=True), dtype=float) for s_ in samples]
    A0 = op0.A.toarray()
    nat = dict(m=len(op0.c), n=A0.shape[0], fut=fut, c=op0.c.copy(), l=op0.l.copy(), u=op0.u.copy(), b=np.asarray(op0.b, dtype=float).copy(), ct=op0.cType, A=A0, cs=cs)
    ctx = dict(nat=nat, synthetic=syn)
    opx = deepcopy(op0)

    def call():
        r = eao.stoch_lin_prog.make_slp(opx, pf, tg, pts[F0], [dict(s_) for s_ in samples])
        return dict(c=np.asarray(r.c, dtype=float), l=np.asarray(r.l, dtype=float), u=np.asarray(r.u, dtype=float), b=np.asarray(r.b, dtype=float), cType=r.cType,
                    A=np.asarray(r.A.toarray(), dtype=float))
    return call, ctx


MakeSlp.post_native = _post_native
MakeSlp.schema = _schema
MakeSlp.sample = _sample
MakeSlp.native = _native
