"""Shared contract vocabulary (DESIGN.md section 3): well-formed time grids (WF_TG), the callee
contracts that almost every set-up function uses (Asset.set_timegrid, Asset.make_vector,
OptimProblem.__init__), and the Contract base class.

Nothing in this package is imported or executed by EAO; /repo is not edited.
"""
import z3

from pyvc import sym, spec as S
from pyvc.sym import Arr, Mat, Obj, DF, Havoc, TS, TD, lift, PyRaise, Unsupported
from pyvc.interp import Seg, Family, RepStr

REGISTRY = []


def register(cls):
    REGISTRY.append(cls())
    return cls


class Contract:
    qualname = None
    prefix = 'C00'
    properties = ()
    inline = ()
    ignore_safety = ()

    def cases(self):
        return [dict()]

    def harness(self, H, case):
        raise NotImplementedError

    def callees(self, case, ctx=None):
        return {}

    def post(self, H, case, outcome, I, ctx):
        return []


# ----------------------------------------------------------------------------------- time grids
def mk_root_grid(H, pfx='g', tz='sym'):
    """A root Timegrid object satisfying WF_TG (post of Timegrid.__init__, proved in basic_classes.py
    contracts): T >= 0, strictly increasing instants, dt > 0, Dt prefix sums of dt, I = 0..T-1."""
    T = H.int(pfx + '_T')
    tpf = H.fun(pfx + '_tp', z3.IntSort(), z3.IntSort())
    dtf = H.fun(pfx + '_dt', z3.IntSort(), z3.RealSort())
    H.assume(T >= 0)
    i, j = z3.Ints(f'{pfx}!i {pfx}!j')
    H.assume(z3.ForAll([i], z3.Implies(z3.And(i >= 0, i < T), dtf(i) > 0), patterns=[dtf(i)]))
    H.assume(z3.ForAll([i, j], z3.Implies(z3.And(i >= 0, i < j, j < T), tpf(i) < tpf(j)),
                       patterns=[z3.MultiPattern(tpf(i), tpf(j))]))
    start = TS(H.int(pfx + '_start'), None)
    end = TS(H.int(pfx + '_end'), None)
    H.assume(start.t < end.t)
    H.assume(z3.ForAll([i], z3.Implies(z3.And(i >= 0, i < T), z3.And(start.t <= tpf(i), tpf(i) < end.t)), patterns=[tpf(i)]))
    tzv = None if tz is None else H.str(pfx + '_tz')
    start.tz = end.tz = tzv
    dt = Arr(T, lambda k: dtf(lift(k)))
    Dt = sym.arr_cumsum(dt)
    tp = Arr(T, lambda k: TS(tpf(lift(k)), tzv))
    g = Obj('Timegrid', T=T, dt=dt, Dt=Dt, I=Arr(T, lambda k: lift(k)), timepoints=tp, start=start, end=end,
            freq=H.str(pfx + '_freq'), main_time_unit=H.str(pfx + '_unit'), tz=tzv)
    g.attrs['__closed__'] = True
    g.attrs['__fun__'] = dict(tp=tpf, dt=dtf)
    return g


def disc_fun(H, pfx='g'):
    """discount factor of full-grid step k for the asset's wacc; positivity is all the LP contracts need
    (its closed form is C02.discount on Timegrid.set_wacc)."""
    f = H.fun(pfx + '_df', z3.IntSort(), z3.RealSort())
    i = z3.Int(pfx + '!d')
    H.assume(z3.ForAll([i], f(i) > 0, patterns=[f(i)]))
    return f


def mk_restricted(H, g, pfx='r', coarse=False, df=None):
    """The restricted grid that Asset.set_timegrid installs (post of Timegrid.__init__ with
    ref_timegrid): n steps, index map rI strictly increasing into [0, g.T);  same frequency:
    dt/Dt/discount factors/time points are the full grid's at rI."""
    n = H.int(pfx + '_n')
    rI = H.fun(pfx + '_I', z3.IntSort(), z3.IntSort())
    H.assume(z3.And(n >= 0, n <= g.get('T')))
    i, j = z3.Ints(f'{pfx}!i {pfx}!j')
    H.assume(z3.ForAll([i], z3.Implies(z3.And(i >= 0, i < n), z3.And(rI(i) >= 0, rI(i) < g.get('T'))), patterns=[rI(i)]))
    H.assume(z3.ForAll([i, j], z3.Implies(z3.And(i >= 0, i < j, j < n), rI(i) < rI(j)), patterns=[z3.MultiPattern(rI(i), rI(j))]))
    fun = g.get('__fun__')
    tzv = g.get('tz')
    if not coarse:
        dt = Arr(n, lambda k: fun['dt'](rI(lift(k))))
        gDt = g.get('Dt')
        Dt = Arr(n, lambda k: gDt.f(rI(lift(k))))
        tp = Arr(n, lambda k: TS(fun['tp'](rI(lift(k))), tzv))
        r = Obj('Timegrid', T=n, dt=dt, Dt=Dt, I=Arr(n, lambda k: rI(lift(k))), timepoints=tp,
                freq=g.get('freq'), main_time_unit=g.get('main_time_unit'), tz=tzv,
                start=TS(H.int(pfx + '_start'), tzv), end=TS(H.int(pfx + '_end'), tzv))
        if df is not None:
            r.set('discount_factors', Arr(n, lambda k: df(rI(lift(k)))))
    else:
        rdt = H.fun(pfx + '_dt', z3.IntSort(), z3.RealSort())
        H.assume(z3.ForAll([i], z3.Implies(z3.And(i >= 0, i < n), rdt(i) > 0), patterns=[rdt(i)]))
        dt = Arr(n, lambda k: rdt(lift(k)))
        gDt = g.get('Dt')
        Dt = Arr(n, lambda k: gDt.f(rI(lift(k))))
        tp = Arr(n, lambda k: TS(fun['tp'](rI(lift(k))), tzv))
        r = Obj('Timegrid', T=n, dt=dt, Dt=Dt, I=Arr(n, lambda k: rI(lift(k))), timepoints=tp,
                freq=H.str(pfx + '_freq'), main_time_unit=g.get('main_time_unit'), tz=tzv,
                start=TS(H.int(pfx + '_start'), tzv), end=TS(H.int(pfx + '_end'), tzv))
        if df is not None:
            r.set('discount_factors', Arr(n, lambda k: df(rI(lift(k)))))
        r.set('I_minor_in_major', Havoc('minor grid lists (coarse frequency is proved in its own contracts)'))
    r.attrs['__closed__'] = True
    r.attrs['__fun__'] = dict(I=rI)
    return r


def set_timegrid_handler(ctx):
    """Callee contract of Asset.set_timegrid(timegrid) as seen by the set-up functions:
    modifies self.timegrid, timegrid.discount_factors, timegrid.restricted  (derived cache);
    ensures  self.timegrid is timegrid, discount factors are those of self.wacc, restricted is the
    well-formed sub-grid for [self.start, self.end) and self.freq."""
    def h(I, self_obj, args, kwargs):
        tg = args[0] if args else kwargs['timegrid']
        I.log_write(self_obj, 'timegrid')
        self_obj.set('timegrid', tg)
        I.log_write(tg, 'discount_factors')
        tg.set('discount_factors', Arr(tg.get('T'), lambda k: ctx['df'](lift(k))))
        I.log_write(tg, 'restricted')
        tg.set('restricted', ctx['R'])
        return None
    return h


def mk_node(H, name):
    return Obj('Node', name=H.str(name), commodity=None, unit=Obj('Unit', volume='MWh', flow='MW', factor=1.0))


class OptimProblemInit:
    """Callee contract of OptimProblem(c, l, u, A, b, cType, mapping, timegrid, periodic_*, map_nodal_restr):
    stores its arguments; raises AssertionError iff a NaN is present (NaN is not a value of the
    real-number model, A3); periodic merge only when periodic_period_length is given."""
    FIELDS = ['c', 'l', 'u', 'A', 'b', 'cType', 'mapping', 'timegrid', 'periodic_period_length', 'periodic_duration',
              'map_nodal_restr']

    def __call__(self, I, self_obj, args, kwargs):
        vals = dict(zip(self.FIELDS, args))
        vals.update(kwargs)
        o = Obj('OptimProblem')
        for f in self.FIELDS:
            o.set(f, vals.get(f))
        ppl = vals.get('periodic_period_length')
        o.set('__periodic__', ppl)
        o.attrs['__closed__'] = True
        return o


def scalar_param(H, name):
    return H.real(name)
