"""Contract for eaopack.basic_classes: Timegrid.prep_date_dict(dd)  (callee of define_restr; C08 "start / end are instants", C10 "does not
alter user-supplied parameter dictionaries").

From the statements: the start / end dates of a take dictionary denote instants -- given without a zone they are read in the grid's zone,
given with a zone they are kept; the result is a NEW dictionary with lists of the same lengths in the same order and the very `values` object;
the caller's dictionary and its lists are not written (C10).  Lists of symbolic length (Python lists of Timestamps)."""
import z3

from pyvc import sym, spec as S
from pyvc.sym import Arr, Obj, Havoc, TS, lift
from pyvc.interp import Seg, Family
from .common import Contract, register


@register
class PrepDateDict(Contract):
    qualname = 'basic_classes:Timegrid.prep_date_dict'
    prefix = 'C08.dates'
    properties = ('C08', 'C10')

    def cases(self):
        return [dict(given='naive', end=True), dict(given='aware', end=True), dict(given='naive', end=False)]

    def harness(self, H, case):
        K = H.int('K')
        H.assume(K >= 0)
        sf, ef = H.fun('d_start', z3.IntSort(), z3.IntSort()), H.fun('d_end', z3.IntSort(), z3.IntSort())
        ztz = H.str('dates_zone') if case['given'] == 'aware' else None
        gz = H.str('grid_zone')
        starts = Arr(K, lambda i: TS(sf(lift(i)), ztz), kind='list')
        ends = Arr(K, lambda i: TS(ef(lift(i)), ztz), kind='list')
        values = Arr(K, lambda i: z3.RealVal(0), kind='list')
        dd = {'start': starts, 'values': values}
        if case['end']:
            dd['end'] = ends
        H.protect[id(dd)] = 'the date dictionary'
        for k, v in dd.items():
            H.protect[id(v)] = f"the date dictionary['{k}']"
        g = Obj('Timegrid', tz=gz)
        return dict(self_obj=g, args=[dd], dd=dd, K=K, sf=sf, ef=ef, ztz=ztz, gz=gz, values=values, keys0=tuple(dd), vals0=tuple(dd.values()))

    def post(self, H, case, outcome, I, ctx):
        if outcome[0] != 'return':
            yield ('C08.dates.no_raise', False if outcome[0] == 'raise' else Havoc(outcome[1]))
            return
        out = outcome[1]
        if I is None:
            # run-time twin: the checks are made on the real objects inside the call (identity of objects does not survive wrapping)
            for name in ('C08.dates.returns_start_end_values', 'C10.dates.new_dictionary_same_values_object', 'C10.dates.user_dictionary_unchanged',
                         'C08.dates.start.one_date_per_given_date_in_order', 'C08.dates.start.dates_denote_instants',
                         'C08.dates.end.one_date_per_given_date_in_order', 'C08.dates.end.dates_denote_instants'):
                if name in out:
                    yield (name, bool(out[name]))
            return
        if isinstance(out, sym.SymMap):
            out = {k: v for k, v in out.items if isinstance(k, str)}
        ok = isinstance(out, dict) and set(out) == {'start', 'end', 'values'}
        yield ('C08.dates.returns_start_end_values', ok)
        if not ok:
            return
        yield ('C10.dates.new_dictionary_same_values_object', out is not ctx['dd'] and out['values'] is ctx['values'])
        dd = ctx['dd']
        yield ('C10.dates.user_dictionary_unchanged', tuple(dd) == ctx['keys0'] and all(a is b for a, b in zip(dd.values(), ctx['vals0'])))
        K, gz = ctx['K'], ctx['gz']
        from pyvc.libmodel import localize
        for key, f in (('start', ctx['sf']), ('end', ctx['ef'])):
            lst = out[key]
            if key == 'end' and not case['end']:
                empty = (isinstance(lst, list) and not lst) or (isinstance(lst, Seg) and not lst.segs) or (isinstance(lst, Arr) and sym.concrete_int(lst.n) == 0)
                yield ('C08.dates.no_end_list_without_end_dates', empty)
                continue
            fams = [s for s in lst.segs if isinstance(s, Family)] if isinstance(lst, Seg) else None
            if not fams or len(fams) != 1 or len(fams[0].vars) != 1 or any(not isinstance(s, Family) and s for s in lst.segs):
                yield (f'C08.dates.{key}.one_date_per_given_date_in_order', Havoc('list not modelled as one family') if not isinstance(lst, Havoc) else lst)
                continue
            fam = fams[0]
            k = fam.vars[0]
            yield (f'C08.dates.{key}.one_date_per_given_date_in_order', fam.dom == z3.And(k >= 0, k < K))
            item = fam.item[0] if isinstance(fam.item, list) else fam.item
            if not isinstance(item, TS):
                yield (f'C08.dates.{key}.dates_denote_instants', Havoc('item is not a time stamp'))
                continue
            if case['given'] == 'naive':
                # read in the grid's zone
                yield (f'C08.dates.{key}.dates_denote_instants', z3.And(lift(item.t) == localize(f(k), gz), sym.to_bool(sym.cmpop('Eq', item.tz, gz))))
            else:
                yield (f'C08.dates.{key}.dates_denote_instants', z3.And(lift(item.t) == f(k), sym.to_bool(sym.cmpop('Eq', item.tz, ctx['ztz']))))


def _schema(self, case):
    return [('K', 'int', None)]


def _sample(self, case, rng):
    from pyvc import native as N
    K = rng.randint(0, 4)
    return N.Params(K=K, starts=[rng.randint(-5, 40) for _ in range(K)], ends=[rng.randint(-5, 60) for _ in range(K)], zone=rng.choice(['CET', 'UTC', 'US/Eastern']),
                    grid_zone=rng.choice(['CET', 'UTC', None]), as_datetime=rng.random() < .3)


def _native(self, case, P):
    import pandas as pd
    import eaopack as eao
    K = int(P['K'])
    gz = P.get('grid_zone')
    # (dates away from the daylight-saving switches: a naive local time that does not exist / is ambiguous in the grid's zone is not a valid input)
    tg = eao.assets.Timegrid(pd.Timestamp('2021-06-01'), pd.Timestamp('2021-06-03'), freq='h', timezone=gz)
    base = pd.Timestamp('2021-06-01')
    mk = lambda h: base + pd.Timedelta(int(h), 'h')
    if case['given'] == 'aware':
        conv = lambda t: t.tz_localize(P['zone'], nonexistent='shift_forward', ambiguous=True)
    else:
        conv = (lambda t: t.to_pydatetime()) if P.get('as_datetime') else (lambda t: t)
    s_ = [conv(mk(h)) for h in P['starts']]
    e_ = [conv(mk(h)) for h in P['ends']]
    vals = [1.0] * K
    dd = {'start': s_, 'values': vals}
    if case['end']:
        dd['end'] = e_
    keys0, vals0, copies = tuple(dd), tuple(dd.values()), [list(x) for x in dd.values()]

    def expect(t):
        t = pd.Timestamp(t)
        return t.tz_localize(gz) if t.tzinfo is None else t

    def call():
        out = tg.prep_date_dict(dd)
        r = {'C08.dates.returns_start_end_values': set(out) == {'start', 'end', 'values'}}
        r['C10.dates.new_dictionary_same_values_object'] = out is not dd and out['values'] is vals
        r['C10.dates.user_dictionary_unchanged'] = tuple(dd) == keys0 and all(a is b for a, b in zip(dd.values(), vals0)) and \
            all(list(a) == b for a, b in zip(dd.values(), copies))
        for key, given in (('start', s_), ('end', e_ if case['end'] else [])):
            r[f'C08.dates.{key}.one_date_per_given_date_in_order'] = len(out[key]) == len(given)
            r[f'C08.dates.{key}.dates_denote_instants'] = len(out[key]) == len(given) and all(
                (a == expect(b)) and (str(a.tzinfo) == str(expect(b).tzinfo)) for a, b in zip(out[key], given))
        return r
    return call, dict()


PrepDateDict.schema = _schema
PrepDateDict.sample = _sample
PrepDateDict.native = _native
