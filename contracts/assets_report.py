"""Contracts for the functions that translate a solution vector back through the mapping:
Asset.dcf (C04) and Storage.fill_level (C05).

WF_OP (DESIGN 3.2) is the precondition: every mapping row points to an existing variable, rows of this
asset carry a step on the grid.

C04.dcf:  dcf[t] = - sum over the asset's variables j (each counted once, at the step of its first
          mapping row) of  [step(j) = t] * c[j] * x[j].
C05.fill: reported level[t] = start level + sum_{t' <= t} (eff * charged(t') - discharged(t'))
          + inflow accumulated over the steps of the asset's window up to t     (the physical level of C05).
"""
import z3

from pyvc import sym, spec as S
from pyvc.sym import Arr, Obj, DF, Havoc, lift
from .common import Contract, register, mk_root_grid


def mk_mapping(H, R, with_type=False):
    """symbolic mapping frame with R rows: index (variable number), asset, time_step (, type)"""
    idx = H.fun('map_index', z3.IntSort(), z3.IntSort())
    asset = H.fun('map_asset', z3.IntSort(), sym.Str)
    ts = H.fun('map_step', z3.IntSort(), z3.IntSort())
    cols = {'asset': Arr(R, lambda p: asset(lift(p))), 'time_step': Arr(R, lambda p: ts(lift(p)))}
    funs = dict(idx=idx, asset=asset, ts=ts)
    if with_type:
        ty = H.fun('map_type', z3.IntSort(), sym.Str)
        cols['type'] = Arr(R, lambda p: ty(lift(p)))
        funs['type'] = ty
    m = DF(R, Arr(R, lambda p: idx(lift(p))), cols)
    return m, funs


@register
class AssetDcf(Contract):
    qualname = 'assets:Asset.dcf'
    prefix = 'C04.dcf'
    properties = ('C04', 'C20')

    def harness(self, H, case):
        g = mk_root_grid(H)
        T = g.get('T')
        R, nv = H.int('n_rows'), H.int('n_vars')
        H.assume(z3.And(R >= 0, nv >= 0))
        m, F = mk_mapping(H, R)
        name = H.str('asset_name')
        p = z3.Int('wf!p')
        # WF_OP: rows point to existing variables; this asset's rows carry steps of the grid
        H.assume(z3.ForAll([p], z3.Implies(z3.And(p >= 0, p < R), z3.And(F['idx'](p) >= 0, F['idx'](p) < nv)), patterns=[F['idx'](p)]))
        H.assume(z3.ForAll([p], z3.Implies(z3.And(p >= 0, p < R, F['asset'](p) == name), z3.And(F['ts'](p) >= 0, F['ts'](p) < T)),
                           patterns=[F['ts'](p)]))
        c, x = H.real_arr('c', nv), H.real_arr('x', nv)
        op = Obj('OptimProblem', mapping=m, c=c)
        res = Obj('Results', x=x, value=H.real('value'), duals=None)
        self_obj = Obj('Asset', name=name, timegrid=g)
        for o, nm in ((m, 'mapping'), (c, 'c'), (x, 'x')):
            H.protect[id(o)] = nm
        return dict(self_obj=self_obj, args=[op, res], g=g, R=R, nv=nv, F=F, c=c, x=x, name=name)

    def spec(self, ctx, pc=None):
        F, R, c, x, name = ctx['F'], ctx['R'], ctx['c'], ctx['x'], ctx['name']

        def mine(p):
            return S.eq(F['asset'](p), name)

        def first(p):
            # no earlier row of this asset for the same variable
            return S.not_(S.exists(p, lambda q: S.and_(mine(q), S.eq(F['idx'](q), F['idx'](p)))))
        return lambda t: S.psum(lambda p: S.ite(S.and_(mine(p), first(p), S.eq(F['ts'](p), t)),
                                                -c.f(F['idx'](p)) * x.f(F['idx'](p)), 0.0), 0, R, pc)

    def post(self, H, case, outcome, I, ctx):
        T = ctx['g'].get('T')
        if outcome[0] != 'return':
            yield ('C04.dcf.no_raise', False if outcome[0] == 'raise' else Havoc(outcome[1]))
            return
        d = outcome[1]
        if isinstance(d, Havoc):
            yield ('C04.dcf.value', d)
            return
        sp = self.spec(ctx, list(I.pc) if I is not None else None)
        yield ('C04.dcf.length', S.eq(d.n, T))
        yield ('C04.dcf.value', S.forall(T, lambda t: S.eq(d.f(t), sp(t))))

    def schema(self, case):
        return [('g_T', 'int', None), ('n_rows', 'int', None), ('n_vars', 'int', None),
                ('map_index', 'int_fun', 'n_rows'), ('map_step', 'int_fun', 'n_rows'), ('map_asset_is_mine', 'bool_fun', 'n_rows'),
                ('c', 'real_fun', 'n_vars'), ('x', 'real_fun', 'n_vars')]

    size_syms = ('g_T', 'n_rows', 'n_vars')

    def menu(self, case, H, ctx):
        # Str-valued function map_asset is not extractable generically: tie it to a boolean function
        F, name = ctx['F'], ctx['name']
        mine = z3.Function('map_asset_is_mine', z3.IntSort(), z3.BoolSort())
        p = z3.Int('menu!p')
        return [z3.ForAll([p], mine(p) == (F['asset'](p) == name)), ctx['g'].get('T') >= 1], []

    def sample(self, case, rng):
        """random instance satisfying WF_OP: rows point to existing variables and to steps of the grid"""
        from pyvc import native as N
        T, nv = rng.randint(1, 4), rng.randint(1, 4)
        R = rng.randint(0, 6)
        return N.Params(g_T=T, n_rows=R, n_vars=nv, map_index=[rng.randint(0, nv - 1) for _ in range(R)],
                        map_step=[rng.randint(0, T - 1) for _ in range(R)], map_asset_is_mine=[rng.random() < 0.7 for _ in range(R)],
                        c=[rng.choice(N.VALUES) for _ in range(nv)], x=[rng.choice(N.VALUES) for _ in range(nv)])

    def native(self, case, P):
        import numpy as np
        import pandas as pd
        import eaopack as eao
        from pyvc import native as N
        T, R, nv = int(P['g_T']), int(P['n_rows']), int(P['n_vars'])
        tg, _ = N.synthetic_grid(T, None)
        mine = [bool(b) for b in P['map_asset_is_mine']]
        m = pd.DataFrame({'asset': ['asset_name' if b else 'other' for b in mine], 'time_step': [int(v) for v in P['map_step']]},
                         index=[int(v) for v in P['map_index']])
        if R == 0:
            m = pd.DataFrame({'asset': pd.Series([], dtype=str), 'time_step': pd.Series([], dtype=int)})
        c = np.array([float(v) for v in P['c']])
        x = np.array([float(v) for v in P['x']])
        op = eao.optimization.OptimProblem(c=c, l=np.zeros(nv), u=np.ones(nv), mapping=m)
        res = eao.optimization.Results(value=0.0, x=x, duals=None)
        a = eao.assets.Asset(name='asset_name')
        a.timegrid = tg
        call = lambda: a.dcf(op, res)
        idx, ts = [int(v) for v in P['map_index']], [int(v) for v in P['map_step']]
        ctx = dict(g=Obj('Timegrid', T=T), R=R, nv=nv, name='asset_name', c=S.from_numpy(c), x=S.from_numpy(x),
                   F=dict(idx=lambda p: idx[int(p)], ts=lambda p: ts[int(p)], asset=lambda p: 'asset_name' if mine[int(p)] else 'other'))
        return call, ctx


@register
class StorageFillLevel(Contract):
    qualname = 'assets:Storage.fill_level'
    prefix = 'C05.report'
    properties = ('C05',)

    def harness(self, H, case):
        g = mk_root_grid(H)
        T = g.get('T')
        R, nv = H.int('n_rows'), H.int('n_vars')
        H.assume(z3.And(R >= 0, nv >= 0))
        m, F = mk_mapping(H, R, with_type=True)
        name = H.str('asset_name')
        p = z3.Int('wf!p')
        H.assume(z3.ForAll([p], z3.Implies(z3.And(p >= 0, p < R), z3.And(F['idx'](p) >= 0, F['idx'](p) < nv)), patterns=[F['idx'](p)]))
        H.assume(z3.ForAll([p], z3.Implies(z3.And(p >= 0, p < R, F['asset'](p) == name), z3.And(F['ts'](p) >= 0, F['ts'](p) < T)),
                           patterns=[F['ts'](p)]))
        x = H.real_arr('x', nv)
        op = Obj('OptimProblem', mapping=m)
        res = Obj('Results', x=x, value=H.real('value'), duals=None)
        vals = {k: H.real(k) for k in ('eff_in', 'start_level', 'inflow')}
        # the asset's window [a, b) in grid steps (steps with start <= t < end; the whole grid if start/end are None)
        a, b = H.int('win_a'), H.int('win_b')
        H.assume(z3.And(0 <= a, a <= b, b <= T))
        tpf = g.get('__fun__')['tp']
        st, en = H.int('asset_start'), H.int('asset_end')
        k = z3.Int('win!k')
        H.assume(z3.ForAll([k], z3.Implies(z3.And(k >= 0, k < T), z3.And(st <= tpf(k), tpf(k) < en) == z3.And(a <= k, k < b)), patterns=[tpf(k)]))
        tz = g.get('tz')
        if case['window'] == 'none':
            # no window of its own: the grid's start / end delimit all steps (WF_TG)
            H.assume(z3.And(st == g.get('start').t, en == g.get('end').t))
            self_obj = Obj('Storage', name=name, timegrid=g, start=None, end=None, **vals)
        else:
            self_obj = Obj('Storage', name=name, timegrid=g, start=sym.TS(st, tz), end=sym.TS(en, tz), **vals)
        for o, nm in ((m, 'mapping'), (x, 'x')):
            H.protect[id(o)] = nm
        return dict(self_obj=self_obj, args=[op, res], g=g, R=R, nv=nv, F=F, x=x, name=name, vals=vals, a=a, b=b, st=st, en=en)

    def cases(self):
        return [dict(window='own'), dict(window='none')]

    def callees(self, case, ctx=None):
        def timegrid_ctor(I, self_obj, args, kwargs):
            """callee contract of Timegrid(start, end, freq, main_time_unit, ref_timegrid=g) (C19.restrict, proved on
            Timegrid.__init__): the index-consistent sub-grid of the steps with start <= t < end"""
            g = kwargs.get('ref_timegrid')
            start, end = args[0], args[1]
            I.require('callee-pre:Timegrid(ref).start', start.t == ctx['st'], kind='callee-pre')
            I.require('callee-pre:Timegrid(ref).end', end.t == ctx['en'], kind='callee-pre')
            I.require('callee-pre:Timegrid(ref).same_freq', sym.cmpop('Eq', kwargs.get('freq'), g.get('freq')), kind='callee-pre')
            a, b = ctx['a'], ctx['b']
            gdt = g.get('dt')
            return Obj('Timegrid', T=b - a, I=Arr(b - a, lambda k: a + lift(k)), dt=Arr(b - a, lambda k, _f=gdt.f: _f(a + lift(k))))
        return {'basic_classes:Timegrid': timegrid_ctor}

    def post(self, H, case, outcome, I, ctx):
        g = ctx['g']
        T = g.get('T')
        pc = list(I.pc) if I is not None else None
        if outcome[0] != 'return':
            yield ('C05.report.fill.no_raise', False if outcome[0] == 'raise' else Havoc(outcome[1]))
            return
        d = outcome[1]
        if isinstance(d, Havoc):
            yield ('C05.report.fill', d)
            return
        F, R, x, name, v = ctx['F'], ctx['R'], ctx['x'], ctx['name'], ctx['vals']
        dt = g.get('dt')
        mine = lambda p: S.and_(S.eq(F['asset'](p), name), S.eq(F['type'](p), 'd'))
        first = lambda p: S.not_(S.exists(p, lambda q: S.and_(mine(q), S.eq(F['idx'](q), F['idx'](p)))))
        xv = lambda p: x.f(F['idx'](p))
        # net volume entering the storage through the variable of row p: eff * charged - discharged
        net = lambda p: S.max_(0.0, -xv(p)) * v['eff_in'] + S.min_(0.0, -xv(p))
        step_net = lambda t: S.psum(lambda p: S.ite(S.and_(mine(p), first(p), S.eq(F['ts'](p), t)), net(p), 0.0), 0, R, pc)
        # inflow of step j: inflow rate x step length inside the asset's window, nothing outside
        winflow = lambda j: S.ite(S.and_(S.ge(j, ctx['a']), S.lt(j, ctx['b'])), v['inflow'] * dt.f(j), 0.0)
        yield ('C05.report.fill.length', S.eq(d.n, T))
        yield ('C05.report.fill', S.forall(T, lambda t: S.eq(
            d.f(t), S.psum(lambda tt: step_net(tt) + winflow(tt), 0, t + 1, pc) + v['start_level'])))

    def schema(self, case):
        return [('g_T', 'int', None), ('n_rows', 'int', None), ('n_vars', 'int', None), ('win_a', 'int', None), ('win_b', 'int', None),
                ('eff_in', 'real', None), ('start_level', 'real', None), ('inflow', 'real', None),
                ('map_index', 'int_fun', 'n_rows'), ('map_step', 'int_fun', 'n_rows'), ('map_row_is_mine', 'bool_fun', 'n_rows'),
                ('g_dt', 'real_fun', 'g_T'), ('x', 'real_fun', 'n_vars')]

    size_syms = ('g_T', 'n_rows', 'n_vars')

    def menu(self, case, H, ctx):
        F, name = ctx['F'], ctx['name']
        mine = z3.Function('map_row_is_mine', z3.IntSort(), z3.BoolSort())
        p = z3.Int('menu!p')
        return [z3.ForAll([p], mine(p) == z3.And(F['asset'](p) == name, F['type'](p) == sym.strlit('d'))), ctx['g'].get('T') >= 1], []

    def sample(self, case, rng):
        from pyvc import native as N
        T, nv = rng.randint(1, 4), rng.randint(1, 4)
        R = rng.randint(0, 6)
        a = rng.randint(0, T) if case.get('window') == 'own' else 0
        b = rng.randint(a, T) if case.get('window') == 'own' else T
        return N.Params(g_T=T, n_rows=R, n_vars=nv, win_a=a, win_b=b, eff_in=rng.choice([1.0, 0.9, 0.5]), start_level=rng.choice([0.0, 1.0]),
                        inflow=rng.choice([0.0, 0.5, 1.0]), map_index=[rng.randint(0, nv - 1) for _ in range(R)],
                        map_step=[rng.randint(0, T - 1) for _ in range(R)], map_row_is_mine=[rng.random() < 0.7 for _ in range(R)],
                        g_dt=[rng.choice(N.POS) for _ in range(T)] if rng.random() < 0.6 else [1.0] * T,
                        x=[rng.choice(N.VALUES) for _ in range(nv)])

    def native(self, case, P):
        import numpy as np
        import pandas as pd
        import eaopack as eao
        from pyvc import native as N
        T, R, nv = int(P['g_T']), int(P['n_rows']), int(P['n_vars'])
        a0, b0 = int(P['win_a']), int(P['win_b'])
        tg, synthetic = N.synthetic_grid(T, P['g_dt'])
        pts = list(tg.timepoints) + [tg.end]
        mine = [bool(b) for b in P['map_row_is_mine']]
        m = pd.DataFrame({'asset': ['asset_name' if b else 'other' for b in mine], 'time_step': [int(v) for v in P['map_step']],
                          'type': ['d'] * R}, index=[int(v) for v in P['map_index']])
        if R == 0:
            m = pd.DataFrame({'asset': pd.Series([], dtype=str), 'time_step': pd.Series([], dtype=int), 'type': pd.Series([], dtype=str)})
        x = np.array([float(v) for v in P['x']])
        op = eao.optimization.OptimProblem(c=np.zeros(nv), l=np.zeros(nv), u=np.ones(nv), mapping=m)
        res = eao.optimization.Results(value=0.0, x=x, duals=None)
        own = case.get('window', 'own') == 'own'
        if not own and (a0, b0) != (0, T):
            raise N.NotRealisable('no window but a != 0 or b != T')
        st = eao.assets.Storage(name='asset_name', nodes=eao.assets.Node('n'), start=pts[a0] if own else None, end=pts[b0] if own else None, size=1e9, cap_in=1., cap_out=1.,
                                start_level=float(P['start_level']), end_level=0., eff_in=float(P['eff_in']), inflow=float(P['inflow']))
        st.timegrid = tg
        call = lambda: st.fill_level(op, res)
        idx, ts = [int(v) for v in P['map_index']], [int(v) for v in P['map_step']]
        tg2, _ = N.synthetic_grid(T, P['g_dt'])
        g = Obj('Timegrid', T=T, dt=S.from_numpy([float(v) for v in tg2.dt]))
        ctx = dict(g=g, R=R, nv=nv, name='asset_name', x=S.from_numpy(x), a=a0, b=b0,
                   vals=dict(eff_in=float(P['eff_in']), start_level=float(P['start_level']), inflow=float(P['inflow'])),
                   F=dict(idx=lambda p: idx[int(p)], ts=lambda p: ts[int(p)], asset=lambda p: 'asset_name' if mine[int(p)] else 'other',
                          type=lambda p: 'd'), synthetic=synthetic)
        return call, ctx
