"""Contracts for the functions that translate a solution vector back through the mapping:
Asset.dcf (C04) and Storage.fill_level (C05).

WF_OP (DESIGN 3.2) is the precondition: every mapping row points to an existing variable, rows of this
asset carry a step on the grid.

C04.dcf:  dcf[t] = - sum over the asset's variables j (each counted once, at the step of its first
          mapping row) of  [step(j) = t] * c[j] * x[j].
C05.fill: reported level[t] = start level + sum_{t' <= t} (eff * charged(t') - discharged(t'))
          + inflow accumulated over the steps of the asset's window up to t     (the physical level of C05).
"""
import z3

from pyvc import sym, spec as S
from pyvc.sym import Arr, Obj, DF, Havoc, lift
from .common import Contract, register, mk_root_grid


def mk_mapping(H, R, with_type=False):
    """symbolic mapping frame with R rows: index (variable number), asset, time_step (, type)"""
    idx = H.fun('map_index', z3.IntSort(), z3.IntSort())
    asset = H.fun('map_asset', z3.IntSort(), sym.Str)
    ts = H.fun('map_step', z3.IntSort(), z3.IntSort())
    cols = {'asset': Arr(R, lambda p: asset(lift(p))), 'time_step': Arr(R, lambda p: ts(lift(p)))}
    funs = dict(idx=idx, asset=asset, ts=ts)
    if with_type:
        ty = H.fun('map_type', z3.IntSort(), sym.Str)
        cols['type'] = Arr(R, lambda p: ty(lift(p)))
        funs['type'] = ty
    m = DF(R, Arr(R, lambda p: idx(lift(p))), cols)
    return m, funs


@register
class AssetDcf(Contract):
    qualname = 'assets:Asset.dcf'
    prefix = 'C04.dcf'
    properties = ('C04', 'C20')

    def harness(self, H, case):
        g = mk_root_grid(H)
        T = g.get('T')
        R, nv = H.int('n_rows'), H.int('n_vars')
        H.assume(z3.And(R >= 0, nv >= 0))
        m, F = mk_mapping(H, R)
        name = H.str('asset_name')
        p = z3.Int('wf!p')
        # WF_OP: rows point to existing variables; this asset's rows carry steps of the grid
        H.assume(z3.ForAll([p], z3.Implies(z3.And(p >= 0, p < R), z3.And(F['idx'](p) >= 0, F['idx'](p) < nv)), patterns=[F['idx'](p)]))
        H.assume(z3.ForAll([p], z3.Implies(z3.And(p >= 0, p < R, F['asset'](p) == name), z3.And(F['ts'](p) >= 0, F['ts'](p) < T)),
                           patterns=[F['ts'](p)]))
        c, x = H.real_arr('c', nv), H.real_arr('x', nv)
        op = Obj('OptimProblem', mapping=m, c=c)
        res = Obj('Results', x=x, value=H.real('value'), duals=None)
        self_obj = Obj('Asset', name=name, timegrid=g)
        for o, nm in ((m, 'mapping'), (c, 'c'), (x, 'x')):
            H.protect[id(o)] = nm
        return dict(self_obj=self_obj, args=[op, res], g=g, R=R, nv=nv, F=F, c=c, x=x, name=name)

    def spec(self, ctx, pc=None):
        F, R, c, x, name = ctx['F'], ctx['R'], ctx['c'], ctx['x'], ctx['name']

        def mine(p):
            return S.eq(F['asset'](p), name)

        def first(p):
            # no earlier row of this asset for the same variable
            return S.not_(S.exists(p, lambda q: S.and_(mine(q), S.eq(F['idx'](q), F['idx'](p)))))
        return lambda t: S.psum(lambda p: S.ite(S.and_(mine(p), first(p), S.eq(F['ts'](p), t)),
                                                -c.f(F['idx'](p)) * x.f(F['idx'](p)), 0.0), 0, R, pc)

    def post(self, H, case, outcome, I, ctx):
        T = ctx['g'].get('T')
        if outcome[0] != 'return':
            yield ('C04.dcf.no_raise', False if outcome[0] == 'raise' else Havoc(outcome[1]))
            return
        d = outcome[1]
        if isinstance(d, Havoc):
            yield ('C04.dcf.value', d)
            return
        sp = self.spec(ctx, list(I.pc) if I is not None else None)
        yield ('C04.dcf.length', S.eq(d.n, T))
        yield ('C04.dcf.value', S.forall(T, lambda t: S.eq(d.f(t), sp(t))))

    def schema(self, case):
        return [('g_T', 'int', None), ('n_rows', 'int', None), ('n_vars', 'int', None),
                ('map_index', 'int_fun', 'n_rows'), ('map_step', 'int_fun', 'n_rows'), ('map_asset_is_mine', 'bool_fun', 'n_rows'),
                ('c', 'real_fun', 'n_vars'), ('x', 'real_fun', 'n_vars')]

    size_syms = ('g_T', 'n_rows', 'n_vars')

    def menu(self, case, H, ctx):
        # Str-valued function map_asset is not extractable generically: tie it to a boolean function
        F, name = ctx['F'], ctx['name']
        mine = z3.Function('map_asset_is_mine', z3.IntSort(), z3.BoolSort())
        p = z3.Int('menu!p')
        return [z3.ForAll([p], mine(p) == (F['asset'](p) == name)), ctx['g'].get('T') >= 1], []

    def native(self, case, P):
        import numpy as np
        import pandas as pd
        import eaopack as eao
        from pyvc import native as N
        T, R, nv = int(P['g_T']), int(P['n_rows']), int(P['n_vars'])
        tg, _ = N.synthetic_grid(T, None)
        mine = [bool(b) for b in P['map_asset_is_mine']]
        m = pd.DataFrame({'asset': ['asset_name' if b else 'other' for b in mine], 'time_step': [int(v) for v in P['map_step']]},
                         index=[int(v) for v in P['map_index']])
        if R == 0:
            m = pd.DataFrame({'asset': pd.Series([], dtype=str), 'time_step': pd.Series([], dtype=int)})
        c = np.array([float(v) for v in P['c']])
        x = np.array([float(v) for v in P['x']])
        op = eao.optimization.OptimProblem(c=c, l=np.zeros(nv), u=np.ones(nv), mapping=m)
        res = eao.optimization.Results(value=0.0, x=x, duals=None)
        a = eao.assets.Asset(name='asset_name')
        a.timegrid = tg
        call = lambda: a.dcf(op, res)
        idx, ts = [int(v) for v in P['map_index']], [int(v) for v in P['map_step']]
        ctx = dict(g=Obj('Timegrid', T=T), R=R, nv=nv, name='asset_name', c=S.from_numpy(c), x=S.from_numpy(x),
                   F=dict(idx=lambda p: idx[int(p)], ts=lambda p: ts[int(p)], asset=lambda p: 'asset_name' if mine[int(p)] else 'other'))
        return call, ctx
