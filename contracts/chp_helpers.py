"""Contracts for the unit-commitment helpers of eaopack.assets.CHPAsset  (C06, proof part):

  _add_constrains_for_start_and_shutdown   C06.startdef.*
  _add_constraints_for_min_runtime         C06.minrun.rows / .initial
  _add_constraints_for_min_downtime        C06.mindown.rows / .initial
  _add_constraints_for_heat                C06.heat

Each helper receives the problem built so far (A with N columns, b, cType, l, u) and the block layout
self.on_idx / start_idx / shutdown_idx / heat_idx established by _add_bool_variables (precondition: the blocks
of T variables each lie inside [0, N) and do not overlap).  The postconditions are the row families of the
textbook unit-commitment formulation written from the property statement C06; the exactness lemmas that go
from these rows to "the admissible on/off patterns are exactly those respecting minimum runtime / downtime /
initial state" are in lemmas/c06.py.  Capacity and ramp rows and the driver are the bounded part (bounded/uc.py).
"""
import z3

from pyvc import sym, spec as S
from pyvc.sym import Arr, Mat, Obj, DF, Havoc, lift
from pyvc.interp import Seg, Family, FnStr, RepStr
from .common import Contract, register


def chp_harness(H, with_heat=False):
    T, N, m0 = H.int('T'), H.int('N'), H.int('m0')
    on, st, sd, ht = H.int('on_idx'), H.int('start_idx'), H.int('shutdown_idx'), H.int('heat_idx')
    H.assume(z3.And(T >= 1, m0 >= 0, on >= 0, on + T <= st, st + T <= sd, sd + T <= N))
    n = H.int('n_disp')
    H.assume(z3.And(n >= 0, n <= on))
    if with_heat:
        H.assume(z3.And(ht >= n, ht + n <= on))
    af = H.fun('A0', z3.IntSort(), z3.IntSort(), z3.RealSort())
    ctf = H.fun('ct0', z3.IntSort(), sym.Str)
    A0 = Mat(m0, N, lambda r, c: af(lift(r), lift(c)))
    b0 = H.real_arr('b0', m0)
    l0, u0 = H.real_arr('l0', N), H.real_arr('u0', N)
    op = Obj('OptimProblem', A=A0, b=b0, cType=FnStr(m0, lambda r: ctf(lift(r))), l=l0, u=u0, c=H.real_arr('c0', N))
    R = Obj('Timegrid', T=T, I=H.int_arr('rI', T))
    tg = Obj('Timegrid', restricted=R)
    self_obj = Obj('CHPAsset', name=H.str('asset_name'), timegrid=tg, on_idx=on, start_idx=st, shutdown_idx=sd, heat_idx=ht, n=n,
                   idx_nodes={'power': 0, 'heat': 1 if with_heat else None, 'fuel': None})
    return dict(self_obj=self_obj, op=op, T=T, N=N, m0=m0, on=on, st=st, sd=sd, ht=ht, n=n, af=af, ctf=ctf, b0=b0, l0=l0, u0=u0)


def ind(c, col):
    return z3.If(c == col, z3.RealVal(1), z3.RealVal(0))


def base_kept(ctx, A, b, ct):
    """the rows that were there before are unchanged (first m0 rows)"""
    m0, N = ctx['m0'], ctx['N']
    r, c = z3.Int('r0'), z3.Int('c0')
    Af = A.f if isinstance(A, Mat) else A.segs[0].f
    bf = b.f if isinstance(b, Arr) else b.segs[0].f
    if isinstance(ct, Seg):
        ct = ct.segs[0]
    return z3.ForAll([r, c], z3.Implies(z3.And(r >= 0, r < m0, c >= 0, c < N), z3.And(
        lift(Af(r, c)) == ctx['af'](r, c), lift(bf(r)) == ctx['b0'].f(r), lift(S.char_at(ct, r)) == ctx['ctf'](r))))


@register
class StartShutdown(Contract):
    qualname = 'assets:CHPAsset._add_constrains_for_start_and_shutdown'
    prefix = 'C06.startdef'
    properties = ('C06',)

    def cases(self):
        return [dict(start=True, shutdown=False), dict(start=True, shutdown=True), dict(start=False, shutdown=False)]

    def harness(self, H, case):
        ctx = chp_harness(H)
        tar = H.int('time_already_running')
        H.assume(tar >= 0)
        ctx.update(tar=tar, args=[ctx['op'], tar, case['start'], case['shutdown']])
        return ctx

    def post(self, H, case, outcome, I, ctx):
        if outcome[0] != 'return':
            yield ('C06.startdef.no_raise', False if outcome[0] == 'raise' else Havoc(outcome[1]))
            return
        op = outcome[1]
        A, b, ct, u, l = (op.get(k) for k in ('A', 'b', 'cType', 'u', 'l'))
        T, N, m0, on, st, sd, tar = (ctx[k] for k in ('T', 'N', 'm0', 'on', 'st', 'sd', 'tar'))
        if any(isinstance(x, Havoc) for x in (A, b, ct, u)):
            yield ('C06.startdef.rows', next(x for x in (A, b, ct, u) if isinstance(x, Havoc)))
            return
        if not case['start']:
            yield ('C06.startdef.nothing_without_start_variables', A is ctx['op'].get('A') or (isinstance(A, Mat) and z3.is_true(z3.simplify(lift(A.nr) == m0))))
            return
        t, c = z3.Int('t'), z3.Int('c')
        cr = z3.And(c >= 0, c < N)
        yield ('C06.startdef.base_rows_kept', base_kept(ctx, A, b, ct))
        init0 = (tar == 0)
        if not case['shutdown']:
            nrows = m0 + (T - 1) + z3.If(init0, 1, 0)
            yield ('C06.startdef.shape', z3.And(lift(A.nr) == nrows, lift(b.n) == nrows, lift(S.str_len(ct)) == nrows))
            # on[t+1] - on[t] - start[t+1] <= 0
            yield ('C06.startdef.rows', z3.ForAll([t, c], z3.Implies(z3.And(t >= 0, t < T - 1, cr), z3.And(
                lift(A.f(m0 + t, c)) == ind(c, on + t + 1) - ind(c, on + t) - ind(c, st + t + 1),
                lift(b.f(m0 + t)) == 0, lift(S.char_at(ct, m0 + t)) == sym.strlit('U')))))
            # not running before: on[0] - start[0] = 0
            r0 = m0 + T - 1
            yield ('C06.startdef.initial', z3.Implies(init0, z3.ForAll([c], z3.Implies(cr, z3.And(
                lift(A.f(r0, c)) == ind(c, on) - ind(c, st), lift(b.f(r0)) == 0, lift(S.char_at(ct, r0)) == sym.strlit('S'))))))
            yield ('C06.startdef.bounds_untouched', z3.ForAll([c], z3.Implies(cr, z3.And(lift(u.f(c)) == ctx['u0'].f(c), lift(l.f(c)) == ctx['l0'].f(c)))))
        else:
            nrows = m0 + (T - 1) + 1 + (T - 1)
            yield ('C06.startdef.shape', z3.And(lift(A.nr) == nrows, lift(b.n) == nrows, lift(S.str_len(ct)) == nrows))
            # on[t+1] - on[t] - start[t+1] + shutdown[t+1] = 0
            yield ('C06.startdef.rows', z3.ForAll([t, c], z3.Implies(z3.And(t >= 0, t < T - 1, cr), z3.And(
                lift(A.f(m0 + t, c)) == ind(c, on + t + 1) - ind(c, on + t) - ind(c, st + t + 1) + ind(c, sd + t + 1),
                lift(b.f(m0 + t)) == 0, lift(S.char_at(ct, m0 + t)) == sym.strlit('S')))))
            r0 = m0 + T - 1
            yield ('C06.startdef.initial', z3.ForAll([c], z3.Implies(cr, z3.And(
                lift(A.f(r0, c)) == z3.If(init0, ind(c, on) - ind(c, st), ind(c, on) + ind(c, sd)),
                lift(b.f(r0)) == z3.If(init0, z3.RealVal(0), z3.RealVal(1)), lift(S.char_at(ct, r0)) == sym.strlit('S')))))
            # a step is not start and shutdown at once
            yield ('C06.startdef.no_overlap', z3.ForAll([t, c], z3.Implies(z3.And(t >= 0, t < T - 1, cr), z3.And(
                lift(A.f(r0 + 1 + t, c)) == ind(c, st + t) + ind(c, sd + t), lift(b.f(r0 + 1 + t)) == 1,
                lift(S.char_at(ct, r0 + 1 + t)) == sym.strlit('U')))))
            # no shutdown flag in step 0 if not running before / no start flag in step 0 if running before
            yield ('C06.startdef.bounds', z3.ForAll([c], z3.Implies(cr, z3.And(
                lift(u.f(c)) == z3.If(z3.Or(z3.And(init0, c == sd), z3.And(z3.Not(init0), c == st)), z3.RealVal(0), ctx['u0'].f(c)),
                lift(l.f(c)) == ctx['l0'].f(c)))))


def family_segments(x):
    return [s for s in x.segs if isinstance(s, Family)] if isinstance(x, Seg) else []


def explicit_tail(x, kind):
    """segments after the first (base) one that are not families"""
    if not isinstance(x, Seg):
        return []
    return [s for s in x.segs[1:] if not isinstance(s, Family)]


@register
class MinRuntime(Contract):
    qualname = 'assets:CHPAsset._add_constraints_for_min_runtime'
    prefix = 'C06.minrun'
    properties = ('C06',)

    def cases(self):
        return [dict(start=True), dict(start=False)]

    def harness(self, H, case):
        ctx = chp_harness(H)
        mr, tar = H.int('min_runtime'), H.int('time_already_running')
        H.assume(z3.And(mr >= 0, tar >= 0))
        ctx.update(mr=mr, tar=tar, args=[ctx['op'], mr, case['start'], tar])
        return ctx

    def post(self, H, case, outcome, I, ctx):
        if outcome[0] != 'return':
            yield ('C06.minrun.no_raise', False if outcome[0] == 'raise' else Havoc(outcome[1]))
            return
        op = outcome[1]
        A, b, ct, l, u = (op.get(k) for k in ('A', 'b', 'cType', 'l', 'u'))
        T, N, m0, on, st, mr, tar = (ctx[k] for k in ('T', 'N', 'm0', 'on', 'st', 'mr', 'tar'))
        if any(isinstance(x, Havoc) for x in (A, b, ct, l)):
            yield ('C06.minrun.rows', next(x for x in (A, b, ct, l) if isinstance(x, Havoc)))
            return
        active = z3.And(z3.BoolVal(case['start']), mr > 1)
        c = z3.Int('c')
        cr = z3.And(c >= 0, c < N)
        if not isinstance(A, Seg):
            # nothing appended on this path
            yield ('C06.minrun.rows_only_if_needed', z3.Not(active))
            yield ('C06.minrun.bounds_untouched', z3.ForAll([c], z3.Implies(cr, lift(l.f(c)) == ctx['l0'].f(c))))
            return
        fa, fb, fc = family_segments(A), family_segments(b), family_segments(ct)
        yield ('C06.minrun.structure', len(fa) == 1 and len(fb) == 1 and len(fc) == 1 and not explicit_tail(A, 'mat')
               and not explicit_tail(b, 'arr') and not explicit_tail(ct, 'str') and len(fa[0].vars) == 2)
        if not (len(fa) == 1 and len(fb) == 1 and len(fc) == 1 and len(fa[0].vars) == 2):
            return
        yield ('C06.minrun.rows_only_if_needed', active)
        yield ('C06.minrun.base_rows_kept', base_kept(ctx, A, b, ct))
        t, i = fa[0].vars
        # one row per (t, i) with 1 <= i < min_runtime, i <= t < T :  on[t] - start[t-i] >= 0
        dom = z3.And(t >= 0, t < T, i >= 1, i < mr, i <= t)
        yield ('C06.minrun.domain', z3.ForAll([t, i], z3.And(fa[0].dom == dom, fb[0].dom == dom, fc[0].dom == dom)))
        item = fa[0].item
        yield ('C06.minrun.rows', z3.ForAll([t, i, c], z3.Implies(z3.And(dom, cr), z3.And(
            lift(item.nr) == 1, lift(item.f(0, c)) == ind(c, on + t) - ind(c, st + t - i),
            lift(fb[0].item.f(0)) == 0, lift(S.char_at(fc[0].item, 0)) == sym.strlit('L')))))
        # already running for tar < min_runtime steps: the first min_runtime - tar steps are on
        forced = z3.And(tar > 0, mr - tar > 0)
        yield ('C06.minrun.initial', z3.ForAll([c], z3.Implies(cr, lift(l.f(c)) == z3.If(
            z3.And(forced, c >= on, c < on + mr - tar), z3.RealVal(1), ctx['l0'].f(c)))))
        yield ('C06.minrun.upper_untouched', z3.ForAll([c], z3.Implies(cr, lift(u.f(c)) == ctx['u0'].f(c))))


@register
class MinDowntime(Contract):
    qualname = 'assets:CHPAsset._add_constraints_for_min_downtime'
    prefix = 'C06.mindown'
    properties = ('C06',)

    def harness(self, H, case):
        ctx = chp_harness(H)
        md, tao = H.int('min_downtime'), H.int('time_already_off')
        H.assume(z3.And(md >= 0, tao >= 0))
        ctx.update(md=md, tao=tao, args=[ctx['op'], md, tao])
        return ctx

    def post(self, H, case, outcome, I, ctx):
        if outcome[0] != 'return':
            yield ('C06.mindown.no_raise', False if outcome[0] == 'raise' else Havoc(outcome[1]))
            return
        op = outcome[1]
        A, b, ct, l, u = (op.get(k) for k in ('A', 'b', 'cType', 'l', 'u'))
        T, N, m0, on, md, tao = (ctx[k] for k in ('T', 'N', 'm0', 'on', 'md', 'tao'))
        if any(isinstance(x, Havoc) for x in (A, b, ct, u)):
            yield ('C06.mindown.rows', next(x for x in (A, b, ct, u) if isinstance(x, Havoc)))
            return
        c = z3.Int('c')
        cr = z3.And(c >= 0, c < N)
        if not isinstance(A, Seg):
            yield ('C06.mindown.rows_only_if_needed', z3.Not(md > 1))
            yield ('C06.mindown.bounds_untouched', z3.ForAll([c], z3.Implies(cr, lift(u.f(c)) == ctx['u0'].f(c))))
            return
        fa, fb, fc = family_segments(A), family_segments(b), family_segments(ct)
        ok = len(fa) == 1 and len(fb) == 1 and len(fc) == 1 and len(fa[0].vars) == 2
        yield ('C06.mindown.structure', ok and not explicit_tail(A, 'mat') and not explicit_tail(b, 'arr') and not explicit_tail(ct, 'str'))
        if not ok:
            return
        yield ('C06.mindown.rows_only_if_needed', md > 1)
        yield ('C06.mindown.base_rows_kept', base_kept(ctx, A, b, ct))
        t, i = fa[0].vars
        dom = z3.And(t >= 0, t < T, i >= 1, i < md, i <= t)
        yield ('C06.mindown.domain', z3.ForAll([t, i], z3.And(fa[0].dom == dom, fb[0].dom == dom, fc[0].dom == dom)))
        item = fa[0].item
        # t > i :  on[t] - on[t-i] + on[t-i-1] <= 1      (off at t-i after on at t-i-1  =>  off at t)
        # t = i :  on[t] - on[0] <= [was off before]      (running before and off in step 0  =>  off at t;
        #                                                  off before: covered by the initial-state bound below)
        rhs = z3.If(z3.And(t == i, tao == 0), z3.RealVal(0), z3.RealVal(1))
        yield ('C06.mindown.rows', z3.ForAll([t, i, c], z3.Implies(z3.And(dom, cr), z3.And(
            lift(item.nr) == 1,
            lift(item.f(0, c)) == ind(c, on + t) - ind(c, on + t - i) + z3.If(t > i, ind(c, on + t - i - 1), z3.RealVal(0)),
            lift(fb[0].item.f(0)) == rhs, lift(S.char_at(fc[0].item, 0)) == sym.strlit('U')))))
        forced = z3.And(tao > 0, md - tao > 0)
        yield ('C06.mindown.initial', z3.ForAll([c], z3.Implies(cr, lift(u.f(c)) == z3.If(
            z3.And(forced, c >= on, c < on + md - tao), z3.RealVal(0), ctx['u0'].f(c)))))
        yield ('C06.mindown.lower_untouched', z3.ForAll([c], z3.Implies(cr, lift(l.f(c)) == ctx['l0'].f(c))))


@register
class HeatShare(Contract):
    qualname = 'assets:CHPAsset._add_constraints_for_heat'
    prefix = 'C06.heat'
    properties = ('C06',)

    def cases(self):
        return [dict(share=True), dict(share=False)]

    def harness(self, H, case):
        ctx = chp_harness(H, with_heat=True)
        share = H.real_arr('max_share_heat', ctx['n']) if case['share'] else None
        ctx.update(share=share, args=[ctx['op'], share])
        return ctx

    def post(self, H, case, outcome, I, ctx):
        if outcome[0] != 'return':
            yield ('C06.heat.no_raise', False if outcome[0] == 'raise' else Havoc(outcome[1]))
            return
        op = outcome[1]
        A, b, ct = (op.get(k) for k in ('A', 'b', 'cType'))
        N, m0, n, ht = (ctx[k] for k in ('N', 'm0', 'n', 'ht'))
        if any(isinstance(x, Havoc) for x in (A, b, ct)):
            yield ('C06.heat', next(x for x in (A, b, ct) if isinstance(x, Havoc)))
            return
        if not case['share']:
            yield ('C06.heat.nothing_without_share', isinstance(A, Mat) and z3.is_true(z3.simplify(lift(A.nr) == m0)))
            return
        i, c = z3.Int('i'), z3.Int('c')
        yield ('C06.heat.shape', z3.And(lift(A.nr) == m0 + n, lift(b.n) == m0 + n, lift(S.str_len(ct)) == m0 + n))
        yield ('C06.heat.base_rows_kept', base_kept(ctx, A, b, ct))
        # heat[i] - share[i] * power[i] <= 0
        yield ('C06.heat', z3.ForAll([i, c], z3.Implies(z3.And(i >= 0, i < n, c >= 0, c < N), z3.And(
            lift(A.f(m0 + i, c)) == ind(c, ht + i) - ctx['share'].f(i) * ind(c, i), lift(b.f(m0 + i)) == 0,
            lift(S.char_at(ct, m0 + i)) == sym.strlit('U')))))
