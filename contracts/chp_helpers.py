"""Contracts for the unit-commitment helpers of eaopack.assets.CHPAsset  (C06, proof part):

  _add_constrains_for_start_and_shutdown   C06.startdef.*
  _add_constraints_for_min_runtime         C06.minrun.rows / .initial
  _add_constraints_for_min_downtime        C06.mindown.rows / .initial
  _add_constraints_for_heat                C06.heat

Each helper receives the problem built so far (A with N columns, b, cType, l, u) and the block layout
self.on_idx / start_idx / shutdown_idx / heat_idx established by _add_bool_variables (precondition: the blocks
of T variables each lie inside [0, N) and do not overlap).  The postconditions are the row families of the
textbook unit-commitment formulation written from the property statement C06; the exactness lemmas that go
from these rows to "the admissible on/off patterns are exactly those respecting minimum runtime / downtime /
initial state" are in lemmas/c06.py.  Capacity and ramp rows and the driver are the bounded part (bounded/uc.py).
"""
import z3

from pyvc import sym, spec as S
from pyvc.sym import Arr, Mat, Obj, DF, Havoc, lift
from pyvc.interp import Seg, Family, FnStr, RepStr
from .common import Contract, register


def chp_harness(H, with_heat=False):
    T, N, m0 = H.int('T'), H.int('N'), H.int('m0')
    on, st, sd, ht = H.int('on_idx'), H.int('start_idx'), H.int('shutdown_idx'), H.int('heat_idx')
    H.assume(z3.And(T >= 1, m0 >= 0, on >= 0, on + T <= st, st + T <= sd, sd + T <= N))
    n = H.int('n_disp')
    H.assume(z3.And(n >= 0, n <= on))
    if with_heat:
        H.assume(z3.And(ht >= n, ht + n <= on))
    af = H.fun('A0', z3.IntSort(), z3.IntSort(), z3.RealSort())
    ctf = H.fun('ct0', z3.IntSort(), sym.Str)
    A0 = Mat(m0, N, lambda r, c: af(lift(r), lift(c)))
    b0 = H.real_arr('b0', m0)
    l0, u0 = H.real_arr('l0', N), H.real_arr('u0', N)
    op = Obj('OptimProblem', A=A0, b=b0, cType=FnStr(m0, lambda r: ctf(lift(r))), l=l0, u=u0, c=H.real_arr('c0', N))
    R = Obj('Timegrid', T=T, I=H.int_arr('rI', T))
    tg = Obj('Timegrid', restricted=R)
    self_obj = Obj('CHPAsset', name=H.str('asset_name'), timegrid=tg, on_idx=on, start_idx=st, shutdown_idx=sd, heat_idx=ht, n=n,
                   idx_nodes={'power': 0, 'heat': 1 if with_heat else None, 'fuel': None})
    # the helpers write bounds in place: the specification refers to pristine copies of the vectors as they were at entry
    return dict(self_obj=self_obj, op=op, T=T, N=N, m0=m0, on=on, st=st, sd=sd, ht=ht, n=n, af=af, ctf=ctf, b0=b0.copy(), l0=l0.copy(), u0=u0.copy())


def ind(c, col):
    return z3.If(c == col, z3.RealVal(1), z3.RealVal(0))


def base_kept(ctx, A, b, ct):
    """the rows that were there before are unchanged (first m0 rows)"""
    m0, N = ctx['m0'], ctx['N']
    r, c = z3.Int('r0'), z3.Int('c0')
    Af = A.f if isinstance(A, Mat) else A.segs[0].f
    bf = b.f if isinstance(b, Arr) else b.segs[0].f
    if isinstance(ct, Seg):
        ct = ct.segs[0]
    return z3.ForAll([r, c], z3.Implies(z3.And(r >= 0, r < m0, c >= 0, c < N), z3.And(
        lift(Af(r, c)) == ctx['af'](r, c), lift(bf(r)) == ctx['b0'].f(r), lift(S.char_at(ct, r)) == ctx['ctf'](r))))


@register
class StartShutdown(Contract):
    qualname = 'assets:CHPAsset._add_constrains_for_start_and_shutdown'
    prefix = 'C06.startdef'
    properties = ('C06',)

    def cases(self):
        return [dict(start=True, shutdown=False), dict(start=True, shutdown=True), dict(start=False, shutdown=False)]

    def harness(self, H, case):
        ctx = chp_harness(H)
        tar = H.int('time_already_running')
        H.assume(tar >= 0)
        ctx.update(tar=tar, args=[ctx['op'], tar, case['start'], case['shutdown']])
        return ctx

    def post(self, H, case, outcome, I, ctx):
        if outcome[0] != 'return':
            yield ('C06.startdef.no_raise', False if outcome[0] == 'raise' else Havoc(outcome[1]))
            return
        op = outcome[1]
        A, b, ct, u, l = (op.get(k) for k in ('A', 'b', 'cType', 'u', 'l'))
        T, N, m0, on, st, sd, tar = (ctx[k] for k in ('T', 'N', 'm0', 'on', 'st', 'sd', 'tar'))
        if any(isinstance(x, Havoc) for x in (A, b, ct, u)):
            yield ('C06.startdef.rows', next(x for x in (A, b, ct, u) if isinstance(x, Havoc)))
            return
        if not case['start']:
            yield ('C06.startdef.nothing_without_start_variables', A is ctx['op'].get('A') or (isinstance(A, Mat) and z3.is_true(z3.simplify(lift(A.nr) == m0))))
            return
        t, c = z3.Int('t'), z3.Int('c')
        cr = z3.And(c >= 0, c < N)
        yield ('C06.startdef.base_rows_kept', base_kept(ctx, A, b, ct))
        init0 = (tar == 0)
        if not case['shutdown']:
            nrows = m0 + (T - 1) + z3.If(init0, 1, 0)
            yield ('C06.startdef.shape', z3.And(lift(A.nr) == nrows, lift(b.n) == nrows, lift(S.str_len(ct)) == nrows))
            # on[t+1] - on[t] - start[t+1] <= 0
            yield ('C06.startdef.rows', z3.ForAll([t, c], z3.Implies(z3.And(t >= 0, t < T - 1, cr), z3.And(
                lift(A.f(m0 + t, c)) == ind(c, on + t + 1) - ind(c, on + t) - ind(c, st + t + 1),
                lift(b.f(m0 + t)) == 0, lift(S.char_at(ct, m0 + t)) == sym.strlit('U')))))
            # not running before: on[0] - start[0] = 0
            r0 = m0 + T - 1
            yield ('C06.startdef.initial', z3.Implies(init0, z3.ForAll([c], z3.Implies(cr, z3.And(
                lift(A.f(r0, c)) == ind(c, on) - ind(c, st), lift(b.f(r0)) == 0, lift(S.char_at(ct, r0)) == sym.strlit('S'))))))
            yield ('C06.startdef.bounds_untouched', z3.ForAll([c], z3.Implies(cr, z3.And(lift(u.f(c)) == ctx['u0'].f(c), lift(l.f(c)) == ctx['l0'].f(c)))))
        else:
            nrows = m0 + (T - 1) + 1 + T
            yield ('C06.startdef.shape', z3.And(lift(A.nr) == nrows, lift(b.n) == nrows, lift(S.str_len(ct)) == nrows))
            # on[t+1] - on[t] - start[t+1] + shutdown[t+1] = 0
            yield ('C06.startdef.rows', z3.ForAll([t, c], z3.Implies(z3.And(t >= 0, t < T - 1, cr), z3.And(
                lift(A.f(m0 + t, c)) == ind(c, on + t + 1) - ind(c, on + t) - ind(c, st + t + 1) + ind(c, sd + t + 1),
                lift(b.f(m0 + t)) == 0, lift(S.char_at(ct, m0 + t)) == sym.strlit('S')))))
            r0 = m0 + T - 1
            yield ('C06.startdef.initial', z3.ForAll([c], z3.Implies(cr, z3.And(
                lift(A.f(r0, c)) == z3.If(init0, ind(c, on) - ind(c, st), ind(c, on) + ind(c, sd)),
                lift(b.f(r0)) == z3.If(init0, z3.RealVal(0), z3.RealVal(1)), lift(S.char_at(ct, r0)) == sym.strlit('S')))))
            # NO step is start and shutdown at once (from the statement: a start is flagged exactly at off-to-on transitions -- with
            # start = shutdown = 1 the transition row on[t] - on[t-1] = start[t] - shutdown[t] would admit a start without a transition);
            # the last step included (defect D37 of the pinned tree: the rows stopped at T-2)
            yield ('C06.startdef.no_overlap', z3.ForAll([t, c], z3.Implies(z3.And(t >= 0, t < T, cr), z3.And(
                lift(A.f(r0 + 1 + t, c)) == ind(c, st + t) + ind(c, sd + t), lift(b.f(r0 + 1 + t)) == 1,
                lift(S.char_at(ct, r0 + 1 + t)) == sym.strlit('U')))))
            # no shutdown flag in step 0 if not running before / no start flag in step 0 if running before
            yield ('C06.startdef.bounds', z3.ForAll([c], z3.Implies(cr, z3.And(
                lift(u.f(c)) == z3.If(z3.Or(z3.And(init0, c == sd), z3.And(z3.Not(init0), c == st)), z3.RealVal(0), ctx['u0'].f(c)),
                lift(l.f(c)) == ctx['l0'].f(c)))))


def family_segments(x):
    return [s for s in x.segs if isinstance(s, Family)] if isinstance(x, Seg) else []


def explicit_tail(x, kind):
    """segments after the first (base) one that are not families"""
    if not isinstance(x, Seg):
        return []
    return [s for s in x.segs[1:] if not isinstance(s, Family)]


@register
class MinRuntime(Contract):
    qualname = 'assets:CHPAsset._add_constraints_for_min_runtime'
    prefix = 'C06.minrun'
    properties = ('C06',)

    def cases(self):
        return [dict(start=True), dict(start=False)]

    def harness(self, H, case):
        ctx = chp_harness(H)
        mr, tar = H.int('min_runtime'), H.int('time_already_running')
        H.assume(z3.And(mr >= 0, tar >= 0))
        ctx.update(mr=mr, tar=tar, args=[ctx['op'], mr, case['start'], tar])
        return ctx

    def post(self, H, case, outcome, I, ctx):
        if outcome[0] != 'return':
            yield ('C06.minrun.no_raise', False if outcome[0] == 'raise' else Havoc(outcome[1]))
            return
        op = outcome[1]
        A, b, ct, l, u = (op.get(k) for k in ('A', 'b', 'cType', 'l', 'u'))
        T, N, m0, on, st, mr, tar = (ctx[k] for k in ('T', 'N', 'm0', 'on', 'st', 'mr', 'tar'))
        if any(isinstance(x, Havoc) for x in (A, b, ct, l)):
            yield ('C06.minrun.rows', next(x for x in (A, b, ct, l) if isinstance(x, Havoc)))
            return
        active = z3.And(z3.BoolVal(case['start']), mr > 1)
        c = z3.Int('c')
        cr = z3.And(c >= 0, c < N)
        if not isinstance(A, Seg):
            # nothing appended on this path
            yield ('C06.minrun.rows_only_if_needed', z3.Not(active))
            yield ('C06.minrun.bounds_untouched', z3.ForAll([c], z3.Implies(cr, lift(l.f(c)) == ctx['l0'].f(c))))
            return
        fa, fb, fc = family_segments(A), family_segments(b), family_segments(ct)
        yield ('C06.minrun.structure', len(fa) == 1 and len(fb) == 1 and len(fc) == 1 and not explicit_tail(A, 'mat')
               and not explicit_tail(b, 'arr') and not explicit_tail(ct, 'str') and len(fa[0].vars) == 2)
        if not (len(fa) == 1 and len(fb) == 1 and len(fc) == 1 and len(fa[0].vars) == 2):
            return
        yield ('C06.minrun.rows_only_if_needed', active)
        yield ('C06.minrun.base_rows_kept', base_kept(ctx, A, b, ct))
        t, i = fa[0].vars
        # one row per (t, i) with 1 <= i < min_runtime, i <= t < T :  on[t] - start[t-i] >= 0
        dom = z3.And(t >= 0, t < T, i >= 1, i < mr, i <= t)
        yield ('C06.minrun.domain', z3.ForAll([t, i], z3.And(fa[0].dom == dom, fb[0].dom == dom, fc[0].dom == dom)))
        item = fa[0].item
        yield ('C06.minrun.rows', z3.ForAll([t, i, c], z3.Implies(z3.And(dom, cr), z3.And(
            lift(item.nr) == 1, lift(item.f(0, c)) == ind(c, on + t) - ind(c, st + t - i),
            lift(fb[0].item.f(0)) == 0, lift(S.char_at(fc[0].item, 0)) == sym.strlit('L')))))
        # already running for tar < min_runtime steps: the first min_runtime - tar steps are on -- as far as the horizon reaches: only
        # ON variables are forced (a remaining runtime beyond the horizon must not reach into the start / shutdown flags, which the
        # statement ties to off-to-on transitions)
        forced = z3.And(tar > 0, mr - tar > 0)
        yield ('C06.minrun.initial', z3.ForAll([c], z3.Implies(cr, lift(l.f(c)) == z3.If(
            z3.And(forced, c >= on, c < on + mr - tar, c < on + T), z3.RealVal(1), ctx['l0'].f(c)))))
        yield ('C06.minrun.upper_untouched', z3.ForAll([c], z3.Implies(cr, lift(u.f(c)) == ctx['u0'].f(c))))


@register
class MinDowntime(Contract):
    qualname = 'assets:CHPAsset._add_constraints_for_min_downtime'
    prefix = 'C06.mindown'
    properties = ('C06',)

    def harness(self, H, case):
        ctx = chp_harness(H)
        md, tao = H.int('min_downtime'), H.int('time_already_off')
        H.assume(z3.And(md >= 0, tao >= 0))
        ctx.update(md=md, tao=tao, args=[ctx['op'], md, tao])
        return ctx

    def post(self, H, case, outcome, I, ctx):
        if outcome[0] != 'return':
            yield ('C06.mindown.no_raise', False if outcome[0] == 'raise' else Havoc(outcome[1]))
            return
        op = outcome[1]
        A, b, ct, l, u = (op.get(k) for k in ('A', 'b', 'cType', 'l', 'u'))
        T, N, m0, on, md, tao = (ctx[k] for k in ('T', 'N', 'm0', 'on', 'md', 'tao'))
        if any(isinstance(x, Havoc) for x in (A, b, ct, u)):
            yield ('C06.mindown.rows', next(x for x in (A, b, ct, u) if isinstance(x, Havoc)))
            return
        c = z3.Int('c')
        cr = z3.And(c >= 0, c < N)
        if not isinstance(A, Seg):
            yield ('C06.mindown.rows_only_if_needed', z3.Not(md > 1))
            yield ('C06.mindown.bounds_untouched', z3.ForAll([c], z3.Implies(cr, lift(u.f(c)) == ctx['u0'].f(c))))
            return
        fa, fb, fc = family_segments(A), family_segments(b), family_segments(ct)
        ok = len(fa) == 1 and len(fb) == 1 and len(fc) == 1 and len(fa[0].vars) == 2
        yield ('C06.mindown.structure', ok and not explicit_tail(A, 'mat') and not explicit_tail(b, 'arr') and not explicit_tail(ct, 'str'))
        if not ok:
            return
        yield ('C06.mindown.rows_only_if_needed', md > 1)
        yield ('C06.mindown.base_rows_kept', base_kept(ctx, A, b, ct))
        t, i = fa[0].vars
        dom = z3.And(t >= 0, t < T, i >= 1, i < md, i <= t)
        yield ('C06.mindown.domain', z3.ForAll([t, i], z3.And(fa[0].dom == dom, fb[0].dom == dom, fc[0].dom == dom)))
        item = fa[0].item
        # t > i :  on[t] - on[t-i] + on[t-i-1] <= 1      (off at t-i after on at t-i-1  =>  off at t)
        # t = i :  on[t] - on[0] <= [was off before]      (running before and off in step 0  =>  off at t;
        #                                                  off before: covered by the initial-state bound below)
        rhs = z3.If(z3.And(t == i, tao == 0), z3.RealVal(0), z3.RealVal(1))
        yield ('C06.mindown.rows', z3.ForAll([t, i, c], z3.Implies(z3.And(dom, cr), z3.And(
            lift(item.nr) == 1,
            lift(item.f(0, c)) == ind(c, on + t) - ind(c, on + t - i) + z3.If(t > i, ind(c, on + t - i - 1), z3.RealVal(0)),
            lift(fb[0].item.f(0)) == rhs, lift(S.char_at(fc[0].item, 0)) == sym.strlit('U')))))
        forced = z3.And(tao > 0, md - tao > 0)
        # already off for tao < min_downtime steps: the first min_downtime - tao steps (as far as the horizon reaches) stay off.  Variables
        # outside the ON block keep their bound -- or are closed too when the remaining downtime exceeds the horizon (the plant is then off
        # throughout, so absent start / shutdown flags are implied; the pinned code does that by letting the slice run on)
        onb = z3.And(c >= on, c < on + T)
        yield ('C06.mindown.initial', z3.ForAll([c], z3.Implies(cr, z3.If(onb,
            lift(u.f(c)) == z3.If(z3.And(forced, c < on + md - tao), z3.RealVal(0), ctx['u0'].f(c)),
            z3.Or(lift(u.f(c)) == ctx['u0'].f(c), z3.And(forced, md - tao > T, lift(u.f(c)) == 0))))))
        yield ('C06.mindown.lower_untouched', z3.ForAll([c], z3.Implies(cr, lift(l.f(c)) == ctx['l0'].f(c))))


@register
class HeatShare(Contract):
    qualname = 'assets:CHPAsset._add_constraints_for_heat'
    prefix = 'C06.heat'
    properties = ('C06',)

    def cases(self):
        return [dict(share=True), dict(share=False)]

    def harness(self, H, case):
        ctx = chp_harness(H, with_heat=True)
        share = H.real_arr('max_share_heat', ctx['n']) if case['share'] else None
        ctx.update(share=share, args=[ctx['op'], share])
        return ctx

    def post(self, H, case, outcome, I, ctx):
        if outcome[0] != 'return':
            yield ('C06.heat.no_raise', False if outcome[0] == 'raise' else Havoc(outcome[1]))
            return
        op = outcome[1]
        A, b, ct = (op.get(k) for k in ('A', 'b', 'cType'))
        N, m0, n, ht = (ctx[k] for k in ('N', 'm0', 'n', 'ht'))
        if any(isinstance(x, Havoc) for x in (A, b, ct)):
            yield ('C06.heat', next(x for x in (A, b, ct) if isinstance(x, Havoc)))
            return
        if not case['share']:
            yield ('C06.heat.nothing_without_share', isinstance(A, Mat) and z3.is_true(z3.simplify(lift(A.nr) == m0)))
            return
        i, c = z3.Int('i'), z3.Int('c')
        yield ('C06.heat.shape', z3.And(lift(A.nr) == m0 + n, lift(b.n) == m0 + n, lift(S.str_len(ct)) == m0 + n))
        yield ('C06.heat.base_rows_kept', base_kept(ctx, A, b, ct))
        # heat[i] - share[i] * power[i] <= 0
        yield ('C06.heat', z3.ForAll([i, c], z3.Implies(z3.And(i >= 0, i < n, c >= 0, c < N), z3.And(
            lift(A.f(m0 + i, c)) == ind(c, ht + i) - ctx['share'].f(i) * ind(c, i), lift(b.f(m0 + i)) == 0,
            lift(S.char_at(ct, m0 + i)) == sym.strlit('U')))))


@register
class FuelConsumption(Contract):
    """CHPAsset._add_fuel_consumption: C06 "fuel drawn equals output divided by fuel efficiency plus the running and start
    consumption".  The fuel draw is expressed through mapping rows at the fuel node (dispatch = sum of x x disp_factor, see C01):
        every power dispatch row of variable j at step t   ->  a fuel-node row of j with factor  -1 / eff[t]
        every heat dispatch row                            ->  factor  -conv[t] / eff[t]
        every on-flag row  (if on variables exist)         ->  type d, factor  -consumption_if_on[t]
        every start-flag row (if start variables exist)    ->  type d, factor  -start_fuel[t]
    and the rows that were there before are kept in place.  Harness: a mapping of R rows of arbitrary content; the rows of one
    kind are in step order (established by _add_dispatch_variables / _add_bool_variables: one row per step), so the per-step
    parameter arrays (length = number of such rows) align with them."""
    qualname = 'assets:CHPAsset._add_fuel_consumption'
    prefix = 'C06.fuel'
    properties = ('C06',)

    def cases(self):
        return [dict(heat=h, on=o, start=s) for h in (True, False) for (o, s) in ((True, True), (True, False), (False, False))]

    def harness(self, H, case):
        R = H.int('n_maprows')
        H.assume(R >= 0)
        idx = H.fun('map_index', z3.IntSort(), z3.IntSort())
        ts = H.fun('map_time_step', z3.IntSort(), z3.IntSort())
        node = H.fun('map_node', z3.IntSort(), sym.Str)
        typ = H.fun('map_type', z3.IntSort(), sym.Str)
        var = H.fun('map_var_name', z3.IntSort(), sym.Str)
        names = [H.str('node_power'), H.str('node_heat'), H.str('node_fuel')]
        H.assume(z3.Distinct(*names))
        col = lambda f: Arr(R, lambda q: f(lift(q)))
        mapping = DF(R, col(idx), {'time_step': col(ts), 'node': col(node), 'type': col(typ), 'var_name': col(var)})
        op = Obj('OptimProblem', mapping=mapping)
        self_obj = Obj('CHPAsset', name=H.str('asset_name'), node_names=names if case['heat'] else [names[0], names[2]],
                       idx_nodes={'power': 0, 'heat': 1 if case['heat'] else None, 'fuel': 2 if case['heat'] else 1})
        fuel = names[2]
        # number of rows of each kind = length of the per-step parameter arrays (one row per step of the asset's window)
        kinds = {'power': lambda q: z3.And(var(q) == sym.strlit('disp'), node(q) == names[0]),
                 'heat': lambda q: z3.And(var(q) == sym.strlit('disp'), node(q) == names[1]),
                 'on': lambda q: var(q) == sym.strlit('bool_on'), 'start': lambda q: var(q) == sym.strlit('bool_start')}
        T = H.int('T')
        H.assume(T >= 0)
        eff, conv, cons, sfuel = (H.real_arr(nm, T) for nm in ('fuel_efficiency', 'conversion_factor_power_heat', 'consumption_if_on', 'start_fuel'))
        q = z3.Int('h!q')
        H.assume(z3.ForAll([q], z3.Implies(z3.And(q >= 0, q < T), eff.f(q) != 0), patterns=[eff.f(q)]))
        ctx = dict(self_obj=self_obj, op=op, R=R, idx=idx, ts=ts, node=node, typ=typ, var=var, names=names, fuel=fuel, kinds=kinds, T=T,
                   eff=eff, conv=conv, cons=cons, sfuel=sfuel, mapping=mapping,
                   args=[op, eff, cons, sfuel, conv, case['on'], case['start']])
        # the selections of each kind have exactly T rows (precondition; see docstring)
        for k in ('power',) + (('heat',) if case['heat'] else ()) + (('on',) if case['on'] else ()) + (('start',) if case['start'] else ()):
            mask = Arr(R, lambda p, _k=k: kinds[_k](lift(p)))
            cnt, sel, rank = sym.COMP.get(mask)
            H.assume(cnt == T)
            ctx['sel_' + k] = (cnt, sel, rank)
        H.protect[id(eff)] = 'fuel_efficiency'
        return ctx

    def post(self, H, case, outcome, I, ctx):
        if outcome[0] != 'return':
            yield ('C06.fuel.no_raise', False if outcome[0] == 'raise' else Havoc(outcome[1]))
            return
        op = outcome[1]
        m = op.get('mapping') if isinstance(op, Obj) else None
        if not isinstance(m, DF) or any(isinstance(m.cols.get(k), Havoc) or m.cols.get(k) is None for k in ('node', 'type', 'var_name', 'disp_factor', 'time_step')):
            yield ('C06.fuel.modelled', Havoc('mapping after _add_fuel_consumption is not a modelled frame'))
            return
        R, T = ctx['R'], ctx['T']
        blocks = ['power'] + (['heat'] if case['heat'] else []) + (['on'] if case['on'] else []) + (['start'] if case['start'] else [])
        yield ('C06.fuel.rows_added_per_kind', lift(m.n) == R + len(blocks) * T)
        q, k = z3.Int('q'), z3.Int('k')
        col = lambda nm: m.cols[nm]
        # the rows that were there before are kept (disp_factor left as it was -- undefined where the asset had none)
        yield ('C06.fuel.base_rows_kept', z3.ForAll([q], z3.Implies(z3.And(q >= 0, q < R), z3.And(
            lift(m.index.f(q)) == ctx['idx'](q), lift(col('node').f(q)) == ctx['node'](q), lift(col('type').f(q)) == ctx['typ'](q),
            lift(col('var_name').f(q)) == ctx['var'](q), lift(col('time_step').f(q)) == ctx['ts'](q)))))
        want = {'power': lambda t: -1 / ctx['eff'].f(t), 'heat': lambda t: -ctx['conv'].f(t) / ctx['eff'].f(t),
                'on': lambda t: -ctx['cons'].f(t), 'start': lambda t: -ctx['sfuel'].f(t)}
        for bi, kind in enumerate(blocks):
            cnt, sel, rank = ctx['sel_' + kind]
            off = R + bi * T
            dfv = lambda kk: sym.null_parts(col('disp_factor').f(off + kk))
            clauses = lambda kk: z3.And(
                lift(m.index.f(off + kk)) == ctx['idx'](sel(kk)),                 # same variable
                lift(col('time_step').f(off + kk)) == ctx['ts'](sel(kk)),         # same step
                lift(col('node').f(off + kk)) == ctx['fuel'],                     # at the fuel node
                lift(col('var_name').f(off + kk)) == ctx['var'](sel(kk)),
                lift(col('type').f(off + kk)) == (sym.strlit('d') if kind in ('on', 'start') else ctx['typ'](sel(kk))),
                z3.Not(sym.to_bool(dfv(kk)[0])), lift(dfv(kk)[1]) == want[kind](kk))
            yield (f'C06.fuel.{kind}_rows_draw_fuel', z3.ForAll([k], z3.Implies(z3.And(k >= 0, k < T), clauses(k))))


@register
class BoolVariables(Contract):
    """CHPAsset._add_bool_variables: C06 "on/start/shutdown binaries" -- establishes the block layout the other helper contracts assume:
    blocks of T new variables each (T = steps of the asset's window), appended after the existing ones in the order on, start,
    shutdown; bounds [0, 1]; mapping rows (one per step, in step order) of type 'i', flagged boolean, named bool_on / bool_start /
    bool_shutdown; the new columns of A are empty; the existing variables, rows and mapping rows are kept."""
    qualname = 'assets:CHPAsset._add_bool_variables'
    prefix = 'C06.bools'
    properties = ('C06', 'C07')

    def cases(self):
        return [dict(on=True, start=s, shutdown=d) for s in (False, True) for d in (False, True)] + [dict(on=False, start=False, shutdown=False)]

    def harness(self, H, case):
        n0, m0, T = H.int('n_vars0'), H.int('n_rows0'), H.int('T')
        H.assume(z3.And(n0 >= 0, m0 >= 0, T >= 0))
        af = H.fun('A0', z3.IntSort(), z3.IntSort(), z3.RealSort())
        l0, u0 = H.real_arr('l0', n0), H.real_arr('u0', n0)
        idx = H.fun('map_index', z3.IntSort(), z3.IntSort())
        ts = H.fun('map_time_step', z3.IntSort(), z3.IntSort())
        var = H.fun('map_var_name', z3.IntSort(), sym.Str)
        nm = H.str('asset_name')
        # mapping so far: one row per existing variable (dispatch variables for power and heat), as _add_dispatch_variables leaves it
        col = lambda f: Arr(n0, lambda q: f(lift(q)))
        mapping = DF(n0, col(idx), {'time_step': col(ts), 'var_name': col(var), 'asset': Arr(n0, lambda q: nm), 'type': Arr(n0, lambda q: 'd'),
                                    'node': Arr(n0, lambda q: H.str('node_any'))})
        op = Obj('OptimProblem', A=Mat(m0, n0, lambda r, c: af(lift(r), lift(c))), l=l0, u=u0, mapping=mapping)
        rI = H.int_arr('rI', T)
        self_obj = Obj('CHPAsset', name=nm, timegrid=Obj('Timegrid', restricted=Obj('Timegrid', T=T, I=rI)))
        return dict(self_obj=self_obj, op=op, n0=n0, m0=m0, T=T, af=af, l0=l0.copy(), u0=u0.copy(), rI=rI, idx=idx, ts=ts, var=var,
                    args=[op, case['on'], case['start'], case['shutdown']])

    def post(self, H, case, outcome, I, ctx):
        if outcome[0] != 'return':
            yield ('C06.bools.no_raise', False if outcome[0] == 'raise' else Havoc(outcome[1]))
            return
        op, so = outcome[1], ctx['self_obj']
        n0, m0, T = ctx['n0'], ctx['m0'], ctx['T']
        blocks = (['bool_on'] if case['on'] else []) + (['bool_start'] if case['on'] and case['start'] else []) + (['bool_shutdown'] if case['on'] and case['shutdown'] else [])
        A, l, u, m = (op.get(k) for k in ('A', 'l', 'u', 'mapping'))
        if any(isinstance(x, Havoc) for x in (A, l, u, m)):
            yield ('C06.bools.modelled', next(x for x in (A, l, u, m) if isinstance(x, Havoc)))
            return
        nb = len(blocks)
        yield ('C06.bools.one_block_of_T_variables_per_kind', z3.And(lift(l.n) == n0 + nb * T, lift(u.n) == n0 + nb * T, lift(A.nc) == n0 + nb * T,
                                                                    lift(A.nr) == m0, lift(m.n) == n0 + nb * T))
        attrs = {'bool_on': 'on_idx', 'bool_start': 'start_idx', 'bool_shutdown': 'shutdown_idx'}
        yield ('C06.bools.block_offsets_recorded', all(so.has(attrs[b]) and z3.is_true(z3.simplify(lift(so.get(attrs[b])) == n0 + k * T)) for k, b in enumerate(blocks)))
        j, r, k = z3.Int('j'), z3.Int('r'), z3.Int('k')
        yield ('C06.bools.existing_variables_and_rows_kept', z3.ForAll([j, r], z3.Implies(z3.And(j >= 0, j < n0, r >= 0, r < m0), z3.And(
            lift(l.f(j)) == ctx['l0'].f(j), lift(u.f(j)) == ctx['u0'].f(j), lift(A.f(r, j)) == ctx['af'](r, j),
            lift(m.index.f(j)) == ctx['idx'](j), lift(m.cols['time_step'].f(j)) == ctx['ts'](j), lift(m.cols['var_name'].f(j)) == ctx['var'](j)))))
        if nb:
            yield ('C06.bools.binaries_between_zero_and_one', z3.ForAll([j], z3.Implies(z3.And(j >= n0, j < n0 + nb * T), z3.And(lift(l.f(j)) == 0, lift(u.f(j)) == 1))))
            yield ('C06.bools.new_columns_empty', z3.ForAll([j, r], z3.Implies(z3.And(j >= n0, j < n0 + nb * T, r >= 0, r < m0), lift(A.f(r, j)) == 0)))
            bcol = m.cols.get('bool')
            yield ('C06.bools.flag_column', isinstance(bcol, Arr))
            if isinstance(bcol, Arr):
                yield ('C06.bools.existing_rows_not_boolean', z3.ForAll([j], z3.Implies(z3.And(j >= 0, j < n0), z3.Not(sym.to_bool(bcol.f(j))))))
                for bi, b in enumerate(blocks):
                    off = n0 + bi * T
                    yield (f'C06.bools.{b}.one_row_per_step_in_step_order', z3.ForAll([k], z3.Implies(z3.And(k >= 0, k < T), z3.And(
                        lift(m.cols['time_step'].f(off + k)) == ctx['rI'].f(k), lift(m.cols['var_name'].f(off + k)) == sym.strlit(b),
                        lift(m.cols['type'].f(off + k)) == sym.strlit('i'), sym.to_bool(bcol.f(off + k)),
                        lift(m.cols['asset'].f(off + k)) == lift(so.get('name'))))))


@register
class DispatchVariables(Contract):
    """CHPAsset._add_dispatch_variables: every dispatch variable of the underlying contract becomes a power variable (same column) and a heat
    variable (column n + j) whose rows carry the same coefficients times the conversion factor (C06: "virtual output = power + factor x
    heat" enters every existing row); bounds: power in [0, max_cap], heat in [0, share x max_cap] resp. [0, max_cap / factor]; the mapping
    rows are duplicated for the power node and the heat node (step order kept)."""
    qualname = 'assets:CHPAsset._add_dispatch_variables'
    prefix = 'C06.dispvars'
    properties = ('C06', 'C07')

    def cases(self):
        return [dict(share=True), dict(share=False)]

    def harness(self, H, case):
        n, m0 = H.int('n_disp'), H.int('n_rows0')
        H.assume(z3.And(n >= 0, m0 >= 0))
        af = H.fun('A0', z3.IntSort(), z3.IntSort(), z3.RealSort())
        idx = H.fun('map_index', z3.IntSort(), z3.IntSort())
        ts = H.fun('map_time_step', z3.IntSort(), z3.IntSort())
        names = [H.str('node_power'), H.str('node_heat'), H.str('node_fuel')]
        nm = H.str('asset_name')
        col = lambda f: Arr(n, lambda q: f(lift(q)))
        mapping = DF(n, col(idx), {'time_step': col(ts), 'var_name': Arr(n, lambda q: 'disp'), 'asset': Arr(n, lambda q: nm), 'type': Arr(n, lambda q: 'd'),
                                   'node': Arr(n, lambda q: names[0])})
        op = Obj('OptimProblem', A=Mat(m0, n, lambda r, c: af(lift(r), lift(c))), l=H.real_arr('l0', n), u=H.real_arr('u0', n), mapping=mapping)
        conv, cap = H.real_arr('conversion_factor_power_heat', n), H.real_arr('max_cap', n)
        q = z3.Int('h!q')
        H.assume(z3.ForAll([q], z3.Implies(z3.And(q >= 0, q < n), conv.f(q) != 0), patterns=[conv.f(q)]))
        share = H.real_arr('max_share_heat', n) if case['share'] else None
        self_obj = Obj('CHPAsset', name=nm, nodes=[Obj('Node', name=x) for x in names])
        return dict(self_obj=self_obj, op=op, n=n, m0=m0, af=af, idx=idx, ts=ts, names=names, conv=conv, cap=cap, share=share, args=[op, conv, cap, share])

    def post(self, H, case, outcome, I, ctx):
        if outcome[0] != 'return':
            yield ('C06.dispvars.no_raise', False if outcome[0] == 'raise' else Havoc(outcome[1]))
            return
        op, so = outcome[1], ctx['self_obj']
        n, m0 = ctx['n'], ctx['m0']
        A, l, u, m = (op.get(k) for k in ('A', 'l', 'u', 'mapping'))
        if any(isinstance(x, Havoc) for x in (A, l, u, m)):
            yield ('C06.dispvars.modelled', next(x for x in (A, l, u, m) if isinstance(x, Havoc)))
            return
        j, r = z3.Int('j'), z3.Int('r')
        yield ('C06.dispvars.power_and_heat_variable_per_dispatch_variable', z3.And(lift(A.nc) == 2 * n, lift(A.nr) == m0, lift(l.n) == 2 * n, lift(u.n) == 2 * n,
                                                                                   lift(m.n) == 2 * n, so.has('heat_idx') and lift(so.get('heat_idx')) == n))
        yield ('C06.dispvars.rows_act_on_power_plus_factor_times_heat', z3.ForAll([j, r], z3.Implies(z3.And(j >= 0, j < n, r >= 0, r < m0), z3.And(
            lift(A.f(r, j)) == ctx['af'](r, j), lift(A.f(r, n + j)) == ctx['conv'].f(j) * ctx['af'](r, j)))))
        uh = (lambda jj: ctx['share'].f(jj) * ctx['cap'].f(jj)) if case['share'] else (lambda jj: ctx['cap'].f(jj) / ctx['conv'].f(jj))
        yield ('C06.dispvars.bounds', z3.ForAll([j], z3.Implies(z3.And(j >= 0, j < n), z3.And(
            lift(l.f(j)) == 0, lift(l.f(n + j)) == 0, lift(u.f(j)) == ctx['cap'].f(j), lift(u.f(n + j)) == uh(j)))))
        yield ('C06.dispvars.mapping_rows_for_power_and_heat_node', z3.ForAll([j], z3.Implies(z3.And(j >= 0, j < n), z3.And(
            lift(m.cols['node'].f(j)) == ctx['names'][0], lift(m.cols['node'].f(n + j)) == ctx['names'][1],
            lift(m.cols['time_step'].f(j)) == ctx['ts'](j), lift(m.cols['time_step'].f(n + j)) == ctx['ts'](j),
            lift(m.index.f(j)) == ctx['idx'](j), lift(m.index.f(n + j)) == ctx['idx'](j)))))


@register
class CapacityRows(Contract):
    """CHPAsset._add_constraints_for_min_and_max_cap without start / shutdown ramp profiles (start_ramp_time = shutdown_ramp_time = 0): C06 "when
    off its output is zero, when on its virtual output (power + factor x heat) is between minimum and maximum capacity":
        L_i:  power_i + factor_i x heat_i - min_cap_i x on_i >= 0          U_i:  power_i + factor_i x heat_i - max_cap_i x on_i <= 0
    (without on variables:  >= 0  and  <= max_cap_i), one pair per step of the window, appended after the existing rows.  Precondition: the
    window's steps are consecutive grid steps (same-frequency restricted grid), the i-th dispatch row of the mapping belongs to the i-th step.
    Start / shutdown ramp profiles are covered by the bounded scenarios only."""
    qualname = 'assets:CHPAsset._add_constraints_for_min_and_max_cap'
    prefix = 'C06.capacity'
    properties = ('C06',)

    def cases(self):
        return [dict(heat=h, on=o, tar=t) for h in (True, False) for o in (True, False) for t in (0, 2)]

    def harness(self, H, case):
        ctx = chp_harness(H, with_heat=case['heat'])
        n, T, N = ctx['n'], ctx['T'], ctx['N']
        H.assume(n == T)                                  # one dispatch variable per step of the window
        rI0 = H.int('first_step')
        so = ctx['self_obj']
        so.get('timegrid').get('restricted').set('I', Arr(T, lambda k: rI0 + lift(k)))
        # mapping: row i = dispatch variable i at step first_step + i (the rows after the first n are of no concern here)
        R = H.int('n_maprows')
        H.assume(R >= n)
        mapping = DF(R, Arr(R, lambda q: lift(q)), {'time_step': Arr(R, lambda q: rI0 + lift(q)), 'var_name': Arr(R, lambda q: 'disp')})
        ctx['op'].set('mapping', mapping)
        if not case['heat']:
            so.set('idx_nodes', {'power': 0, 'heat': None, 'fuel': None})
        mn, mx, conv = H.real_arr('min_cap', n), H.real_arr('max_cap', n), H.real_arr('conversion_factor_power_heat', n)
        ctx.update(mn=mn, mx=mx, conv=conv, args=[ctx['op'], mn, mx, case['tar'], conv, case['on'], 0, None, None, 0, None, None, None, None, None, None])
        return ctx

    def post(self, H, case, outcome, I, ctx):
        if outcome[0] != 'return':
            yield ('C06.capacity.no_raise', False if outcome[0] == 'raise' else Havoc(outcome[1]))
            return
        op = outcome[1]
        A, b, ct = (op.get(k) for k in ('A', 'b', 'cType'))
        if any(isinstance(x, Havoc) for x in (A, b, ct)) or not isinstance(A, Mat):
            yield ('C06.capacity.modelled', next((x for x in (A, b, ct) if isinstance(x, Havoc)), Havoc('rows not a matrix')))
            return
        N, m0, n, ht, on = (ctx[k] for k in ('N', 'm0', 'n', 'ht', 'on'))
        i, c = z3.Int('i'), z3.Int('c')
        yield ('C06.capacity.one_lower_and_one_upper_row_per_step', z3.And(lift(A.nr) == m0 + 2 * n, lift(A.nc) == N, lift(b.n) == m0 + 2 * n, lift(S.str_len(ct)) == m0 + 2 * n))
        yield ('C06.capacity.base_rows_kept', base_kept(ctx, A, b, ct))
        virt = lambda cc, ii: ind(cc, ii) + (ctx['conv'].f(ii) * ind(cc, ht + ii) if case['heat'] else 0)
        lo = lambda cc, ii: virt(cc, ii) - (ctx['mn'].f(ii) * ind(cc, on + ii) if case['on'] else 0)
        up = lambda cc, ii: virt(cc, ii) - (ctx['mx'].f(ii) * ind(cc, on + ii) if case['on'] else 0)
        rng_ = z3.And(i >= 0, i < n, c >= 0, c < N)
        yield ('C06.capacity.off_means_zero_on_means_at_least_min_capacity', z3.ForAll([i, c], z3.Implies(rng_, z3.And(
            lift(A.f(m0 + i, c)) == lo(c, i), lift(b.f(m0 + i)) == 0, lift(S.char_at(ct, m0 + i)) == sym.strlit('L')))))
        yield ('C06.capacity.at_most_max_capacity_when_on_zero_when_off', z3.ForAll([i, c], z3.Implies(rng_, z3.And(
            lift(A.f(m0 + n + i, c)) == up(c, i), lift(b.f(m0 + n + i)) == (0 if case['on'] else ctx['mx'].f(i)),
            lift(S.char_at(ct, m0 + n + i)) == sym.strlit('U')))))


@register
class RampRows(Contract):
    """CHPAsset._add_constraints_for_ramp without start / shutdown ramp profiles: C06 "changes by at most the ramp between consecutive steps including
    the first step relative to the last dispatch".  With v_t = power_t + factor_t x heat_t (virtual output of step t), for t = 1..T-1 one pair of rows
        L:  v_t - v_{t-1} + ramp x on_{t-1} >= 0        U:  v_t - v_{t-1} - ramp x on_t <= 0         (without on variables: >= -ramp, <= ramp)
    (a plant that is off may drop to / start from zero only through the capacity rows), then the pair for the first step relative to last_dispatch
        L:  v_0 >= last_dispatch (not running before)  /  last_dispatch - ramp (running before)
        U:  v_0 - ramp x on_0 <= last_dispatch         (without on variables: v_0 <= last_dispatch + ramp)."""
    qualname = 'assets:CHPAsset._add_constraints_for_ramp'
    prefix = 'C06.ramp'
    properties = ('C06',)

    def cases(self):
        return [dict(heat=h, on=o, tar=t) for h in (True, False) for o in (True, False) for t in (0, 2)]

    def harness(self, H, case):
        ctx = chp_harness(H, with_heat=case['heat'])
        n, T = ctx['n'], ctx['T']
        H.assume(n == T)
        so = ctx['self_obj']
        if not case['heat']:
            so.set('idx_nodes', {'power': 0, 'heat': None, 'fuel': None})
        ramp, last = H.real('ramp'), H.real('last_dispatch')
        conv, mx = H.real_arr('conversion_factor_power_heat', n), H.real_arr('max_cap', n)
        ctx.update(ramp=ramp, last=last, conv=conv, args=[ctx['op'], ramp, conv, case['tar'], case['on'], mx, 0, 0, last])
        return ctx

    def post(self, H, case, outcome, I, ctx):
        if outcome[0] != 'return':
            yield ('C06.ramp.no_raise', False if outcome[0] == 'raise' else Havoc(outcome[1]))
            return
        op = outcome[1]
        A, b, ct = (op.get(k) for k in ('A', 'b', 'cType'))
        if any(isinstance(x, Havoc) for x in (A, b, ct)):
            yield ('C06.ramp.modelled', next(x for x in (A, b, ct) if isinstance(x, Havoc)))
            return
        N, m0, T, ht, on = (ctx[k] for k in ('N', 'm0', 'T', 'ht', 'on'))
        ramp, last, conv = ctx['ramp'], ctx['last'], ctx['conv']
        # rows appended inside the loop are row FAMILIES over the loop variable (two per iteration: lower, upper), followed by the two explicit rows of
        # the first step; A, b and cType are appended in lockstep, so family k of A pairs with family k of b and cType (the order of the rows inside
        # the matrix is modelled up to a permutation applied to all three alike -- the LP does not depend on it)
        fa, fb, fc = family_segments(A), family_segments(b), family_segments(ct)
        ta, tb, tc = explicit_tail(A, 'mat'), explicit_tail(b, 'arr'), explicit_tail(ct, 'str')
        ok = all(len(x) == 2 for x in (fa, fb, fc, ta, tb, tc)) and all(len(f.vars) == 1 for f in fa)
        yield ('C06.ramp.structure_two_rows_per_later_step_plus_two_for_the_first', ok)
        if not ok:
            return
        yield ('C06.ramp.base_rows_kept', base_kept(ctx, A, b, ct))
        c = z3.Int('c')
        cdom = z3.And(c >= 0, c < N)
        v = lambda cc, tt: ind(cc, tt) + (conv.f(tt) * ind(cc, ht + tt) if case['heat'] else 0)        # coefficient of column cc in v_t
        for k, (nm, extra, rhs, let) in enumerate((
                ('decrease_within_ramp_between_consecutive_steps', (lambda cc, tt: ramp * ind(cc, on + tt - 1) if case['on'] else 0), (0 if case['on'] else -ramp), 'L'),
                ('increase_within_ramp_between_consecutive_steps', (lambda cc, tt: -ramp * ind(cc, on + tt) if case['on'] else 0), (0 if case['on'] else ramp), 'U'))):
            t = fa[k].vars[0]
            dom = z3.And(t >= 1, t < T)
            yield (f'C06.ramp.{nm}', z3.And(
                z3.ForAll([t], z3.And(fa[k].dom == dom, fb[k].dom == dom, fc[k].dom == dom)),
                z3.ForAll([t, c], z3.Implies(z3.And(dom, cdom), z3.And(
                    lift(fa[k].item.nr) == 1, lift(fa[k].item.f(0, c)) == v(c, t) - v(c, t - 1) + extra(c, t),
                    lift(z3.substitute(lift(fb[k].item.f(0)), (fb[k].vars[0], t))) == rhs,
                    lift(S.char_at(fc[k].item, 0)) == sym.strlit(let))))))
        yield ('C06.ramp.first_step_not_below_last_dispatch_minus_ramp', z3.And(
            z3.ForAll([c], z3.Implies(cdom, lift(ta[0].f(0, c)) == v(c, 0))), lift(tb[0].f(0)) == (last if case['tar'] == 0 else last - ramp),
            lift(S.char_at(tc[0], 0)) == sym.strlit('L')))
        yield ('C06.ramp.first_step_not_above_last_dispatch_plus_ramp', z3.And(
            z3.ForAll([c], z3.Implies(cdom, lift(ta[1].f(0, c)) == v(c, 0) - (ramp * ind(c, on) if case['on'] else 0))),
            lift(tb[1].f(0)) == (last if case['on'] else last + ramp), lift(S.char_at(tc[1], 0)) == sym.strlit('U')))
