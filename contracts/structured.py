"""Contract for eaopack.portfolio: StructuredAsset.setup_optim_problem  (C16 structured assets, C10 wrapped objects unchanged,
C18 nodal record, C01 external nodes, C17 costs_only).

A structured asset wraps a portfolio and shows it to the outer portfolio as one asset: the wrapped portfolio's problem without nodal rows
for the external nodes, all variables assigned to the structured asset, variables at internal nodes marked internal.  Ensures:

  C16.struct.inner_problem_on_clipped_windows    the wrapped portfolio is set up with every wrapped asset's window clipped to the structured
                                                 asset's (later start, earlier end; a missing bound on either side leaves the other), on the
                                                 given grid, with the nodal rows of the external nodes skipped
  C10.struct.wrapped_assets_keep_their_window    afterwards -- also when the inner set-up raises -- every wrapped asset has its own start / end
  C17.struct.costs_only_is_the_inner_cost_vector
  C16.struct.vectors_untouched                   c, l, u, A, b, cType of the inner problem are returned as they are
  C16.struct.mapping.*                           asset = the structured asset, internal_asset = wrapped asset; a row at an external node keeps
                                                 node and type; a row at any other node gets node <name>_internal_<node> and type 'i';
                                                 var_name gets the wrapped asset's name appended
  C18.struct.record_names_internal_nodes         nodal record (t, n) -> (t, n) for external n, (t, <name>_internal_<n>) otherwise

Strings: names are values of an uninterpreted sort; concatenation is an uninterpreted function (only equality of the results is used).
Precondition for the loop over the distinct nodes: the internal form <name>_internal_<x> of a wrapped node is not itself the name of a
wrapped node (otherwise the loop, which compares against the partly renamed column, renames a row twice) -- stated, not proved."""
import z3

from pyvc import sym, spec as S
from pyvc.sym import Arr, Obj, DF, Havoc, TS, lift, PyRaise
from .common import Contract, register, mk_root_grid, mk_node


def cat(a, b):
    return sym.str_concat(lift(a), lift(b))


def intern(name, n):
    return cat(cat(name, sym.strlit('_internal_')), n)


class _NodeLoop:
    label = 'C16.struct.loop'
    names = ('op.mapping',)

    def __init__(self, ctx):
        self.c = ctx

    def fresh(self, I, k, env, tag):
        c = self.c
        cur = env['op'].get('mapping')
        nd = z3.Function(sym.fresh_name('node_' + tag), z3.IntSort(), sym.Str)
        ty = z3.Function(sym.fresh_name('type_' + tag), z3.IntSort(), sym.Str)
        new = DF(cur.n, cur.index, dict(cur.cols))
        new.cols['node'] = Arr(c['R'], lambda q: nd(lift(q)))
        new.cols['type'] = Arr(c['R'], lambda q: ty(lift(q)))
        return {'op.mapping': new}

    def inv(self, I, k, st, env):
        c = self.c
        m = st['op.mapping']
        r = z3.Int('inv!r')
        u = env['internal_nodes']
        # position of a row's node in the list of distinct nodes (model of unique(): u[upos(r)] = node0(r), entries pairwise different)
        fp = u.upos
        done = lambda rr: z3.And(fp(rr) < k, z3.Not(c['ext'](c['node0'](rr))))
        yield ('rows', lift(m.n) == c['R'])
        yield ('node_and_type', z3.ForAll([r], z3.Implies(z3.And(r >= 0, r < c['R']), z3.And(
            lift(m.cols['node'].f(r)) == z3.If(done(r), intern(c['name'], c['node0'](r)), c['node0'](r)),
            lift(m.cols['type'].f(r)) == z3.If(done(r), sym.strlit('i'), c['type0'](r))))))
        for col, want in c['fixed_cols'].items():
            yield ('kept_' + col, z3.ForAll([r], z3.Implies(z3.And(r >= 0, r < c['R']), lift(m.cols[col].f(r)) == want(r))))


@register
class StructuredSetup(Contract):
    qualname = 'portfolio:StructuredAsset.setup_optim_problem'
    prefix = 'C16.struct'
    properties = ('C16', 'C10', 'C18', 'C01', 'C17')
    inline = ('assets:Asset.node_names',)

    def cases(self):
        return [dict(window='both', costs_only=False, var_name=True, record=True, fail=False),
                dict(window='none', costs_only=False, var_name=False, record=False, fail=False),
                dict(window='start', costs_only=True, var_name=True, record=True, fail=False),
                dict(window='both', costs_only=False, var_name=True, record=True, fail=True)]

    def harness(self, H, case):
        g = mk_root_grid(H, tz=None)
        name = H.str('struct_name')
        ext_node = mk_node(H, 'ext_node')
        ts = lambda nm: TS(H.int(nm), None)
        s_start = ts('s_start') if case['window'] in ('both', 'start') else None
        s_end = ts('s_end') if case['window'] == 'both' else None
        wrapped = []
        for k, (has_s, has_e) in enumerate([(True, True), (False, True), (True, False)]):
            wrapped.append(Obj('Asset', name=H.str(f'w{k}_name'), start=ts(f'w{k}_start') if has_s else None, end=ts(f'w{k}_end') if has_e else None,
                               timegrid=Obj('Timegrid', __token__='old grid')))
        for a in wrapped:
            for b in wrapped:
                if a is not b:
                    H.assume(a.get('name') != b.get('name'))
        own = [(a.get('start'), a.get('end')) for a in wrapped]
        pf = Obj('Portfolio', assets=wrapped)
        self_obj = Obj('StructuredAsset', name=name, nodes=[ext_node], start=s_start, end=s_end, portfolio=pf, timegrid=Obj('Timegrid', __token__='old grid'),
                       wacc=H.real('wacc'), freq=None, profile=None)
        R = H.int('m_R')
        H.assume(R >= 0)
        node0, type0, asset0, var0 = (H.fun(nm, z3.IntSort(), sym.Str) for nm in ('m_node', 'm_type', 'm_asset', 'm_var'))
        ia, idx = (H.fun(nm, z3.IntSort(), z3.IntSort()) for nm in ('m_ia', 'm_idx'))
        extname = ext_node.get('name')
        ext = lambda x: x == extname
        # the internal form of a wrapped node's name is not itself a wrapped node's name
        r, r2 = z3.Ints('pre!r pre!r2')
        H.assume(z3.ForAll([r, r2], z3.Implies(z3.And(r >= 0, r < R, r2 >= 0, r2 < R), intern(name, node0(r)) != node0(r2))))
        H.assume(z3.ForAll([r], z3.Implies(z3.And(r >= 0, r < R), intern(name, node0(r)) != extname)))
        cols = {'index_assets': Arr(R, lambda q: ia(lift(q))), 'asset': Arr(R, lambda q: asset0(lift(q))), 'node': Arr(R, lambda q: node0(lift(q))),
                'type': Arr(R, lambda q: type0(lift(q)))}
        if case['var_name']:
            cols['var_name'] = Arr(R, lambda q: var0(lift(q)))
        m = DF(R, Arr(R, lambda q: idx(lift(q))), cols)
        N = H.int('rec_N')
        H.assume(N >= 0)
        rt = H.fun('rec_t', z3.IntSort(), z3.IntSort())
        rn = H.fun('rec_n', z3.IntSort(), sym.Str)
        rec = Arr(N, lambda q: (rt(lift(q)), rn(lift(q))), kind='list') if case['record'] else None
        vec = {k: Obj('ndarray', __token__='inner ' + k) for k in ('c', 'l', 'u', 'A', 'b', 'cType')}
        op = Obj('OptimProblem', mapping=m, map_nodal_restr=rec, **vec)
        prices = Obj('dict', __token__='prices')
        fp = H.fun('first_pos', z3.IntSort(), z3.IntSort())
        cols_after = (set(cols) - {'index_assets'}) | {'internal_asset'}
        ctx = dict(self_obj=self_obj, g=g, wrapped=wrapped, own=own, pf=pf, op=op, vec=vec, prices=prices, name=name, extname=extname, ext=ext,
                   R=R, node0=node0, type0=type0, asset0=asset0, var0=var0, idx=idx, N=N, rt=rt, rn=rn, fp=fp, s_start=s_start, s_end=s_end,
                   calls=[], args=[prices, g, case['costs_only']], H=H, cols0=set(cols))
        return ctx

    def loops(self, case, ctx):
        name = ctx['name']
        fixed = {'asset': lambda r: name, 'internal_asset': lambda r: ctx['asset0'](r)}
        if case['var_name']:
            fixed['var_name'] = lambda r: cat(cat(ctx['var0'](r), sym.strlit('__')), ctx['asset0'](r))
        c = dict(ctx)
        c['fixed_cols'] = fixed
        c['cols_after_rename'] = None
        spec = _NodeLoop(c)
        self._spec = spec
        return {('portfolio:StructuredAsset.setup_optim_problem', 2): spec}

    def callees(self, case, ctx=None):
        def set_tg(I, self_obj, args, kwargs):
            self_obj.set('timegrid', args[0])
            return None

        def inner(I, self_obj, args, kwargs):
            ctx['calls'].append(dict(pf=self_obj, prices=args[0], grid=args[1], skip=kwargs.get('skip_nodes'),
                                     windows=[(a.get('start'), a.get('end')) for a in ctx['wrapped']], grids=[a.get('timegrid') for a in ctx['wrapped']]))
            if case['fail']:
                raise PyRaise('ValueError', 'inner set-up fails')
            return ctx['op']
        return {'assets:Asset.set_timegrid': set_tg, 'portfolio:Portfolio.setup_optim_problem': inner}

    def post(self, H, case, outcome, I, ctx):
        def same(x, y):
            if x is None or y is None:
                return x is y
            return isinstance(x, TS) and isinstance(y, TS) and (x is y or lift(x.t) == lift(y.t))
        parts = [same(a.get(k), o[j]) for a, o in zip(ctx['wrapped'], ctx['own']) for j, k in enumerate(('start', 'end'))]
        own_kept = z3.And(*[z3.BoolVal(x) if isinstance(x, bool) else x for x in parts])
        if case['fail']:
            yield ('C16.struct.failure_of_the_inner_set_up_is_passed_on', outcome[0] == 'raise' and outcome[1] == 'ValueError')
            yield ('C10.struct.wrapped_assets_keep_their_window', own_kept)
            return
        if outcome[0] != 'return':
            yield ('C16.struct.no_raise', False if outcome[0] == 'raise' else Havoc(outcome[1]))
            return
        res = outcome[1]
        yield ('C10.struct.wrapped_assets_keep_their_window', own_kept)
        calls = ctx['calls']
        yield ('C16.struct.one_inner_set_up', len(calls) == 1)
        if len(calls) != 1:
            return
        call = calls[0]
        g = ctx['g']
        skip = call['skip']
        yield ('C16.struct.inner_problem_on_the_given_grid_without_nodal_rows_of_external_nodes',
               call['pf'] is ctx['pf'] and call['prices'] is ctx['prices'] and call['grid'] is g and isinstance(skip, list) and len(skip) == 1 and skip[0] is ctx['extname']
               and all(x is g for x in call['grids']))
        clip = []
        for (ws, we), (os_, oe) in zip(call['windows'], ctx['own']):
            ss, se = ctx['s_start'], ctx['s_end']
            if ss is None or os_ is None:
                clip.append(ws is os_)
            else:
                clip.append(isinstance(ws, TS) and lift(ws.t) == z3.If(os_.t >= ss.t, os_.t, ss.t))
            if se is None or oe is None:
                clip.append(we is oe)
            else:
                clip.append(isinstance(we, TS) and lift(we.t) == z3.If(oe.t <= se.t, oe.t, se.t))
        yield ('C16.struct.inner_problem_on_clipped_windows', z3.And(*[z3.BoolVal(x) if isinstance(x, bool) else x for x in clip]))
        if case['costs_only']:
            yield ('C17.struct.costs_only_is_the_inner_cost_vector', res is ctx['vec']['c'])
            return
        op = ctx['op']
        yield ('C16.struct.returns_the_inner_problem', res is op)
        yield ('C16.struct.vectors_untouched', all(op.get(k) is v for k, v in ctx['vec'].items()))
        m = op.get('mapping')
        want_cols = (ctx['cols0'] - {'index_assets'}) | {'internal_asset'}
        got_cols = set(m.cols) if isinstance(m, DF) else set()
        extra = got_cols - want_cols
        # the renamed bookkeeping column has a symbolic name (it contains the asset's name): exactly one further column
        yield ('C16.struct.mapping.columns', isinstance(m, DF) and want_cols <= got_cols and len(extra) == 1)
        if not (isinstance(m, DF) and want_cols <= got_cols):
            return
        R, r = ctx['R'], z3.Int('r')
        rr = z3.And(r >= 0, r < R)
        name, ext, node0 = ctx['name'], ctx['ext'], ctx['node0']
        yield ('C16.struct.mapping.rows_and_variables_kept', z3.And(lift(m.n) == R, z3.ForAll([r], z3.Implies(rr, lift(m.index.f(r)) == ctx['idx'](r)))))
        yield ('C16.struct.mapping.all_variables_belong_to_the_structured_asset', z3.ForAll([r], z3.Implies(rr, z3.And(
            lift(m.cols['asset'].f(r)) == name, lift(m.cols['internal_asset'].f(r)) == ctx['asset0'](r)))))
        yield ('C16.struct.mapping.external_rows_keep_node_and_type', z3.ForAll([r], z3.Implies(z3.And(rr, ext(node0(r))), z3.And(
            lift(m.cols['node'].f(r)) == node0(r), lift(m.cols['type'].f(r)) == ctx['type0'](r)))))
        yield ('C16.struct.mapping.internal_rows_are_renamed_and_marked_internal', z3.ForAll([r], z3.Implies(z3.And(rr, z3.Not(ext(node0(r)))), z3.And(
            lift(m.cols['node'].f(r)) == intern(name, node0(r)), lift(m.cols['type'].f(r)) == sym.strlit('i')))))
        if case['var_name']:
            yield ('C16.struct.mapping.var_name_records_the_wrapped_asset', z3.ForAll([r], z3.Implies(rr, lift(m.cols['var_name'].f(r)) ==
                                                                                                 cat(cat(ctx['var0'](r), sym.strlit('__')), ctx['asset0'](r)))))
        rec = op.get('map_nodal_restr')
        if not case['record']:
            yield ('C18.struct.no_record_without_record', rec is None)
        else:
            okr = isinstance(rec, Arr)
            yield ('C18.struct.record_is_a_list', okr)
            if okr:
                got = rec.f(r)
                yield ('C18.struct.record_names_internal_nodes', z3.And(lift(rec.n) == ctx['N'], z3.ForAll([r], z3.Implies(z3.And(r >= 0, r < ctx['N']), z3.And(
                    lift(got[0]) == ctx['rt'](r), lift(got[1]) == z3.If(ext(ctx['rn'](r)), ctx['rn'](r), intern(name, ctx['rn'](r))))))))
