"""Contracts for eaopack.assets: convert_time_unit and Asset.convert_to_timegrid_freq  (C12 "durations (minimum runtime / downtime, maximum
holding time) re-expressed for a different main time unit"; callees of the CHP driver and of LinkedAsset).

From the statement: a duration of `value` units of length L_old is the same elapsed time as value x L_old / L_new units of length L_new; the
number of grid steps is that quotient for the grid's frequency -- rounded UP to a whole number of steps when asked to (a duration that is not
a whole number of steps cannot be shorter than given), never changed when it is whole already.  Frequencies are tick frequencies with a fixed
length (A4; anchored frequencies such as 'MS' have none)."""
import z3

from pyvc import sym
from pyvc.sym import Obj, Havoc, lift
from pyvc import libmodel
from .common import Contract, register


FREQS = ['h', '15min', 'd', '30min', '4h', 'min']


@register
class ConvertTimeUnit(Contract):
    qualname = 'assets:convert_time_unit'
    prefix = 'C12.duration'
    properties = ('C12',)

    def harness(self, H, case):
        v = H.real('value')
        return dict(args=[v, H.str('old_freq'), H.str('new_freq')], v=v, old=H.str('old_freq'), new=H.str('new_freq'))

    def post(self, H, case, outcome, I, ctx):
        if outcome[0] != 'return':
            yield ('C12.duration.no_raise', False if outcome[0] == 'raise' else Havoc(outcome[1]))
            return
        if I is None:
            yield ('C12.duration.same_elapsed_time_in_the_new_unit', abs(float(outcome[1]) * ctx['ln'] - ctx['v'] * ctx['lo']) <= 1e-9 * max(1., abs(ctx['v'] * ctx['lo'])))
            return
        lo, ln = sym.to_real(libmodel.freq_ns(I, ctx['old'])), sym.to_real(libmodel.freq_ns(I, ctx['new']))
        yield ('C12.duration.same_elapsed_time_in_the_new_unit', lift(outcome[1]) * ln == ctx['v'] * lo)

    def schema(self, case):
        return [('value', 'real', None)]

    def sample(self, case, rng):
        from pyvc import native as N
        return N.Params(value=rng.choice([0., .5, 1., 1.5, 2., 3., 7., 24.]), old=rng.choice(FREQS), new=rng.choice(FREQS))

    def native(self, case, P):
        import pandas as pd
        import eaopack as eao
        v = float(P['value'])
        ctx = dict(v=v, lo=pd.Timedelta(pd.tseries.frequencies.to_offset(P['old'])).value, ln=pd.Timedelta(pd.tseries.frequencies.to_offset(P['new'])).value)
        return (lambda: eao.assets.convert_time_unit(v, P['old'], P['new'])), ctx


@register
class ConvertToGridFreq(Contract):
    qualname = 'assets:Asset.convert_to_timegrid_freq'
    prefix = 'C12.steps'
    properties = ('C12', 'C06')

    def cases(self):
        return [dict(round=r, own=o, old=f) for r in (True, False) for o in (True, False) for f in (None, 'given')]

    def harness(self, H, case):
        v = H.real('value')
        H.assume(v >= 0)
        tg = Obj('Timegrid', freq=H.str('grid_freq'), main_time_unit=H.str('grid_unit'))
        other = Obj('Timegrid', freq=H.str('other_freq'), main_time_unit=H.str('other_unit'))
        self_obj = Obj('Asset', name=H.str('asset_name'), timegrid=tg if case['own'] else other)
        kwargs = dict(round=case['round'])
        if not case['own']:
            kwargs['timegrid'] = tg
        if case['old']:
            kwargs['old_freq'] = H.str('duration_unit')
        unit = H.str('duration_unit') if case['old'] else tg.get('main_time_unit')
        q = H.real('steps_exact')
        return dict(self_obj=self_obj, args=[v, 'min_runtime'], kwargs=kwargs, v=v, tg=tg, unit=unit, q=q)

    def callees(self, case, ctx=None):
        def conv(I, self_obj, args, kwargs):
            a = list(args)
            val = a[0] if a else kwargs.get('value')
            old = kwargs.get('old_freq', a[1] if len(a) > 1 else None)
            new = kwargs.get('new_freq', a[2] if len(a) > 2 else None)
            I.require('callee-pre:convert_time_unit.value_unit_and_grid_frequency', z3.And(lift(val) == ctx['v'], lift(old) == lift(ctx['unit']),
                                                                                           lift(new) == lift(ctx['tg'].get('freq'))), kind='callee-pre')
            # callee contract (ConvertTimeUnit): result x L_new == value x L_old
            lo, ln = sym.to_real(libmodel.freq_ns(I, old)), sym.to_real(libmodel.freq_ns(I, new))
            I.assume(ctx['q'] * ln == ctx['v'] * lo)
            return ctx['q']
        return {'assets:convert_time_unit': conv}

    def post(self, H, case, outcome, I, ctx):
        if outcome[0] != 'return':
            yield ('C12.steps.no_raise', False if outcome[0] == 'raise' else Havoc(outcome[1]))
            return
        r, q = outcome[1], ctx['q']
        if I is None:
            if not case['round']:
                yield ('C12.steps.unrounded_is_the_exact_quotient', abs(float(r) - q) <= 1e-9 * max(1., abs(q)))
            else:
                yield ('C12.steps.whole_number_of_steps_rounded_up', isinstance(r, int) and r >= q - 1e-9 and r < q + 1 - 1e-9 or (isinstance(r, int) and abs(r - q) < 1e-9))
            return
        if isinstance(r, Havoc):
            yield ('C12.steps.modelled', r)
            return
        r = lift(r)
        if not case['round']:
            yield ('C12.steps.unrounded_is_the_exact_quotient', sym.to_real(r) == q)
            return
        rr = sym.to_real(r)
        # a whole number of steps, the smallest one not below the exact quotient; exact quotients are kept
        yield ('C12.steps.whole_number_of_steps_rounded_up', z3.And(z3.IsInt(rr) if not z3.is_int(r) else z3.BoolVal(True), rr >= q, rr < q + 1))


def _schema2(self, case):
    return [('value', 'real', None)]


def _sample2(self, case, rng):
    from pyvc import native as N
    return N.Params(value=rng.choice([0., .5, 1., 1.5, 2., 3., 7., 24.]), grid_freq=rng.choice(FREQS), grid_unit=rng.choice(['h', 'd', 'min']), duration_unit=rng.choice(FREQS),
                    other_freq=rng.choice(FREQS))


def _native2(self, case, P):
    import pandas as pd
    import eaopack as eao
    to = pd.tseries.frequencies.to_offset
    start = pd.Timestamp('2021-01-01')
    tg = eao.assets.Timegrid(start, start + pd.Timedelta(2, 'd'), freq=P['grid_freq'], main_time_unit=P['grid_unit'])
    other = eao.assets.Timegrid(start, start + pd.Timedelta(2, 'd'), freq=P['other_freq'], main_time_unit='h')
    a = eao.assets.Asset(name='asset_name')
    a.timegrid = tg if case['own'] else other
    kwargs = dict(round=case['round'])
    if not case['own']:
        kwargs['timegrid'] = tg
    unit = P['grid_unit']
    if case['old']:
        kwargs['old_freq'] = P['duration_unit']
        unit = P['duration_unit']
    v = float(P['value'])
    q = v * pd.Timedelta(to(unit)).value / pd.Timedelta(to(P['grid_freq'])).value
    return (lambda: a.convert_to_timegrid_freq(v, 'min_runtime', **kwargs)), dict(q=q)


ConvertToGridFreq.schema = _schema2
ConvertToGridFreq.sample = _sample2
ConvertToGridFreq.native = _native2
