"""Contract for eaopack.portfolio: Portfolio.setup_split_optim_problem  (C14 "time steps refer to the original grid", every step of the
horizon in exactly one interval; C04 variable numbering of the joint solution; C18 nodal records of the intervals; C10 grid restored).

The interval boundaries come from pd.date_range(start, end, freq=interval_size) (A4, anchored form: SOME strictly increasing sequence
inside [start, end] -- its first point may lie after the start, its last before or on the end).  Harness bound: that sequence has 1 or 2
points (so 1 to 3 intervals after the end is appended and the start inserted; the loop over the intervals is unrolled); everything else
is symbolic: the grid (any number of steps), where the boundaries fall, the size of every interval's problem and its mapping.

Callee contracts used (each proved or stated in its own contract):
  Timegrid(start, end, freq, ref_timegrid=g)     same-frequency restricted grid (C08.window.*): its steps are the steps k of g with
                                                 start <= t_k < end; because g's instants increase these are the steps [lb(start), lb(end))
                                                 with lb(t) = number of instants before t  (bridging lemma C14.lemma.window_is_a_block)
  Portfolio.setup_optim_problem(prices, grid, skip_nodes=..., fix_time_window=...)
                                                 WF_OP on the given grid (C07.asm.*): n variables, mapping rows with index in [0, n) and
                                                 time_step a position in [0, grid.T), nodal record (position, node) per N row; writes the
                                                 portfolio's / assets' grid (C10)
  Timegrid.prices_to_grid, SplitOptimProblem(ops, mapping), Portfolio.set_timegrid, Asset.set_timegrid      stored / logged

Ensures, for the intervals that contain at least one step, in order:
  C14.split.intervals_partition_the_horizon           first interval starts at step 0, each next one where the previous ended, last ends at T
  C14.split.each_interval_is_set_up_on_its_own_grid   one set-up per non-empty interval with that interval's grid (positions renumbered
                                                       0..T_i-1, cumulative time of the reference grid kept) and the prices put on that grid
  C14.steps_refer_to_original_grid                    joint mapping: rows of the intervals in interval order, time_step = first step of the
                                                       interval + position
  C04.split.variable_numbers_offset_by_sizes_of_earlier_intervals     index = own index + number of variables of all earlier intervals
  C18.split.nodal_records_refer_to_original_steps     every interval's nodal record (position, node) becomes (first step + position, node)
  C12.split.interval_grids_keep_the_main_time_unit    the interval grids are in the reference grid's main time unit
  C10.split.portfolio_and_assets_hold_the_full_grid_afterwards
The per-asset renumbering of the informational column index_assets is not specified (nothing reads it)."""
import z3

from pyvc import sym, spec as S
from pyvc.sym import Arr, Obj, DF, Havoc, TS, lift
from .common import Contract, register, mk_root_grid


@register
class SplitSetup(Contract):
    qualname = 'portfolio:Portfolio.setup_split_optim_problem'
    prefix = 'C14.split'
    properties = ('C14', 'C04', 'C18', 'C10', 'C12')

    def cases(self):
        return [dict(points=1), dict(points=2)]

    def harness(self, H, case):
        g = mk_root_grid(H, tz=None)
        T = g.get('T')
        H.assume(T >= 1)
        tpf = g.get('__fun__')['tp']
        # the grid starts at its first instant (post of the root constructor for aligned starts; the anchored case D24 is a known finding)
        H.assume(tpf(0) == g.get('start').t)
        lb = H.fun('lb', z3.IntSort(), z3.IntSort())
        t, k = z3.Ints('lb!t lb!k')
        H.assume(z3.ForAll([t], z3.And(lb(t) >= 0, lb(t) <= T), patterns=[lb(t)]))
        H.assume(z3.ForAll([t, k], z3.Implies(z3.And(k >= 0, k < T), (k < lb(t)) == (tpf(k) < t)), patterns=[z3.MultiPattern(lb(t), tpf(k))]))
        # derived facts (lemmas C14.lemma.lb_is_monotone / block_of_the_whole_horizon, proved from the definition above)
        t2 = z3.Int('lb!t2')
        H.assume(z3.ForAll([t, t2], z3.Implies(t <= t2, lb(t) <= lb(t2)), patterns=[z3.MultiPattern(lb(t), lb(t2))]))
        H.assume(z3.And(lb(g.get('start').t) == 0, lb(g.get('end').t) == T))
        old = Obj('Timegrid', __token__='grid held before the call')
        assets = [Obj('Asset', name=H.str('asset0'), timegrid=old), Obj('Asset', name=H.str('asset1'), timegrid=old)]
        self_obj = Obj('Portfolio', assets=assets, timegrid=old)
        prices = Obj('dict', __token__='prices as given')
        skip = Obj('list', __token__='skip_nodes as given')
        ctx = dict(self_obj=self_obj, g=g, lb=lb, assets=assets, prices=prices, skip=skip, calls=[], grids=[],
                   args=[prices, g, H.str('interval_size'), skip, None], H=H, flags=dict(date_range='anchored', date_range_count=case['points']))
        return ctx

    def callees(self, case, ctx=None):
        H = ctx['H']
        g, lb = ctx['g'], ctx['lb']
        nf, Rf, Nf = (H.fun(nm, z3.IntSort(), z3.IntSort()) for nm in ('op_n', 'op_R', 'op_N'))
        midx, mts, mia, nrt = (H.fun(nm, z3.IntSort(), z3.IntSort(), z3.IntSort()) for nm in ('m_idx', 'm_ts', 'm_ia', 'nr_t'))
        mas, nrn = (H.fun(nm, z3.IntSort(), z3.IntSort(), sym.Str) for nm in ('m_asset', 'nr_n'))
        cf = H.fun('op_c', z3.IntSort(), z3.IntSort(), z3.RealSort())
        ctx.update(nf=nf, Rf=Rf, Nf=Nf, midx=midx, mts=mts, mia=mia, nrt=nrt, mas=mas, nrn=nrn)

        def prices_to_grid(I, self_obj, args, kwargs):
            return Obj('DataFrame', __token__='prices on grid', grid=self_obj, source=args[0])

        def timegrid_ctor(I, self_obj, args, kwargs):
            start, end, freq = args[0], args[1], args[2]
            ref = kwargs.get('ref_timegrid')
            if ref is not g or freq is not g.get('freq') or not isinstance(start, TS) or not isinstance(end, TS):
                raise sym.Unsupported('interval grid not built from the reference grid with its own frequency')
            a, b = lb(start.t), lb(end.t)
            n = z3.If(b >= a, b - a, 0)
            gdt, gDt, gtp = g.get('dt'), g.get('Dt'), g.get('timepoints')
            # the constructor's own parameter (default 'h'): step lengths are copied from the reference grid, the unit is NOT
            unit = kwargs.get('main_time_unit', args[3] if len(args) > 3 else 'h')
            o = Obj('Timegrid', T=n, I=Arr(n, lambda q: a + lift(q)), dt=Arr(n, lambda q: gdt.f(a + lift(q))), Dt=Arr(n, lambda q: gDt.f(a + lift(q))),
                    timepoints=Arr(n, lambda q: gtp.f(a + lift(q))), start=start, end=end, freq=freq, tz=g.get('tz'), main_time_unit=unit)
            o.attrs['__a__'], o.attrs['__b__'] = a, b
            ctx['grids'].append(o)
            return o

        def setup(I, self_obj, args, kwargs):
            grid = args[1]
            a = grid.get('__a__')
            Ti = lift(grid.get('T'))
            n, R, N = nf(a), Rf(a), Nf(a)
            r = z3.Int(sym.fresh_name('wf_r'))
            I.assume(z3.And(n >= 0, R >= 0, N >= 0))
            I.assume(z3.ForAll([r], z3.Implies(z3.And(r >= 0, r < R), z3.And(midx(a, r) >= 0, midx(a, r) < n, mts(a, r) >= 0, mts(a, r) < Ti)), patterns=[midx(a, r)]))
            I.assume(z3.ForAll([r], z3.Implies(z3.And(r >= 0, r < R), z3.And(mts(a, r) >= 0, mts(a, r) < Ti)), patterns=[mts(a, r)]))
            I.assume(z3.ForAll([r], z3.Implies(z3.And(r >= 0, r < N), z3.And(nrt(a, r) >= 0, nrt(a, r) < Ti)), patterns=[nrt(a, r)]))
            m = DF(R, Arr(R, lambda q: midx(a, lift(q))), {'time_step': Arr(R, lambda q: mts(a, lift(q))), 'asset': Arr(R, lambda q: mas(a, lift(q))),
                                                            'index_assets': Arr(R, lambda q: mia(a, lift(q)))})
            op = Obj('OptimProblem', c=Arr(n, lambda q: cf(a, lift(q))), mapping=m,
                     map_nodal_restr=Arr(N, lambda q: (nrt(a, lift(q)), nrn(a, lift(q))), kind='list'))
            op.attrs['__grid__'] = grid
            ctx['calls'].append(dict(op=op, grid=grid, prices=args[0], skip=kwargs.get('skip_nodes'), fix=kwargs.get('fix_time_window'),
                                     grid_I=grid.get('I'), grid_Dt=grid.get('Dt')))
            self_obj.set('timegrid', grid)
            for asset in self_obj.get('assets'):
                asset.set('timegrid', grid)
            return op

        def split_ctor(I, self_obj, args, kwargs):
            return Obj('SplitOptimProblem', ops=args[0], mapping=args[1])

        def set_tg(I, self_obj, args, kwargs):
            self_obj.set('timegrid', args[0])
            return None
        return {'basic_classes:Timegrid.prices_to_grid': prices_to_grid, 'basic_classes:Timegrid': timegrid_ctor,
                'portfolio:Portfolio.setup_optim_problem': setup, 'optimization:SplitOptimProblem': split_ctor,
                'portfolio:Portfolio.set_timegrid': set_tg, 'assets:Asset.set_timegrid': set_tg}

    def post(self, H, case, outcome, I, ctx):
        if outcome[0] != 'return':
            yield ('C14.split.no_raise', False if outcome[0] == 'raise' else Havoc(outcome[1]))
            return
        res = outcome[1]
        ok = isinstance(res, Obj) and res.cls == 'SplitOptimProblem' and isinstance(res.get('ops'), list) and isinstance(res.get('mapping'), DF)
        yield ('C14.split.returns_split_problem_of_the_intervals_and_the_joint_mapping', ok)
        if not ok:
            return
        g, T = ctx['g'], lift(ctx['g'].get('T'))
        calls = ctx['calls']
        ops = res.get('ops')
        yield ('C14.split.one_problem_per_set_up_in_order', len(ops) == len(calls) and all(o is c['op'] for o, c in zip(ops, calls)))
        if not (len(ops) == len(calls) and all(o is c['op'] for o, c in zip(ops, calls))):
            return
        # only intervals with steps are set up, and every interval with steps is: the set-up grids are the constructed grids with T > 0
        built = ctx['grids']
        used = [c['grid'] for c in calls]
        skipped = [gr for gr in built if not any(gr is u for u in used)]
        yield ('C14.split.only_empty_intervals_are_skipped', z3.And(*[lift(gr.get('T')) == 0 for gr in skipped]) if skipped else True)
        yield ('C14.split.at_least_one_interval', len(calls) >= 1)
        if not calls:
            return
        a = [c['grid'].get('__a__') for c in calls]
        b = [c['grid'].get('__b__') for c in calls]
        part = [a[0] == 0, b[-1] == T] + [b[k] == a[k + 1] for k in range(len(calls) - 1)] + [b[k] > a[k] for k in range(len(calls))]
        yield ('C14.split.intervals_partition_the_horizon', z3.And(*part))
        q = z3.Int('q')
        each, units = [], []
        for c in calls:
            gr = c['grid']
            Ti = lift(gr.get('T'))
            pg = c['prices']
            each.append(isinstance(pg, Obj) and pg.has('grid') and pg.get('grid') is gr and isinstance(pg.get('source'), Obj) and pg.get('source').has('grid')
                        and pg.get('source').get('grid') is g and pg.get('source').get('source') is ctx['prices'])
            each.append(c['skip'] is ctx['skip'] and c['fix'] is None)
            units.append(gr.get('main_time_unit') is g.get('main_time_unit'))
            gI, gDt = c['grid_I'], c['grid_Dt']
            aa = gr.get('__a__')
            each.append(z3.And(lift(gI.n) == Ti, z3.ForAll([q], z3.Implies(z3.And(q >= 0, q < Ti), z3.And(lift(gI.f(q)) == q, lift(gDt.f(q)) == lift(g.get('Dt').f(aa + q)))))))
        yield ('C14.split.each_interval_is_set_up_on_its_own_grid', z3.And(*[e if not isinstance(e, bool) else z3.BoolVal(e) for e in each]))
        # step lengths, rates and discounting of an interval are read in the reference grid's main time unit (C12)
        yield ('C12.split.interval_grids_keep_the_main_time_unit', all(units))
        # joint mapping
        m = res.get('mapping')
        Rf, nf, midx, mts, mas = (ctx[k2] for k2 in ('Rf', 'nf', 'midx', 'mts', 'mas'))
        tot = sum([Rf(x) for x in a[1:]], Rf(a[0]))
        yield ('C14.split.joint_mapping_has_the_rows_of_all_intervals', lift(m.n) == tot)
        row0, off = z3.IntVal(0), z3.IntVal(0)
        steps, idxs, kept = [], [], []
        for k2, c in enumerate(calls):
            ak = a[k2]
            rng = z3.And(q >= 0, q < Rf(ak))
            steps.append(z3.ForAll([q], z3.Implies(rng, lift(m.cols['time_step'].f(row0 + q)) == ak + mts(ak, q))))
            idxs.append(z3.ForAll([q], z3.Implies(rng, lift(m.index.f(row0 + q)) == midx(ak, q) + off)))
            kept.append(z3.ForAll([q], z3.Implies(rng, lift(m.cols['asset'].f(row0 + q)) == mas(ak, q))))
            row0 = row0 + Rf(ak)
            off = off + nf(ak)
        yield ('C14.steps_refer_to_original_grid', z3.And(*steps))
        yield ('C04.split.variable_numbers_offset_by_sizes_of_earlier_intervals', z3.And(*idxs))
        yield ('C14.split.rows_keep_their_asset', z3.And(*kept))
        # nodal records
        recs = []
        for k2, c in enumerate(calls):
            rec = c['op'].get('map_nodal_restr')
            ak = a[k2]
            recs.append(list_is(rec, ctx['Nf'](ak), lambda r_, ak=ak: (ak + ctx['nrt'](ak, r_), ctx['nrn'](ak, r_))))
        yield ('C18.split.nodal_records_refer_to_original_steps', z3.And(*[r_ if not isinstance(r_, bool) else z3.BoolVal(r_) for r_ in recs]))
        so = ctx['self_obj']
        yield ('C10.split.portfolio_and_assets_hold_the_full_grid_afterwards', so.get('timegrid') is g and all(x.get('timegrid') is g for x in ctx['assets']))


def list_is(rec, n, item):
    """the list built by appends in a loop has exactly the n items item(0), ..., item(n-1), in order"""
    from pyvc.interp import Seg, Family
    if isinstance(rec, Seg) and rec.kind == 'list':
        segs = [sg for sg in rec.segs if not (isinstance(sg, list) and not sg)]
        if len(segs) != 1 or not isinstance(segs[0], Family) or len(segs[0].vars) != 1:
            return False
        f = segs[0]
        r_ = f.vars[0]
        it = f.item
        if isinstance(it, list) and len(it) == 1:
            it = it[0]
        if not (isinstance(it, tuple) and len(it) == 2):
            return False
        want = item(r_)
        dom = z3.And(r_ >= 0, r_ < n)
        return z3.And(f.dom == dom, z3.Implies(dom, z3.And(lift(it[0]) == want[0], lift(it[1]) == want[1])))
    if isinstance(rec, Arr):
        r_ = z3.Int('rec!r')
        got = rec.f(r_)
        want = item(r_)
        return z3.And(lift(rec.n) == n, z3.ForAll([r_], z3.Implies(z3.And(r_ >= 0, r_ < n), z3.And(lift(got[0]) == want[0], lift(got[1]) == want[1]))))
    if isinstance(rec, list) and not rec:
        return n == 0
    return False
