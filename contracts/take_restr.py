"""Contract for eaopack.assets: define_restr(my_take, my_type, my_n, map, timegrid, node=None)  -- the rows for minimum / maximum take
(C02 "minimum/maximum take ... take volumes prorated to the part of the period inside the horizon", C08 "take periods lying entirely
outside the horizon change nothing ... a take period partly outside the horizon is prorated by the covered duration").

Taken from the statements, for K take periods [s_k, e_k) with volumes v_k (K symbolic), an arbitrary mapping with R rows (several rows per
variable, optional disp_factor column, optional restriction to one node) and an arbitrary well-formed grid with the asset's restricted grid:

  covered rows of period k    S_k = { mapping rows q whose step is a step of the asset's window with s_k <= time point < e_k  (at the node) }
  no row for a period with S_k empty  (a period entirely outside the horizon / the window changes nothing)
  otherwise exactly one row, in period order:
      coefficient of variable j   = sum of disp_factor over the rows of S_k that belong to variable j      (dispatch of the covered steps)
      right-hand side             = v_k x (total length of the DISTINCT covered steps) / (length of the period)  (prorated by covered duration)
      type letter                 = the one asked for

The three loops of the function run over symbolic ranges: the period loop is summarised as a row family with a guard; the list of covered
rows is kept as a predicate (pyvc.interp.RowSel: the selections of different steps are disjoint -- obligation, from the strictly increasing
index map of the restricted grid); the accumulation of factors is a commutative sum.
Callee: Timegrid.prep_date_dict (returns the lists with dates in the grid's zone; the harness gives dates in the grid's zone already).
"""
import z3

from pyvc import sym, spec as S
from pyvc.sym import Arr, Mat, Obj, DF, Havoc, TS, lift
from pyvc.interp import Seg, Family
from .common import Contract, register, mk_root_grid, mk_restricted


def families(x):
    return [s for s in x.segs if isinstance(s, Family)] if isinstance(x, Seg) else []


@register
class DefineRestr(Contract):
    qualname = 'assets:define_restr'
    prefix = 'C02.take'
    properties = ('C02', 'C08')

    def cases(self):
        return [dict(node=nd, dispf=d) for nd in (False, True) for d in (False, True)]

    def harness(self, H, case):
        g = mk_root_grid(H, tz=None)
        Rg = mk_restricted(H, g)
        g.set('restricted', Rg)
        T, nR = g.get('T'), Rg.get('T')
        rI = Rg.get('__fun__')['I']
        tpf = g.get('__fun__')['tp']
        n, R, K = H.int('n_vars'), H.int('n_maprows'), H.int('n_periods')
        H.assume(z3.And(n >= 0, R >= 0, K >= 0))
        idx = H.fun('map_index', z3.IntSort(), z3.IntSort())
        ts = H.fun('map_time_step', z3.IntSort(), z3.IntSort())
        nd = H.fun('map_node', z3.IntSort(), sym.Str)
        dff = H.fun('map_disp_factor', z3.IntSort(), z3.RealSort())
        p = z3.Int('wf!p')
        # WF_OP: rows point to existing variables and to steps of the grid
        H.assume(z3.ForAll([p], z3.Implies(z3.And(p >= 0, p < R), z3.And(idx(p) >= 0, idx(p) < n)), patterns=[idx(p)]))
        H.assume(z3.ForAll([p], z3.Implies(z3.And(p >= 0, p < R), z3.And(ts(p) >= 0, ts(p) < T)), patterns=[ts(p)]))
        col = lambda f: Arr(R, lambda q, f=f: f(lift(q)))
        cols = {'time_step': col(ts), 'node': col(nd), 'asset': Arr(R, lambda q: H.str('asset_name')), 'type': Arr(R, lambda q: 'd')}
        if case['dispf']:
            cols['disp_factor'] = col(dff)
        m = DF(R, col(idx), cols)
        sf, ef = H.fun('take_start', z3.IntSort(), z3.IntSort()), H.fun('take_end', z3.IntSort(), z3.IntSort())
        vf = H.fun('take_value', z3.IntSort(), z3.RealSort())
        k0 = z3.Int('wf!k')
        H.assume(z3.ForAll([k0], z3.Implies(z3.And(k0 >= 0, k0 < K), sf(k0) < ef(k0)), patterns=[sf(k0)]))     # periods of positive length
        take = {'start': Arr(K, lambda k: TS(sf(lift(k)), None), kind='list'), 'end': Arr(K, lambda k: TS(ef(lift(k)), None), kind='list'),
                'values': Arr(K, lambda k: vf(lift(k)), kind='list')}
        node = H.str('the_node') if case['node'] else None
        H.protect[id(m)] = 'mapping of the problem'
        H.protect[id(take)] = 'take dictionary'
        for key in take:
            H.protect[id(take[key])] = f"take['{key}']"
        ctx = dict(args=['U' if False else take, 'U', n, m, g], kwargs=dict(node=node), g=g, Rg=Rg, T=T, nR=nR, rI=rI, tpf=tpf, n=n, R=R, K=K,
                   idx=idx, ts=ts, nd=nd, dff=dff if case['dispf'] else (lambda q: z3.RealVal(1)), sf=sf, ef=ef, vf=vf, node=node, take=take, m=m)
        return ctx

    def callees(self, case, ctx=None):
        def prep(I, self_obj, args, kwargs):
            I.require('callee-pre:prep_date_dict.of_the_take_dictionary', z3.BoolVal(args[0] is ctx['take'] and self_obj is ctx['g']), kind='callee-pre')
            return dict(ctx['take'])
        return {'basic_classes:Timegrid.prep_date_dict': prep}

    # covered rows of period k, from the statement
    def covered(self, ctx, k, q):
        i = z3.Int('cov!i')
        base = z3.And(k >= 0, k < ctx['K'], i >= 0, i < ctx['nR'], ctx['sf'](k) <= ctx['tpf'](ctx['rI'](i)), ctx['ef'](k) > ctx['tpf'](ctx['rI'](i)), ctx['ts'](q) == ctx['rI'](i))
        if ctx['node'] is not None:
            base = z3.And(base, ctx['nd'](q) == ctx['node'])
        return z3.Exists([i], base)

    def post(self, H, case, outcome, I, ctx):
        if outcome[0] != 'return':
            yield ('C02.take.no_raise', False if outcome[0] == 'raise' else Havoc(outcome[1]))
            return
        res = outcome[1]
        if not (isinstance(res, tuple) and len(res) == 3):
            yield ('C02.take.returns_rows_rhs_types', Havoc('result not a triple') if isinstance(res, Havoc) else False)
            return
        A, b, ct = res
        if I is None:
            yield from self.post_native(case, A, b, ct, ctx)
            return
        for x in (A, b, ct):
            if isinstance(x, Havoc):
                yield ('C02.take.modelled', x)
                return
        fa, fb, fc = families(A), families(b), families(ct)
        ok = len(fa) == 1 and len(fb) == 1 and len(fc) == 1 and len(fa[0].vars) == 1 and \
            all(len([s for s in x.segs if not isinstance(s, Family) and not _empty(s)]) == 0 for x in (A, b, ct))
        yield ('C02.take.one_row_family_in_period_order', ok)
        if not ok:
            return
        k = fa[0].vars[0]          # the period: a free constant of the VC (i.e. universally quantified), as in the code's own hypotheses
        n, R, K, T = ctx['n'], ctx['R'], ctx['K'], ctx['T']
        q, j, t = z3.Ints('post!q post!j post!t')
        cov = lambda qq: self.covered(ctx, k, qq)
        some = z3.Exists([q], z3.And(q >= 0, q < R, cov(q)))
        dom = z3.And(k >= 0, k < K, some)
        # C08: a period without any covered step (entirely outside the horizon / the asset's window) yields no row; every other exactly one
        yield ('C08.take.row_iff_some_step_is_covered', z3.And(fa[0].dom == dom, fb[0].dom == dom, fc[0].dom == dom))
        pc = list(I.pc)
        item = fa[0].item
        # (the sums are built with the period and the cell as parameters, like the sums the code's loops give rise to: prefix sums are shared
        # between code and specification when their summands are pointwise equal -- sum extensionality, checked by the sum registry)
        def want_coef(jj):
            r_, c_ = z3.Int('spec!row'), z3.Int('spec!col')
            sym.SCOPE.extend([r_, c_])       # (the code's cell sums are formed after the loop: the period is a constant of the VC there)
            try:
                P = sym.SUMS.prefix(lambda qq: sym.ite(z3.And(some, cov(lift(qq)), r_ == 0, ctx['idx'](lift(qq)) == c_), ctx['dff'](lift(qq)), 0.0), pc)
            finally:
                del sym.SCOPE[-2:]
            return z3.substitute(lift(P(lift(R))) - lift(P(z3.IntVal(0))), (r_, z3.IntVal(0)), (c_, lift(jj)))
        yield ('C02.take.row_sums_the_dispatch_of_the_covered_steps', z3.Implies(z3.And(dom, j >= 0, j < n), z3.And(
            lift(item.nr) == 1, lift(item.nc) == n, lift(item.f(0, j)) == lift(want_coef(j)))))
        gdt = ctx['g'].get('dt')
        sym.SCOPE.append(k)
        try:
            covered_len = S.psum(lambda tt: S.ite(z3.Exists([q], z3.And(q >= 0, q < R, cov(q), ctx['ts'](q) == lift(tt))), gdt.f(tt), 0.0), 0, T, pc)
        finally:
            sym.SCOPE.pop()
        from pyvc import libmodel
        unit = sym.to_real(libmodel.freq_ns(I, ctx['g'].get('main_time_unit')))
        period_len = sym.to_real(ctx['ef'](k) - ctx['sf'](k)) / unit
        bi = fb[0].item
        bval = bi.f(0) if isinstance(bi, Arr) else bi
        yield ('C08.take.prorated_by_covered_duration', z3.Implies(dom, lift(bval) == ctx['vf'](k) / period_len * lift(covered_len)))
        ci = fc[0].item
        yield ('C02.take.row_type_as_asked', ci == 'U' if isinstance(ci, str) else z3.Implies(dom, lift(S.char_at(ci, 0)) == sym.strlit('U')))


def _post_native(self, case, A, b, ct, ctx):
    """run-time twin: the same statement evaluated on the real result (dense rows)"""
    nat = ctx['nat']
    rows, rhs = [], []
    for k in range(nat['K']):
        cov = [q for q in range(nat['R']) if any(nat['s'][k] <= nat['tp_r'][i] < nat['e'][k] and nat['ts'][q] == nat['rI'][i] for i in range(len(nat['rI'])))
               and (nat['node'] is None or nat['nd'][q] == nat['node'])]
        if not cov:
            continue
        r = [0.0] * nat['n']
        for q in cov:
            r[nat['idx'][q]] += nat['df'][q]
        rows.append(r)
        rhs.append(nat['v'][k] / ((nat['e'][k] - nat['s'][k]) / nat['unit']) * sum(nat['dt'][t] for t in sorted(set(nat['ts'][q] for q in cov))))
    nr = int(A.nr)
    yield ('C08.take.row_iff_some_step_is_covered', nr == len(rows) and int(b.n) == len(rows))
    if nr != len(rows):
        return
    yield ('C02.take.row_sums_the_dispatch_of_the_covered_steps', all(abs(float(A.f(r, j)) - rows[r][j]) < 1e-9 for r in range(nr) for j in range(nat['n'])))
    yield ('C08.take.prorated_by_covered_duration', all(abs(float(b.f(r)) - rhs[r]) < 1e-9 * max(1., abs(rhs[r])) for r in range(nr)))
    yield ('C02.take.row_type_as_asked', ct == 'U' * nr)


def _schema(self, case):
    return [('g_T', 'int', None), ('n_vars', 'int', None), ('n_maprows', 'int', None), ('n_periods', 'int', None)]


def _sample(self, case, rng):
    from pyvc import native as N
    T = rng.randint(1, 6)
    a = rng.randint(0, T - 1)
    b = rng.randint(a, T)
    n = rng.randint(1, 4)
    R = rng.randint(0, 8)
    K = rng.randint(0, 3)
    pts = [rng.randint(-3, 2 * T + 2) for _ in range(K)]
    return N.Params(g_T=T, win_a=a, win_b=b, n_vars=n, n_maprows=R, n_periods=K, g_dt=[rng.choice(N.POS) for _ in range(T)] if rng.random() < .6 else [1.0] * T,
                    map_index=[rng.randint(0, n - 1) for _ in range(R)], map_time_step=[rng.randint(0, T - 1) for _ in range(R)],
                    map_node=[rng.choice(['the_node', 'other']) for _ in range(R)], map_disp_factor=[rng.choice([1.0, 1.0, -1.0, 0.5, 2.0]) for _ in range(R)],
                    starts=pts, ends=[p_ + rng.randint(1, 6) for p_ in pts], values=[rng.choice([-6., -2., 3., 10.]) for _ in range(K)])


def _native(self, case, P):
    import numpy as np
    import pandas as pd
    import eaopack as eao
    from pyvc import native as N
    T, n, R, K = int(P['g_T']), int(P['n_vars']), int(P['n_maprows']), int(P['n_periods'])
    tg, syn = N.synthetic_grid(T, P.get('g_dt'))
    pts = list(tg.timepoints) + [tg.end]
    a0, b0 = int(P['win_a']), int(P['win_b'])
    asset = eao.assets.Asset(name='asset_name', start=pts[a0], end=pts[b0])
    asset.set_timegrid(tg)
    half = pd.Timedelta(30, 'min')
    s = [tg.start + half * int(x) for x in P['starts']]
    e = [tg.start + half * int(x) for x in P['ends']]
    v = [float(x) for x in P['values']]
    cols = {'time_step': [int(x) for x in P['map_time_step']], 'node': list(P['map_node']), 'asset': ['asset_name'] * R, 'type': ['d'] * R}
    if case['dispf']:
        cols['disp_factor'] = [float(x) for x in P['map_disp_factor']]
    m = pd.DataFrame(cols, index=[int(x) for x in P['map_index']]) if R else pd.DataFrame({k_: pd.Series([], dtype=(float if k_ == 'disp_factor' else (int if k_ == 'time_step' else str))) for k_ in cols})
    take = {'start': list(s), 'end': list(e), 'values': list(v)}
    node = 'the_node' if case['node'] else None
    Rg = tg.restricted
    nat = dict(K=K, R=R, n=n, s=[x.value for x in s], e=[x.value for x in e], v=v, tp_r=[x.value for x in Rg.timepoints], rI=[int(x) for x in Rg.I],
               ts=cols['time_step'], nd=cols['node'], idx=[int(x) for x in P['map_index']], df=cols.get('disp_factor', [1.0] * R), node=node,
               unit=pd.Timedelta(1, tg.main_time_unit).value, dt=[float(x) for x in tg.dt])
    m0 = m.copy()
    ctx = dict(nat=nat, synthetic=syn)

    def call():
        out = eao.assets.define_restr(take, 'U', n, m, tg, node=node)
        return (out[0].toarray() if hasattr(out[0], 'toarray') else np.asarray(out[0]), np.asarray(out[1], dtype=float), out[2])
    return call, ctx


DefineRestr.post_native = _post_native
DefineRestr.schema = _schema
DefineRestr.sample = _sample
DefineRestr.native = _native


def _empty(s):
    if isinstance(s, Mat):
        return sym.concrete_int(s.nr) == 0
    if isinstance(s, Arr):
        return sym.concrete_int(s.n) == 0
    if isinstance(s, str):
        return s == ''
    return False
