"""Contract for eaopack.assets: Storage.setup_optim_problem  (C02, C05, C07, C08, C10, C12, C17).

LP_Storage, written from the property statements (C05: "physical fill level = start level +
efficiency x charged - discharged + accumulated inflow stays between zero and its size and equals
the end level at its last active step; per-step charge and discharge within rate x step length";
C02: "cash flows discounted", holding cost per volume and main time unit):

  variables per step i of the window: charge x_in[i] in [-cap_in*dt_i, 0], discharge x_out[i] in
  [0, cap_out*dt_i]  (or one variable x[i] = x_in + x_out in [-cap_in*dt_i, cap_out*dt_i] when
  eff_in = 1, no in/out cost and one node);
  level after step r:   L_r = start + sum_{j<=r} (-eff*x_in[j] - x_out[j]) + Q_r,  Q_r = sum_{j<=r} inflow*dt_j
  rows:   U_r:  -sum_{j<=r}(eff*x_in[j] + x_out[j]) <= size - start - Q_r     (L_r <= size),   r < n-1
          L_r:  -sum_{j<=r}(eff*x_in[j] + x_out[j]) >=       - start - Q_r     (L_r >= 0),      r < n-1
          both rows n-1 with right-hand side end - start - Q_{n-1}                (L_{n-1} = end)
  cost:   c_in[i]  = (-cost_in  - p_i)*df_i - eff*H_i,   c_out[i] = (cost_out - p_i)*df_i - H_i,
          H_i = sum_{j>=i} cost_store*dt_j*df_j   (level at the end of step j is held during step j)
  no_simult_in_out: binary m_i, rows  x_in[i] - cap_in*dt_i*m_i >= -cap_in*dt_i,  x_out[i] - cap_out*dt_i*m_i <= 0.

The equivalence "rows <=> 0 <= L_r <= size and L_{n-1} = end" is lemma C05.level (lemmas/c05.py).
"""
import z3

from pyvc import sym, spec as S
from pyvc.sym import Arr, Obj, DF, Havoc, lift
from .common import (Contract, register, mk_root_grid, mk_restricted, disc_fun, set_timegrid_handler, mk_node,
                     OptimProblemInit)

PARAMS = ['size', 'cap_in', 'cap_out', 'start_level', 'end_level', 'eff_in', 'inflow', 'cost_in', 'cost_out', 'cost_store']


@register
class StorageSetup(Contract):
    qualname = 'assets:Storage.setup_optim_problem'
    prefix = 'C05.storage'
    properties = ('C02', 'C05', 'C07', 'C08', 'C10', 'C12', 'C17', 'C01')

    def cases(self):
        out = []
        for nodes in (1, 2):
            for price in (None, 'p'):
                for nosim in (False, True):
                    for costs_only in (False, True):
                        if costs_only and nosim:
                            continue
                        for tg in ('given', 'preset', 'same'):
                            if tg != 'given' and (costs_only or nosim or nodes == 2):
                                continue
                            out.append(dict(nodes=nodes, price=price, nosim=nosim, costs_only=costs_only, tg=tg))
        return out

    def harness(self, H, case):
        g = mk_root_grid(H)
        df = disc_fun(H)
        R = mk_restricted(H, g, df=df)
        nodes = [mk_node(H, 'node0')] + ([mk_node(H, 'node1')] if case['nodes'] == 2 else [])
        vals = {p: H.real(p) for p in PARAMS}
        # constructor-established facts (Storage.__init__ asserts): caps non-negative, start level <= size
        H.assume(vals['cap_in'] >= 0)
        H.assume(vals['cap_out'] >= 0)
        H.assume(vals['start_level'] <= vals['size'])
        self_obj = Obj('Storage', name=H.str('asset_name'), nodes=nodes, wacc=H.real('wacc'), start=None, end=None,
                       freq=None, profile=None, price=case['price'], block_size=None, no_simult_in_out=case['nosim'],
                       max_store_duration=None, periodicity=None, periodicity_duration=None, **vals)
        Tp = H.int('len_price')
        prices = {'p': H.real_arr('price', Tp)}
        ctx = dict(g=g, R=R, df=df, self_obj=self_obj, prices=prices, Tp=Tp, vals=vals)
        if case['tg'] == 'preset':
            # the grid was set before (set_timegrid) and is NOT passed again; meanwhile ANOTHER asset sharing the grid object has
            # overwritten its derived cache (other window, other wacc): the set-up derives the asset's own part anew (C10; defect D42 of
            # the pinned tree: the stale cache was used)
            self_obj.set('timegrid', g)
            pdf = disc_fun(H, 'stale')
            g.set('restricted', mk_restricted(H, g, pfx='stale', df=pdf))
            g.set('discount_factors', Arr(g.get('T'), lambda k: pdf(lift(k))))
            tg_arg = None
        elif case['tg'] == 'same':
            # the asset already holds this very grid object, whose derived cache was overwritten by ANOTHER asset since
            # (other window, other wacc): the set-up has to rebuild it all the same (C10 / C20: no short cut on identity)
            self_obj.set('timegrid', g)
            sdf = disc_fun(H, 'stale')
            g.set('restricted', mk_restricted(H, g, pfx='stale', df=sdf))
            g.set('discount_factors', Arr(g.get('T'), lambda k: sdf(lift(k))))
            tg_arg = g
        else:
            g.set('restricted', Havoc('stale cache: restricted grid of an earlier set-up'))
            g.set('discount_factors', Havoc('stale cache: discount factors of an earlier set-up'))
            tg_arg = g
        ctx['args'] = [prices, tg_arg, case['costs_only']]
        H.protect[id(prices)] = 'prices'
        H.protect[id(prices['p'])] = 'prices[p]'
        return ctx

    def callees(self, case, ctx=None):
        return {'assets:Asset.set_timegrid': set_timegrid_handler(ctx),
                'optimization:OptimProblem': OptimProblemInit()}

    # ------------------------------------------------------------------ reference quantities
    def ref(self, case, ctx):
        R = ctx['R']
        v = ctx['vals']
        n = R.get('T')
        dt, dfR, rI = R.get('dt'), R.get('discount_factors'), R.get('I')
        if case['price'] is None:
            p = lambda i: 0.0
        else:
            pr = ctx['prices']['p']
            p = lambda i: pr.f(rI.f(i))
        d = lambda i: dfR.f(i)
        pc = ctx.get('__pc__')
        H_ = lambda i: S.psum(lambda j: v['cost_store'] * dt.f(j) * dfR.f(j), i, n, pc)
        Q = lambda r: S.psum(lambda j: v['inflow'] * dt.f(j), 0, r + 1, pc)
        return n, dt, p, d, H_, Q

    def post(self, H, case, outcome, I, ctx):
        ctx['__pc__'] = list(I.pc) if I is not None else None
        n, dt, p, d, Hh, Q = self.ref(case, ctx)
        v = ctx['vals']
        T = ctx['g'].get('T')
        if outcome[0] == 'raise':
            bad_len = S.not_(S.eq(ctx['Tp'], T)) if case['price'] is not None else False
            yield ('C08.storage.no_spurious_raise', bad_len)
            return
        if outcome[0] == 'havoc':
            yield ('C05.storage.modelled', Havoc(outcome[1]))
            return
        res = outcome[1]
        if case['costs_only']:
            # C17.costs_only: the cost-only call returns exactly the cost vector of the full set-up (an array)
            yield ('C17.costs_only.storage.is_vector', isinstance(res, Arr))
            if not isinstance(res, Arr):
                return
        c = res if case['costs_only'] else res.get('c')
        if isinstance(c, Havoc):
            yield ('C02.storage.cost', c)
            return
        nv = c.n
        eff = v['eff_in']
        # which formulation is admissible: one variable only if charging is loss-free, free of in/out cost
        # and on one node (otherwise x_in and x_out are not interchangeable)
        single_ok = S.and_(S.eq(eff, 1), S.eq(v['cost_in'], 0), S.eq(v['cost_out'], 0), case['nodes'] == 1)
        nb = n if case['nosim'] else 0
        empty = S.eq(nv, 0)
        one = S.and_(S.eq(nv, n), S.gt(n, 0))
        two = S.and_(S.eq(nv, 2 * n + nb), S.gt(n, 0))
        yield ('C08.storage.empty', S.iff(empty, S.eq(n, 0)))
        yield ('C07.storage.lengths', S.or_(empty, S.and_(one, single_ok), S.and_(two, S.or_(S.not_(single_ok), True))))
        if case['nosim'] and not case['costs_only']:
            # C05 "with the no-simultaneous option a step never has both charge and discharge": whenever charge and discharge are
            # separate variables (anything but the loss-free, cost-free one-node storage) the n mode binaries are there
            yield ('C05.storage.nosimult.binaries_whenever_charge_and_discharge_are_separate', S.or_(empty, S.and_(one, single_ok), two))
        pfx = 'C17.costs_only.storage.equals_full_cost' if case['costs_only'] else 'C02.storage.cost'
        yield (pfx + '/one_var', S.implies(one, lambda: S.forall(n, lambda i: S.eq(c.f(i), -p(i) * d(i) - Hh(i)))))
        yield (pfx + '/two_var', S.implies(two, lambda: S.forall(n, lambda i: S.and_(
            S.eq(c.f(i), (-v['cost_in'] - p(i)) * d(i) - eff * Hh(i)),
            S.eq(c.f(n + i), (v['cost_out'] - p(i)) * d(i) - Hh(i))))))
        if not case['costs_only']:
            # C12 "per-time costs always scale with the actual length of the step": the holding-cost part H_i of the cost vector is the
            # tail sum of cost_store x dt_j x df_j (each later step with ITS OWN length) -- same formulas, stated under C12 as well
            yield ('C12.storage.holding_cost_follows_step_length/one_var', S.implies(one, lambda: S.forall(n, lambda i: S.eq(c.f(i), -p(i) * d(i) - Hh(i)))))
            yield ('C12.storage.holding_cost_follows_step_length/two_var', S.implies(two, lambda: S.forall(n, lambda i: S.and_(
                S.eq(c.f(i), (-v['cost_in'] - p(i)) * d(i) - eff * Hh(i)),
                S.eq(c.f(n + i), (v['cost_out'] - p(i)) * d(i) - Hh(i))))))
        if case['nosim']:
            yield ('C05.storage.nosimult.cost', S.implies(two, lambda: S.forall(n, lambda i: S.eq(c.f(2 * n + i), 0))))
        if case['costs_only']:
            return
        l, u, A, b, ct, m = (res.get(k) for k in ('l', 'u', 'A', 'b', 'cType', 'mapping'))
        for nm, x in (('l', l), ('u', u)):
            if isinstance(x, Havoc):
                yield ('C05.storage.rates', x)
                return
        yield ('C07.storage.lengths.lu', S.and_(S.eq(l.n, nv), S.eq(u.n, nv)))
        cp = lambda i: v['cap_in'] * dt.f(i)
        co = lambda i: v['cap_out'] * dt.f(i)
        yield ('C05.storage.rates/one_var', S.implies(one, lambda: S.forall(n, lambda i: S.and_(S.eq(l.f(i), -cp(i)), S.eq(u.f(i), co(i))))))
        yield ('C05.storage.rates/two_var', S.implies(two, lambda: S.forall(n, lambda i: S.and_(
            S.eq(l.f(i), -cp(i)), S.eq(u.f(i), 0), S.eq(l.f(n + i), 0), S.eq(u.f(n + i), co(i))))))
        yield ('C07.storage.l_le_u', S.forall(nv, lambda i: S.le(l.f(i), u.f(i))))
        # ---- rows
        if S._sym(n) or n > 0:
            if A is None:
                # no rows at all is right exactly for an empty window
                yield ('C08.storage.empty.rows', S.eq(n, 0))
            elif isinstance(A, Havoc) or isinstance(b, Havoc) or isinstance(ct, Havoc):
                yield ('C05.storage.rows', A if isinstance(A, Havoc) else Havoc('rows not modelled'))
            else:
                nrows = S.ite(one, 2 * n, 2 * n + 2 * nb)     # binaries and their rows only in the two-variable form
                Ash = A.get('shape') if isinstance(A, Obj) else (A.nr, A.nc)
                yield ('C07.storage.shape', S.implies(S.gt(n, 0), lambda: S.and_(S.eq(Ash[0], nrows), S.eq(Ash[1], nv), S.eq(b.n, nrows),
                                                                                  S.eq(S.str_len(ct), nrows))))
                tri = lambda r, cc: S.ite(S.le(cc, r), -1.0, 0.0)

                def level_entry(r, cc):
                    # coefficient of variable cc in level row r (r in [0,n)): one-var: -[cc<=r]; two-var: -eff*[cc<=r] | -[cc-n<=r] | 0 (binaries)
                    return S.ite(one, tri(r, cc),
                                 S.ite(S.lt(cc, n), eff * tri(r, cc), S.ite(S.lt(cc, 2 * n), tri(r, cc - n), 0.0)))
                last = lambda r: S.eq(r, n - 1)
                rhsU = lambda r: S.ite(last(r), v['end_level'] - v['start_level'] - Q(r), v['size'] - v['start_level'] - Q(r))
                rhsL = lambda r: S.ite(last(r), v['end_level'] - v['start_level'] - Q(r), -v['start_level'] - Q(r))
                yield ('C05.storage.rows.upper', S.forall(n, lambda r: S.and_(
                    S.forall(nv, lambda cc: S.eq(A.f(r, cc), level_entry(r, cc))), S.eq(b.f(r), rhsU(r)), S.eq(S.char_at(ct, r), 'U'))))
                yield ('C05.storage.rows.lower', S.forall(n, lambda r: S.and_(
                    S.forall(nv, lambda cc: S.eq(A.f(n + r, cc), level_entry(r, cc))), S.eq(b.f(n + r), rhsL(r)), S.eq(S.char_at(ct, n + r), 'L'))))
                if case['nosim']:
                    # x_in[i] - cp_i*m_i >= -cp_i ;  x_out[i] - ct_i*m_i <= 0
                    yield ('C05.storage.nosimult.rows_in', S.implies(two, lambda: S.forall(n, lambda i: S.and_(
                        S.forall(nv, lambda cc: S.eq(A.f(2 * n + i, cc), S.ite(S.eq(cc, i), 1.0, S.ite(S.eq(cc, 2 * n + i), -cp(i), 0.0)))),
                        S.eq(b.f(2 * n + i), -cp(i)), S.eq(S.char_at(ct, 2 * n + i), 'L')))))
                    yield ('C05.storage.nosimult.rows_out', S.implies(two, lambda: S.forall(n, lambda i: S.and_(
                        S.forall(nv, lambda cc: S.eq(A.f(3 * n + i, cc), S.ite(S.eq(cc, n + i), 1.0, S.ite(S.eq(cc, 2 * n + i), -co(i), 0.0)))),
                        S.eq(b.f(3 * n + i), 0), S.eq(S.char_at(ct, 3 * n + i), 'U')))))
                    yield ('C05.storage.nosimult.bounds', S.implies(two, lambda: S.forall(n, lambda i: S.and_(
                        S.eq(l.f(2 * n + i), 0), S.eq(u.f(2 * n + i), 1)))))
        # ---- mapping
        if isinstance(m, Havoc) or not isinstance(m, DF):
            yield ('C07.storage.mapping', m if isinstance(m, Havoc) else Havoc('mapping not a frame'))
            return
        if m.n is None or not m.cols or (not S._sym(n) and n == 0):
            # empty mapping is right exactly for an empty window
            yield ('C08.storage.empty.mapping', S.and_(S.eq(n, 0), (m.n is None) or S.eq(m.n, 0)))
            return
        rI = ctx['R'].get('I')
        so = ctx['self_obj']
        names = [nd.get('name') for nd in so.get('nodes')]
        col = lambda name: m.cols[name]
        yield ('C07.storage.mapping.rows', S.implies(S.gt(n, 0), lambda: S.eq(m.n, nv)))
        yield ('C07.storage.mapping.index', S.forall(nv, lambda j: S.eq(m.index.f(j), j)))
        yield ('C07.storage.mapping.step', S.forall(nv, lambda j: S.eq(col('time_step').f(j), S.ite(
            S.lt(j, n), lambda: rI.f(j), lambda: S.ite(S.lt(j, 2 * n), lambda: rI.f(j - n), lambda: rI.f(j - 2 * n))))))
        yield ('C08.storage.window', S.forall(nv, lambda j: S.and_(S.ge(col('time_step').f(j), 0), S.lt(col('time_step').f(j), T))))
        yield ('C07.storage.mapping.asset', S.forall(nv, lambda j: S.eq(col('asset').f(j), so.get('name'))))
        disp = lambda j: S.lt(j, 2 * n) if case['nosim'] else True
        yield ('C07.storage.mapping.type', S.forall(nv, lambda j: S.eq(col('type').f(j), S.ite(disp(j), 'd', 'i'))))
        # charge on the first node, discharge on the second (or both on the single node)
        node_of = lambda j: S.ite(S.or_(one, S.lt(j, n)), names[0], names[-1])
        yield ('C01.nodes.storage', S.forall(nv, lambda j: S.implies(disp(j), lambda: S.eq(col('node').f(j), node_of(j)))))
        vn = col('var_name')
        yield ('C07.storage.mapping.var_name', S.forall(nv, lambda j: S.and_(
            S.implies(one, lambda: S.eq(vn.f(j), 'disp')),
            S.implies(S.and_(two, S.lt(j, n)), lambda: S.eq(vn.f(j), 'disp_in')),
            S.implies(S.and_(two, S.ge(j, n), S.lt(j, 2 * n)), lambda: S.eq(vn.f(j), 'disp_out')))))
        if case['nosim']:
            has_bool = 'bool' in m.cols
            yield ('C05.storage.nosimult.bool_column', S.implies(two, has_bool))
            if has_bool:
                yield ('C05.storage.nosimult.bool', S.implies(two, lambda: S.forall(nv, lambda j: S.eq(col('bool').f(j), S.ge(j, 2 * n)))))
        else:
            yield ('C07.storage.mapping.no_bool', 'bool' not in m.cols)
        yield ('C07.storage.no_disp_factor', 'disp_factor' not in m.cols)

    # ------------------------------------------------------------------ run-time twin / replay
    def schema(self, case):
        return [('g_T', 'int', None), ('r_n', 'int', None), ('len_price', 'int', None), ('wacc', 'real', None)] + \
               [(p, 'real', None) for p in PARAMS] + \
               [('g_dt', 'real_fun', 'g_T'), ('g_df', 'real_fun', 'g_T'), ('r_I', 'int_fun', 'r_n'), ('price', 'real_fun', 'len_price')]

    size_syms = ('g_T', 'r_n', 'len_price')

    def menu(self, case, H, ctx):
        rI = ctx['R'].get('__fun__')['I']
        k = z3.Int('menu!k')
        v = ctx['vals']
        return [z3.ForAll([k], z3.Implies(z3.And(k >= 0, k < ctx['R'].get('T')), rI(k) == rI(0) + k)), ctx['g'].get('T') >= 1], [
                H.real('wacc') == 0, z3.ForAll([k], ctx['df'](k) == 1), z3.ForAll([k], ctx['g'].get('__fun__')['dt'](k) == 1)]

    def native(self, case, P):
        import numpy as np
        import eaopack as eao
        from pyvc import native as N
        T, n = int(P['g_T']), int(P['r_n'])
        P = N.realisable_wacc(P)
        tg, synthetic = N.synthetic_grid(T, P['g_dt'])
        rI = [int(x) for x in P['r_I']]
        if n and rI != list(range(rI[0], rI[0] + n)):
            raise N.NotRealisable('window not contiguous')
        a0 = rI[0] if n else T
        pts = list(tg.timepoints) + [tg.end]
        start, end = (pts[a0], pts[a0 + n]) if n else (tg.end, tg.end)
        prices = {'p': np.array([P.fun('price')(k) for k in range(int(P['len_price']))], dtype=float)}
        nodes = [eao.assets.Node('node0')] + ([eao.assets.Node('node1')] if case['nodes'] == 2 else [])
        kw = {p: float(P[p]) for p in PARAMS}
        if not (kw['start_level'] <= kw['size'] and kw['cap_in'] >= 0 and kw['cap_out'] >= 0):
            raise N.NotRealisable('constructor precondition (start_level <= size, caps >= 0)')
        a = eao.assets.Storage(name='asset_name', nodes=nodes if len(nodes) > 1 else nodes[0], start=start, end=end,
                               wacc=float(P['wacc']), price=case['price'], no_simult_in_out=case['nosim'], **kw)
        if case['tg'] == 'same':
            a.set_timegrid(tg)
            _pts = list(tg.timepoints) + [tg.end]
            _other = eao.assets.SimpleContract(name='other asset', nodes=eao.assets.Node('elsewhere'), start=_pts[min(1, len(_pts) - 1)], end=_pts[-1], wacc=0.37)
            _other.set_timegrid(tg)      # overwrites the shared grid's restricted part and discount factors
            call = lambda: a.setup_optim_problem(prices, tg, case['costs_only'])
        elif case['tg'] == 'preset':
            a.set_timegrid(tg)
            _pts = list(tg.timepoints) + [tg.end]
            _other = eao.assets.SimpleContract(name='other asset', nodes=eao.assets.Node('elsewhere'), start=_pts[min(1, len(_pts) - 1)], end=_pts[-1], wacc=0.37)
            _other.set_timegrid(tg)      # overwrites the shared grid's restricted part and discount factors
            call = lambda: a.setup_optim_problem(prices, None, case['costs_only'])
        else:
            call = lambda: a.setup_optim_problem(prices, tg, case['costs_only'])
        tg2, _ = N.synthetic_grid(T, P['g_dt'])
        dt = [float(x) for x in tg2.dt]
        Dt = np.cumsum(dt)
        dff = [(1.0 + float(P['wacc'])) ** (-(Dt[k] / 24.0) / 365.0) for k in range(T)]
        R = Obj('Timegrid', T=n, dt=S.from_numpy([dt[k] for k in rI]), I=S.from_numpy(rI),
                discount_factors=S.from_numpy([dff[k] for k in rI]))
        g = Obj('Timegrid', T=T)
        so = Obj('Storage', name='asset_name', nodes=[Obj('Node', name=nd.name) for nd in nodes])
        ctx = dict(R=R, g=g, self_obj=so, prices={'p': S.from_numpy(prices['p'])}, Tp=int(P['len_price']),
                   vals=kw, synthetic=synthetic)
        return call, ctx
