"""Contract for eaopack.assets: Asset.__extend_mapping_to_minor_grid__  (C13 coarse frequency; C01 weights; C07).

An asset with its own coarser frequency is set up on its coarse grid (one variable per coarse step); this helper then
rewrites the mapping so that every mapping row of a coarse step p is replaced by one row per fine ("minor") step of
that coarse step.  From the statement of C13 ("dispatched at a constant rate within each of its coarse intervals ...
equal to the fine-grid problem with exactly those equalities added"):

  for every row j of the given mapping (in order) and every minor step m = I_minor_in_major[p(j)][q] (in order), where
  p(j) is the position of row j's step in the asset's grid, the result has exactly one row with
      the same variable (index label), asset, node, type, ... as row j,
      time_step  = m,
      disp_factor = dt[m] / coarse_dt[p(j)]  x  (row j's own factor, 1 if the mapping has none),
  and nothing else.  The rate in a minor step is x * factor / dt[m] = x * factor_j / coarse_dt[p]: constant over the
  coarse step.  With coarse_dt[p] = sum of the minor dt (post of the coarse Timegrid constructor,
  C12.coarse.step_length_is_sum_of_minor_steps) the weights of one coarse step add up to 1 (Lean lemma
  C13.minor.weights_add_up_to_one), so volumes are conserved.

The loop variables (j, q) of the row family are arbitrary constants in the obligations (proof for a generic row).
Precondition: the mapping has at least one row (with none the function raises KeyError on the missing column; callers
never get there: a coarse asset without steps fails earlier -- known finding D25b), every row's step is a step of the
asset's grid, minor steps are steps of the full grid, step lengths are positive, no profile.
"""
import z3

from pyvc import sym, spec as S
from pyvc.sym import Arr, Obj, DF, Havoc, lift
from pyvc.interp import Seg, Family
from .common import Contract, register, mk_root_grid, mk_restricted


@register
class ExtendMinor(Contract):
    qualname = 'assets:Asset.__extend_mapping_to_minor_grid__'
    prefix = 'C13.minor'
    properties = ('C13', 'C01', 'C07')

    def cases(self):
        return [dict(dispf=False), dict(dispf=True)]

    def harness(self, H, case):
        g = mk_root_grid(H)
        R = mk_restricted(H, g, coarse=True)
        T, n = g.get('T'), R.get('T')
        mlen = H.fun('mm_len', z3.IntSort(), z3.IntSort())
        mm = H.fun('mm', z3.IntSort(), z3.IntSort(), z3.IntSort())
        p, q, j = z3.Ints('h!p h!q h!j')
        H.assume(z3.ForAll([p], z3.Implies(z3.And(p >= 0, p < n), mlen(p) >= 1), patterns=[mlen(p)]))
        H.assume(z3.ForAll([p, q], z3.Implies(z3.And(p >= 0, p < n, q >= 0, q < mlen(p)), z3.And(mm(p, q) >= 0, mm(p, q) < T)), patterns=[mm(p, q)]))
        R.set('I_minor_in_major', Arr(n, lambda pp: Arr(mlen(lift(pp)), lambda qq, pp=pp: mm(lift(pp), lift(qq))), kind='list'))
        g.set('restricted', R)
        Rr = H.int('m_R')
        H.assume(Rr >= 1)
        idx = H.fun('m_idx', z3.IntSort(), z3.IntSort())
        pj = H.fun('m_pos', z3.IntSort(), z3.IntSort())
        nd = H.fun('m_node', z3.IntSort(), sym.Str)
        ty = H.fun('m_type', z3.IntSort(), sym.Str)
        df0 = H.fun('m_dispf', z3.IntSort(), z3.RealSort())
        rI = R.get('__fun__')['I']
        H.assume(z3.ForAll([j], z3.Implies(z3.And(j >= 0, j < Rr), z3.And(pj(j) >= 0, pj(j) < n)), patterns=[pj(j)]))
        aname = H.str('asset_name')
        cols = {'time_step': Arr(Rr, lambda k: rI(pj(lift(k)))), 'node': Arr(Rr, lambda k: nd(lift(k))), 'type': Arr(Rr, lambda k: ty(lift(k))),
                'asset': Arr(Rr, lambda k: aname)}
        if case['dispf']:
            cols['disp_factor'] = Arr(Rr, lambda k: df0(lift(k)))
        m = DF(Rr, Arr(Rr, lambda k: idx(lift(k))), cols)
        self_obj = Obj('Asset', name=aname, profile=None, timegrid=g)
        return dict(self_obj=self_obj, g=g, R=R, Rr=Rr, idx=idx, pj=pj, nd=nd, ty=ty, df0=df0, mm=mm, mlen=mlen, aname=aname, args=[m], m=m)

    def post(self, H, case, outcome, I, ctx):
        if outcome[0] != 'return':
            yield ('C13.minor.no_raise', False if outcome[0] == 'raise' else Havoc(outcome[1]))
            return
        out = outcome[1]
        if I is None:
            # run-time twin: the same clauses on what the real function returned (ctx holds Python functions)
            yield from self.post_concrete(case, out, ctx)
            return
        if isinstance(out, Havoc):
            yield ('C13.minor.modelled', out)
            return
        fams = [s for s in out.segs if isinstance(s, Family)] if isinstance(out, Seg) and out.kind == 'df' else []
        ok = isinstance(out, Seg) and out.kind == 'df' and len(out.segs) == 1 and len(fams) == 1 and len(fams[0].vars) == 2
        # one family of rows, generated in the order (row of the given mapping, minor step), nothing before or after it
        yield ('C13.minor.rows_in_order_of_the_given_mapping_then_minor_step', ok)
        if not ok:
            return
        f = fams[0]
        j, q = f.vars
        Rr, pj, mm, mlen, g, R = (ctx[k] for k in ('Rr', 'pj', 'mm', 'mlen', 'g', 'R'))
        dom = z3.And(j >= 0, j < Rr, q >= 0, q < mlen(pj(j)))
        # exactly one row per (given row, minor step of its coarse step)
        yield ('C13.minor.one_row_per_given_row_and_minor_step', f.dom == dom)
        item = f.item
        shape = isinstance(item, DF) and concrete(item.n) == 1 and set(item.cols) == set(ctx['m'].cols) | {'disp_factor'}
        yield ('C13.minor.columns', shape)
        if not shape:
            return
        m = mm(pj(j), q)
        yield ('C13.minor.same_variable', z3.Implies(dom, lift(item.index.f(0)) == ctx['idx'](j)))
        yield ('C13.minor.step_is_the_minor_step', z3.Implies(dom, lift(item.cols['time_step'].f(0)) == m))
        w = g.get('__fun__')['dt'](m) / lift(R.get('dt').f(pj(j)))
        want = w * ctx['df0'](j) if case['dispf'] else w
        yield ('C13.minor.weight_is_share_of_the_coarse_step_times_own_factor', z3.Implies(dom, lift(item.cols['disp_factor'].f(0)) == want))
        yield ('C13.minor.other_fields_kept', z3.Implies(dom, z3.And(lift(item.cols['node'].f(0)) == ctx['nd'](j), lift(item.cols['type'].f(0)) == ctx['ty'](j),
                                                                    lift(item.cols['asset'].f(0)) == ctx['aname'])))

    # ------------------------------------------------------------------------------------------ run-time twin
    def post_concrete(self, case, out, ctx):
        Rr, pj, mm, mlen, idx = (ctx[k] for k in ('Rr', 'pj', 'mm', 'mlen', 'idx'))
        want = []
        for j in range(Rr):
            p = pj(j)
            for q in range(mlen(p)):
                m = mm(p, q)
                w = ctx['dt'](m) / ctx['rdt'](p)
                want.append(dict(index=idx(j), time_step=m, disp_factor=w * ctx['df0'](j) if case['dispf'] else w, node=ctx['nd'](j), type=ctx['ty'](j), asset=ctx['aname']))
        n = out.n if isinstance(out, DF) else None
        same_len = n == len(want)
        yield ('C13.minor.rows_in_order_of_the_given_mapping_then_minor_step', same_len)
        yield ('C13.minor.one_row_per_given_row_and_minor_step', same_len)
        shape = same_len and set(out.cols) == set(ctx['cols']) | {'disp_factor'}
        yield ('C13.minor.columns', shape)
        if not shape:
            return
        rows = range(len(want))
        yield ('C13.minor.same_variable', all(out.index.f(k) == want[k]['index'] for k in rows))
        yield ('C13.minor.step_is_the_minor_step', all(out.cols['time_step'].f(k) == want[k]['time_step'] for k in rows))
        yield ('C13.minor.weight_is_share_of_the_coarse_step_times_own_factor',
               all(abs(out.cols['disp_factor'].f(k) - want[k]['disp_factor']) <= 1e-12 * max(1., abs(want[k]['disp_factor'])) for k in rows))
        yield ('C13.minor.other_fields_kept', all(out.cols[c].f(k) == want[k][c] for k in rows for c in ('node', 'type', 'asset')))

    def schema(self, case):
        # the twin is parametrised by its own random instances (sample); a solver model of the harness symbols is not
        # turned into real objects (native raises NotRealisable for it)
        return []

    def sample(self, case, rng):
        from pyvc import native as N
        n = rng.randint(1, 3)
        lens = [rng.randint(1, 3) for _ in range(n)]
        slack = rng.randint(0, 2)
        T = sum(lens) + slack
        Rr = rng.randint(1, 2 * n)
        return N.Params(n=n, lens=lens, T=T, g_dt=[rng.choice(N.POS) for _ in range(T)], off=rng.randint(0, slack),
                        pos=[rng.randrange(n) for _ in range(Rr)], idx=[rng.randint(0, 5) for _ in range(Rr)],
                        dispf=[rng.choice([1.0, -1.0, 0.5, 0.9]) for _ in range(Rr)], scale=rng.choice([1.0, 1.0, 2.0]))

    def native(self, case, P):
        import numpy as np
        import pandas as pd
        import types
        import eaopack as eao
        if 'lens' not in P:
            from pyvc import native as N
            raise N.NotRealisable('instances of this contract come from its own sampler only')
        n, lens, T, off = int(P['n']), [int(x) for x in P['lens']], int(P['T']), int(P['off'])
        dt = np.array([float(x) for x in P['g_dt']])
        groups, s = [], off
        for ln in lens:
            groups.append(np.arange(s, s + ln))
            s += ln
        R = types.SimpleNamespace(I=np.array([gq[0] for gq in groups]), I_minor_in_major=groups, dt=np.array([float(dt[gq].sum()) for gq in groups]), T=n)
        # the contract states the weight as the quotient dt / coarse dt, whatever the coarse dt is: one entry is scaled
        R.dt[0] = R.dt[0] * float(P['scale'])
        tg = types.SimpleNamespace(dt=dt, restricted=R, T=T)
        pos, idx = [int(x) for x in P['pos']], [int(x) for x in P['idx']]
        cols = {'time_step': [int(R.I[p]) for p in pos], 'node': ['n%d' % (k % 2) for k in range(len(pos))], 'type': ['d'] * len(pos), 'asset': ['a'] * len(pos)}
        if case['dispf']:
            cols['disp_factor'] = [float(x) for x in P['dispf']]
        m = pd.DataFrame(cols, index=idx)
        a = eao.assets.SimpleContract(name='a', nodes=eao.assets.Node('n0'))
        a.timegrid = tg
        ctx = dict(Rr=len(pos), pj=lambda j: pos[j], mm=lambda p, q: int(groups[p][q]), mlen=lambda p: len(groups[p]), idx=lambda j: idx[j],
                   dt=lambda k: float(dt[k]), rdt=lambda p: float(R.dt[p]), df0=lambda j: float(P['dispf'][j]), nd=lambda j: cols['node'][j],
                   ty=lambda j: 'd', aname='a', cols=list(cols), synthetic=True)
        return (lambda: a.__extend_mapping_to_minor_grid__(m.copy())), ctx


def concrete(v):
    from pyvc.sym import concrete_int
    return concrete_int(v)
