"""Contract for eaopack.assets: ScaledAsset.setup_optim_problem  (C16, C07, C04).

From the property statement C16: "a scaled asset held at a fixed scale s behaves exactly like its base asset with all
capacities multiplied by s / normalisation, less fixed costs of s x cost rate x active duration".  With scale variable
s (last variable) and normalisation S the problem is

  base rows r:        RM_base(r, x) - b_r * s / S   (same type letter)   0
  dispatch variable d:  x_d - u_d * s / S <= 0 ,   x_d - l_d * s / S >= 0 ,  box [min(0,l_d), max(0,u_d)] * max_scale / S
  s in [min_scale, max_scale],  cost  fix_costs * (sum of the step lengths of the asset's window),
  mapping: base rows renamed to the scaled asset, plus one row (type 'size', step 0) for s at index n.

Precondition (WF_OP of the base, in the form the implementation relies on): the base problem has n >= 1 variables,
all of them dispatch variables with exactly one mapping row each, in variable order (bases with several rows per
variable, e.g. transports, are covered by the bounded scenario only).
"""
import z3

from pyvc import sym, spec as S
from pyvc.sym import Arr, Mat, Obj, DF, Havoc, lift
from pyvc.interp import FnStr, Seg
from .common import Contract, register, mk_root_grid, mk_restricted, disc_fun, set_timegrid_handler, mk_node


@register
class ScaledSetup(Contract):
    qualname = 'assets:ScaledAsset.setup_optim_problem'
    prefix = 'C16.scaled'
    properties = ('C16', 'C07', 'C04')

    def cases(self):
        return [dict(rows=True), dict(rows=False)]

    def harness(self, H, case):
        g = mk_root_grid(H)
        df = disc_fun(H)
        R_ = mk_restricted(H, g, df=df)
        T = g.get('T')
        n, R = H.int('b_n'), H.int('b_R')
        H.assume(z3.And(n >= 1, R == n))     # one mapping row per variable (bases with several rows per variable: bounded twin only)
        l, u, c = (H.real_arr('b_' + x, n) for x in ('l', 'u', 'c'))
        i = z3.Int('b!i')
        H.assume(z3.ForAll([i], z3.Implies(z3.And(i >= 0, i < n), l.f(i) <= u.f(i))))
        idx = H.fun('b_idx', z3.IntSort(), z3.IntSort())
        ts = H.fun('b_ts', z3.IntSort(), z3.IntSort())
        nd = H.fun('b_node', z3.IntSort(), sym.Str)
        H.assume(z3.ForAll([i], z3.Implies(z3.And(i >= 0, i < R), z3.And(idx(i) >= 0, idx(i) < n, z3.Implies(i < n, idx(i) == i))), patterns=[idx(i)]))
        bname = H.str('base_name')
        cols = {'time_step': Arr(R, lambda q: ts(lift(q))), 'node': Arr(R, lambda q: nd(lift(q))), 'type': Arr(R, lambda q: 'd'),
                'asset': Arr(R, lambda q: bname)}
        m = DF(R, Arr(R, lambda q: idx(lift(q))), cols)
        op = Obj('OptimProblem', c=c, l=l, u=u, mapping=m, map_nodal_restr=None)
        # the implementation updates the base problem's vectors in place: the specification refers to pristine copies
        F = dict(n=n, R=R, l=l.copy(), u=u.copy(), c=c.copy(), idx=idx, ts=ts, node=nd)
        if case['rows']:
            mr = H.int('b_m')
            H.assume(mr >= 0)
            af = H.fun('b_A', z3.IntSort(), z3.IntSort(), z3.RealSort())
            ctf = H.fun('b_ct', z3.IntSort(), sym.Str)
            b = H.real_arr('b_b', mr)
            op.set('A', Mat(mr, n, lambda r, cc: af(lift(r), lift(cc))))
            op.set('b', b)
            op.set('cType', FnStr(mr, lambda r: ctf(lift(r))))
            F.update(m=mr, A=af, ct=ctf, b=b.copy())
        else:
            op.set('A', None)
            op.set('b', None)
            op.set('cType', None)
            F.update(m=0)
        nodes = [mk_node(H, 'node0')]
        base = Obj('Asset', name=bname, nodes=nodes)
        base.attrs['__op__'] = op
        vals = {k: H.real(k) for k in ('min_scale', 'max_scale', 'norm_scale', 'fix_costs')}
        H.assume(z3.And(vals['min_scale'] >= 0, vals['min_scale'] <= vals['max_scale'], vals['norm_scale'] > 0))
        self_obj = Obj('ScaledAsset', name=H.str('asset_name'), nodes=nodes, wacc=H.real('wacc'), start=None, end=None, freq=None, profile=None,
                       base_asset=base, **vals)
        prices = {'p': H.real_arr('price', T)}
        ctx = dict(self_obj=self_obj, g=g, R=R_, df=df, F=F, vals=vals, base=base, args=[prices, g, False])
        return ctx

    def callees(self, case, ctx=None):
        def base_setup(I, self_obj, args, kwargs):
            self_obj.set('timegrid', ctx['g'])
            return self_obj.get('__op__')
        return {'assets:Asset.setup_optim_problem': base_setup, 'assets:Asset.set_timegrid': set_timegrid_handler(ctx)}

    inline = ('assets:Asset.node_names',)

    def post(self, H, case, outcome, I, ctx):
        F, v, so = ctx['F'], ctx['vals'], ctx['self_obj']
        if outcome[0] != 'return':
            yield ('C16.scaled.no_raise', False if outcome[0] == 'raise' else Havoc(outcome[1]))
            return
        op = outcome[1]
        c, l, u, A, b, ct, m = (op.get(x) for x in ('c', 'l', 'u', 'A', 'b', 'cType', 'mapping'))
        n, mr = F['n'], F['m']
        S_ = v['norm_scale']
        for x in (c, l, u, A, b, ct):
            if isinstance(x, Havoc):
                yield ('C16.scaled.modelled', x)
                return
        j, r = z3.Int('j'), z3.Int('r')
        jr = z3.And(j >= 0, j < n)
        Rg = ctx['R']
        dur = S.psum(lambda k: Rg.get('dt').f(k), 0, Rg.get('T'), list(I.pc))
        yield ('C16.scaled.var', z3.And(lift(c.n) == n + 1, lift(l.n) == n + 1, lift(u.n) == n + 1, lift(l.f(n)) == v['min_scale'],
                                        lift(u.f(n)) == v['max_scale'], lift(c.f(n)) == v['fix_costs'] * dur))
        yield ('C16.scaled.costs_of_base_kept', z3.ForAll([j], z3.Implies(jr, lift(c.f(j)) == F['c'].f(j))))
        mn = lambda x: z3.If(x <= 0, x, 0)
        mx = lambda x: z3.If(x >= 0, x, 0)
        yield ('C16.scaled.box', z3.ForAll([j], z3.Implies(jr, z3.And(lift(l.f(j)) == mn(F['l'].f(j)) * v['max_scale'] / S_,
                                                                     lift(u.f(j)) == mx(F['u'].f(j)) * v['max_scale'] / S_))))
        Af = A.f if isinstance(A, Mat) else None
        if Af is None:
            yield ('C16.scaled.rows', Havoc('rows not a matrix'))
            return
        nrows = mr + 2 * n
        yield ('C16.scaled.shape', z3.And(lift(A.nr) == nrows, lift(A.nc) == n + 1, lift(b.n) == nrows, lift(S.str_len(ct)) == nrows))
        cc = z3.Int('cc')
        if case['rows']:
            rr = z3.And(r >= 0, r < mr)
            yield ('C16.scaled.rows', z3.ForAll([r, cc], z3.Implies(z3.And(rr, cc >= 0, cc <= n), z3.And(
                lift(Af(r, cc)) == z3.If(cc < n, F['A'](r, cc), -F['b'].f(r) / S_), lift(b.f(r)) == 0, lift(S.char_at(ct, r)) == F['ct'](r)))))
        ind = lambda a_, b_: z3.If(a_ == b_, z3.RealVal(1), z3.RealVal(0))
        # x_d - u_d s/S <= 0   and   x_d - l_d s/S >= 0
        yield ('C16.scaled.bounds.upper', z3.ForAll([j, cc], z3.Implies(z3.And(jr, cc >= 0, cc <= n), z3.And(
            lift(Af(mr + j, cc)) == z3.If(cc < n, ind(cc, j), -F['u'].f(j) / S_), lift(b.f(mr + j)) == 0, lift(S.char_at(ct, mr + j)) == sym.strlit('U')))))
        yield ('C16.scaled.bounds.lower', z3.ForAll([j, cc], z3.Implies(z3.And(jr, cc >= 0, cc <= n), z3.And(
            lift(Af(mr + n + j, cc)) == z3.If(cc < n, ind(cc, j), -F['l'].f(j) / S_), lift(b.f(mr + n + j)) == 0,
            lift(S.char_at(ct, mr + n + j)) == sym.strlit('L')))))
        # mapping
        if isinstance(m, Havoc) or not isinstance(m, DF):
            yield ('C16.scaled.mapping', m if isinstance(m, Havoc) else Havoc('mapping'))
            return
        R = F['R']
        p = z3.Int('p')
        yield ('C16.scaled.mapping.rows', lift(m.n) == R + 1)
        yield ('C04.scaled.all_rows_carry_the_scaled_assets_name', z3.ForAll([p], z3.Implies(z3.And(p >= 0, p <= R), lift(m.cols['asset'].f(p)) == so.get('name'))))
        yield ('C16.scaled.mapping.base_rows', z3.ForAll([p], z3.Implies(z3.And(p >= 0, p < R), z3.And(
            lift(m.index.f(p)) == F['idx'](p), lift(m.cols['time_step'].f(p)) == F['ts'](p), lift(m.cols['node'].f(p)) == F['node'](p),
            lift(m.cols['type'].f(p)) == sym.strlit('d')))))
        yield ('C16.scaled.mapping.scale_row', z3.And(lift(m.index.f(R)) == n, lift(m.cols['type'].f(R)) == sym.strlit('size'),
                                                      lift(m.cols['time_step'].f(R)) == 0, lift(m.cols['var_name'].f(R)) == sym.strlit('scale'),
                                                      lift(m.cols['node'].f(R)) == so.get('nodes')[0].get('name')))

    # ------------------------------------------------------------------ run-time twin (numerical statement of the same clauses)
    def schema(self, case):
        return [('g_T', 'int', None)]

    def sample(self, case, rng):
        from pyvc import native as N
        T = rng.randint(1, 5)
        a = rng.randint(0, T - 1)
        b = rng.randint(a + 1, T)
        lo = [rng.choice([-2., -1., 0., .5, 1.]) for _ in range(T)]
        return N.Params(g_T=T, win_a=a, win_b=b, lo=lo, hi=[x + rng.choice([0., .5, 2.]) for x in lo], min_scale=rng.choice([0., 1.]), max_scale=rng.choice([1., 3.]),
                        norm_scale=rng.choice([1., 2., 4.]), fix_costs=rng.choice([0., .25]), dt=[rng.choice([1., 1., .5, 2.]) for _ in range(T)])

    def native(self, case, P):
        import numpy as np
        import eaopack as eao
        from pyvc import native as N
        T = int(P['g_T'])
        tg, syn = N.synthetic_grid(T, P.get('dt'))
        pts = list(tg.timepoints) + [tg.end]
        a, b = int(P['win_a']), int(P['win_b'])
        node = eao.assets.Node('node0')
        prices = {'lo': np.asarray(P['lo'], dtype=float), 'hi': np.asarray(P['hi'], dtype=float), 'p': np.arange(T) * 1. + 1.}

        def base():
            if case['rows']:
                return eao.assets.Storage(name='base_name', nodes=node, size=3., cap_in=1., cap_out=2., start_level=1., end_level=1., price='p', start=pts[a], end=pts[b])
            return eao.assets.SimpleContract(name='base_name', nodes=node, price='p', min_cap='lo', max_cap='hi', start=pts[a], end=pts[b])
        sc = eao.assets.ScaledAsset(name='asset_name', base_asset=base(), start=pts[a], end=pts[b], min_scale=float(P['min_scale']), max_scale=float(P['max_scale']),
                                    norm_scale=float(P['norm_scale']), fix_costs=float(P['fix_costs']))
        tg2, _ = N.synthetic_grid(T, P.get('dt'))
        ref = base().setup_optim_problem(prices, tg2)
        ctx = dict(ref=ref, P=P, dur=float(np.sum(np.asarray(tg2.dt)[a:b])), synthetic=syn)
        return (lambda: sc.setup_optim_problem(prices, tg, False)), ctx


_sym_post = ScaledSetup.post


def _post(self, H, case, outcome, I, ctx):
    if I is not None:
        yield from _sym_post(self, H, case, outcome, I, ctx)
        return
    import numpy as np
    if outcome[0] != 'return':
        yield ('C16.scaled.no_raise', False)
        return
    op = outcome[1].get('__real__')
    ref, P = ctx['ref'], ctx['P']
    n = len(ref.c)
    S_, mx_, mn_ = float(P['norm_scale']), float(P['max_scale']), float(P['min_scale'])
    ok_len = len(op.c) == n + 1 and len(op.l) == n + 1 and len(op.u) == n + 1
    yield ('C16.scaled.var', bool(ok_len and np.isclose(op.l[n], mn_) and np.isclose(op.u[n], mx_) and np.isclose(op.c[n], float(P['fix_costs']) * ctx['dur'])))
    if not ok_len:
        return
    yield ('C16.scaled.costs_of_base_kept', bool(np.allclose(op.c[:n], ref.c)))
    yield ('C16.scaled.box', bool(np.allclose(op.l[:n], np.minimum(0., ref.l) * mx_ / S_) and np.allclose(op.u[:n], np.maximum(0., ref.u) * mx_ / S_)))
    A = op.A.toarray()
    mr = 0 if ref.A is None else ref.A.shape[0]
    yield ('C16.scaled.shape', A.shape == (mr + 2 * n, n + 1) and len(op.b) == mr + 2 * n and len(op.cType) == mr + 2 * n)
    if A.shape != (mr + 2 * n, n + 1):
        return
    if mr:
        A0 = ref.A.toarray()
        yield ('C16.scaled.rows', bool(np.allclose(A[:mr, :n], A0) and np.allclose(A[:mr, n], -ref.b / S_) and np.allclose(op.b[:mr], 0) and op.cType[:mr] == ref.cType))
    up = np.hstack([np.eye(n), (-ref.u / S_).reshape(n, 1)])
    lo = np.hstack([np.eye(n), (-ref.l / S_).reshape(n, 1)])
    yield ('C16.scaled.bounds.upper', bool(np.allclose(A[mr:mr + n], up) and np.allclose(op.b[mr:mr + n], 0) and op.cType[mr:mr + n] == 'U' * n))
    yield ('C16.scaled.bounds.lower', bool(np.allclose(A[mr + n:], lo) and np.allclose(op.b[mr + n:], 0) and op.cType[mr + n:] == 'L' * n))


ScaledSetup.post = _post
